"""C08 — any sequence of updates keeps files, config and tags in agreement."""
import os, re, json, datetime as dt
import impl_adapter as impl
import gen, refimpl, projgen, rwcommon, sandbox
from common import Driver

NOTE = ("Theorems C08_* (Props/C08.lean): consistency of the version state (config value valid and not below any tag) is an invariant of every invocation and hence of every "
        "history of any length; successful steps strictly increase; `show` agrees with the config; the newest tag denotes the config version when tagging; a further update is "
        "always possible. PARTIAL: real git is exercised, not modelled: seeded histories of update invocations (random flags, non-decreasing dates, failing invocations, "
        "--no-commit / --no-tag-commit runs, unrelated commits, branch switches) run against real git; after each step config, every occurrence, `show`, tags and the commit "
        "contents are checked against an independently tracked reference state; the model's hstep is run on the same history (op history).")


def pep(s):
    from bumpver import version
    return version.parse_version(s)


def ref_safe(vp):
    """git refuses tag names with these characters; a version pattern whose literal text contains them cannot be tagged at all"""
    return not any(c in vp for c in "~^:?*[]\\ ") and ".." not in vp and "//" not in vp and not vp.endswith((".", "/")) and not vp.startswith(("/", "-"))


def run_history(rng, length, script=None):
    """`script`: a fixed list of (kind, days) steps instead of random ones (the `behind` scenario: two updates a year apart, fall back to the
    first commit, update again the next day — with a file whose only pattern is a partial one such as a copyright year)"""
    for _ in range(200):
        if script:
            pr = rwcommon.gen_ok_project(rng, max_files=2, max_pats=2, license_file=True,
                                         vp=rng.choice(["vYYYY.BUILD[-TAG]", "YYYY.MM.PATCH", "vYYYY0M.BUILD[-TAG]", "YYYY.BUILD[PYTAGNUM]", "vYYYY.MINOR.PATCH"]))
        else:
            pr = rwcommon.gen_ok_project(rng, max_files=3, max_pats=3, license_file=rng.random() < 0.5)
        if ref_safe(pr["vp"]):
            break
    if script:
        length = len(script)
    pr["variants"] = True       # implicit self pattern, non-normalised file keys, a glob key that also matches the config file
    vp = pr["vp"]
    tree = refimpl.tokenize(vp)
    st = dict(pr["old_state"])
    date = dt.date(*pr["date"])
    case = {"vp": vp, "start": pr["old"], "steps": [], "implicit_self": pr["implicit_self"], "glob_self": pr["glob_self"], "key_alias": pr["key_alias"]}
    configured = sorted(["bumpver.toml"] + list(pr["files"]))
    with rwcommon.setup(pr, "commit = true\ntag = true\npush = false") as p:
        p.git_init()
        p.git("add", "-A")
        p.git("commit", "-q", "-m", "init")
        model_ops = []
        cur_text = pr["old"]
        old_heads = [p.git("rev-parse", "HEAD").strip()]
        after_behind = False
        for i in range(length):
            kind = rng.choice(["update", "update", "update", "update", "fail", "no_tag", "no_commit", "unrelated", "branch", "behind", "behind", "commit_rejected"])
            head0 = p.git("rev-parse", "HEAD").strip()
            ncommits0 = int(p.git("rev-list", "--count", "HEAD").strip())
            tags0 = sorted(p.git("tag", "--list").split())
            if script:
                kind = script[i][0]
            elif kind != "behind" and cur_text in tags0 and len(old_heads) >= 2 and rng.random() < 0.3:
                kind = "behind"
            step = {"i": i, "kind": kind}
            if kind == "unrelated":
                p.write_text("notes/other.txt", "note %d\n" % i)
                p.git("add", "-A")
                p.git("commit", "-q", "-m", "unrelated %d" % i)
                case["steps"].append(step)
                continue
            if kind == "behind":
                # the checkout falls BEHIND the newest tag (a hotfix branch from an older commit, a revert): files and config on disk show
                # an older version, the next update starts from the newest tag and must bring every occurrence to the new version.
                # Only when the current version is tagged (then it is the start version whatever the older config says).
                if cur_text not in tags0 or len(old_heads) < 2 or p.git("status", "--porcelain").strip():
                    step["kind"] = "behind-skipped"
                    case["steps"].append(step)
                    continue
                target = old_heads[0] if script else rng.choice(old_heads[:-1][:2] + old_heads[:-1])       # biased towards the oldest commits
                p.git("checkout", "-q", "-b", "behind%d" % i, target)
                step["target"] = target
                after_behind = True
                case["steps"].append(step)
                continue
            if kind == "branch":
                # a new branch from the current commit, one unrelated commit on it, continue there
                p.git("checkout", "-q", "-b", "b%d" % i)
                p.write_text("notes/branch.txt", "branch %d\n" % i)
                p.git("add", "-A")
                p.git("commit", "-q", "-m", "branch %d" % i)
                case["steps"].append(step)
                continue
            # right after falling behind the date barely moves: parts that the new version shares with the newest tag (a copyright year)
            # then differ only from what is on disk
            date = date + dt.timedelta(days=script[i][1] if script else rng.choice([0, 0, 1] if after_behind else [0, 0, 1, 30, 200, 400]))
            after_behind = False
            if date > dt.date(2096, 1, 1):
                break
            c = refimpl.cal_of(date)
            if 53 in (c["week_w"], c["week_u"]):
                date += dt.timedelta(days=2)
            flags = {"major": False, "minor": False, "patch": False, "tag": None, "tag_num": False, "pin_increments": False, "pin_date": False}
            for k in ("major", "minor", "patch"):
                if k.upper() in vp and rng.random() < 0.35:
                    flags[k] = True
            has_pep = any("{pep440_version}" in raw for f in pr["layout"] for raw in f["raws"])
            if ("TAG" in vp) and rng.random() < 0.3:
                # dev/post are written as "dev0"/"post0" by the PEP 440 pattern but ".dev0"/".post0" by the canonical form (C15): keep them
                # out of projects whose fixtures contain {pep440_version} occurrences
                flags["tag"] = rng.choice([t for t in gen.TAGS if not (has_pep and t in ("dev", "post"))])
            if "NUM" in vp and st["tag"] != "final" and not flags["tag"] and rng.random() < 0.3:
                flags["tag_num"] = True
            args = ["update", "--no-fetch", "--date", date.isoformat()]
            for k in ("major", "minor", "patch"):
                if flags[k]:
                    args.append("--" + k)
            if flags["tag"]:
                args += ["--tag", flags["tag"]]
            if flags["tag_num"]:
                args.append("--tag-num")
            new = refimpl.bump(tree, st, flags, date)
            nb = refimpl.next_bid(st["bid"])
            if nb is None:
                break
            new["bid"] = nb
            new_text = refimpl.render(tree, new)
            expect_ok = bool(new_text) and new_text != cur_text and pep(new_text) > pep(cur_text)
            if kind == "fail":
                args = ["update", "--no-fetch", "--set-version", rng.choice([cur_text, "junk", cur_text + "x"])]
                expect_ok = False
            elif kind == "commit_rejected" and expect_ok:
                # git itself refuses the commit (a native pre-commit hook that fails): the update must report failure, and must not
                # leave a tag for a version that was never committed; afterwards the work tree is reset and the history goes on
                hookdir = p.git("rev-parse", "--git-path", "hooks").strip()
                hookdir = hookdir if os.path.isabs(hookdir) else os.path.join(p.dir, hookdir)
                os.makedirs(hookdir, exist_ok=True)
                hp = os.path.join(hookdir, "pre-commit")
                with open(hp, "w") as f:
                    f.write("#!/bin/sh\necho 'release checklist not done' >&2\nexit 1\n")
                os.chmod(hp, 0o755)
                code, out, exc = sandbox.run_cli(args, p.dir)
                os.unlink(hp)
                head1 = p.git("rev-parse", "HEAD").strip()
                tags1 = sorted(p.git("tag", "--list").split())
                step.update(args=args, exit=code, tags=tags1)
                case["steps"].append(step)
                p.git("reset", "-q", "--hard", "HEAD")
                if code == 0 or head1 != head0 or tags1 != tags0:
                    return pr, case, ("step %d: git refused the commit (failing native pre-commit hook) but `bumpver %s` exited %s, HEAD moved: %s, new tags %r"
                                      % (i, " ".join(args), code, head1 != head0, sorted(set(tags1) - set(tags0))))
                continue
            elif kind == "no_tag":
                args.append("--no-tag-commit")
            elif kind == "no_commit":
                args.append("--no-commit")
            step.update(args=args, expect_ok=expect_ok, expected_version=new_text if expect_ok else cur_text)
            before = p.snapshot()
            code, out, exc = sandbox.run_cli(args, p.dir)
            after = p.snapshot()
            head1 = p.git("rev-parse", "HEAD").strip()
            ncommits1 = int(p.git("rev-list", "--count", "HEAD").strip())
            tags1 = sorted(p.git("tag", "--list").split())
            code_s, out_s, _ = sandbox.run_cli(["show", "--no-fetch"], p.dir)
            shown = None
            for line in out_s.splitlines():
                if line.startswith("Current Version: "):
                    shown = line[len("Current Version: "):]
            step.update(exit=code, shown=shown, tags=tags1)
            case["steps"].append(step)
            model_ops.append({"candidate": new_text if kind != "fail" else args[-1], "commit": kind != "no_commit", "tag": kind not in ("no_commit", "no_tag"), "ok": code == 0})
            if (code == 0) != expect_ok:
                return pr, case, "step %d (%s): `bumpver %s` exited %s, expected %s (from %r, reference new version %r)" % (
                    i, kind, " ".join(args), code, "success" if expect_ok else "failure", cur_text, new_text)
            if code != 0:
                if after != before or head1 != head0 or tags1 != tags0:
                    return pr, case, "step %d: failed update changed files, HEAD or tags" % i
                continue
            # success: everything agrees on the new version
            st = new
            prev_text, cur_text = cur_text, new_text
            pr2 = dict(pr)
            pr2["new"] = new_text
            pr2["expected_files"] = projgen.materialize(pr, st)
            exp = dict(before)
            for name, text in pr2["expected_files"].items():
                exp[name] = text.encode("utf-8")
            cfg_txt = after["bumpver.toml"].decode("utf-8")
            m = re.search(r'current_version = "((?:[^"\\]|\\.)*)"', cfg_txt)
            cfg_ver = json.loads('"' + m.group(1) + '"') if m else None
            if cfg_ver != new_text:
                return pr, case, "step %d: config current_version is %r after announcing %r" % (i, cfg_ver, new_text)
            for name in pr["files"]:
                if after[name] != exp[name]:
                    return pr, case, "step %d: file %r is %r, expected %r" % (i, name, after[name][:200], exp[name][:200])
            if shown != new_text:
                return pr, case, "step %d: `show` reports %r after announcing %r" % (i, shown, new_text)
            if not pep(new_text) > pep(prev_text):
                return pr, case, "step %d: %r is not greater than %r" % (i, new_text, prev_text)
            if kind == "no_commit":
                if head1 != head0 or tags1 != tags0:
                    return pr, case, "step %d: --no-commit run made a commit or tag" % i
                p.git("add", "-A")
                p.git("commit", "-q", "-m", "manual commit of bump %d" % i)
                continue
            old_heads.append(head1)
            if ncommits1 != ncommits0 + 1:
                return pr, case, "step %d: a committing update added %d commits" % (i, ncommits1 - ncommits0)
            committed = sorted(p.git("-c", "core.quotepath=false", "show", "--name-only", "--format=", "HEAD").splitlines())
            if not set(committed) <= set(configured) or "bumpver.toml" not in committed:
                return pr, case, "step %d: the bump commit contains %r, configured files are %r" % (i, committed, configured)
            if kind == "no_tag":
                if tags1 != tags0:
                    return pr, case, "step %d: --no-tag-commit run created a tag" % i
            else:
                if sorted(set(tags1) - set(tags0)) != [new_text]:
                    return pr, case, "step %d: new tags %r, expected exactly [%r]" % (i, sorted(set(tags1) - set(tags0)), new_text)
                if p.git("rev-list", "-n", "1", new_text).strip() != head1:
                    return pr, case, "step %d: tag %r is not on the bump commit" % (i, new_text)
        case["model_ops"] = model_ops
        case["final_tags"] = sorted(p.git("tag", "--list").split())
        case["final_version"] = cur_text
    return pr, case, None


def run(chk, driver, tier):
    rng = chk.rng
    nhist, length = (500, 12) if tier == "thorough" else (40, 8)
    chk.extra["rule"] = ("seeded histories (length up to %d) of update invocations with random flag sets and non-decreasing dates, interleaved failing invocations, "
                         "--no-commit / --no-tag-commit runs, unrelated commits and branch switches, over grammar patterns and generated layouts, with real git; "
                         "non-trivial = distinct history") % length
    hist_ops, hist_impl = [], []
    behind_script = [("update", 3), ("update", 400), ("behind", 0), ("update", 1), ("update", 30)]
    for hi in range(nhist):
        if hi % 6 == 5:
            pr, case, verdict = run_history(rng, 0, script=behind_script)
            chk.count("scripted:behind")
        else:
            pr, case, verdict = run_history(rng, rng.randint(3, length))
        if verdict is None and case.get("model_ops"):
            hist_ops.append({"op": "history", "pattern": case["vp"], "config_version": case["start"], "tags": [], "today": [2026, 9, 29],
                             "ops": [{"candidate": o["candidate"], "commit": o["commit"], "tag": o["tag"]} for o in case["model_ops"]]})
            hist_impl.append({"oks": [o["ok"] for o in case["model_ops"]], "config_version": case["final_version"], "tags": case["final_tags"]})
        chk.count("steps", len(case["steps"]))
        for s in case["steps"]:
            chk.count("kind:" + s["kind"])
        chk.traces += 1
        chk.oracle_case(case, verdict)
    # the model's hstep on the same histories (tags compared as sets: git lists them sorted)
    outs = driver.run(hist_ops)
    for o, want, got in zip(hist_ops, hist_impl, outs):
        chk.evaluations += 1
        if "unsupported" in got:
            chk.unsupported += 1
            continue
        if got.get("oks") != want["oks"] or got.get("config_version") != want["config_version"] or sorted(got.get("tags", [])) != want["tags"]:
            chk.disagreements.append({"op": o, "impl": want, "model": got})
        else:
            chk.count("agree:history")
    return []


def search(chk, driver, tier):
    rng = chk.rng
    for _ in range(60):
        pr, case, verdict = run_history(rng, 10)
        chk.oracle_case(case, verdict)
        if chk.violations:
            return


def replay(payload):
    return "re-run ./check C08 with VERIF_SEED=%s" % payload.get("seed")
