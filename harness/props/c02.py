"""C02 — rendered versions are accepted by their own pattern and read back unchanged."""
import datetime as dt
import impl_adapter as impl
import gen, refimpl, projgen
from common import load_known_findings

NOTE = ("Theorems C02_* (Props/C02.lean): the recogniser table and the renderer table agree part by part — every value a part can take is rendered to text its own regex "
        "accepts in full (also before a non-digit continuation: maximal munch) and that reads back as the same value; unbounded numeric parts by induction on digit lists; "
        "calendar values produced by cal_info lie in the recognised domains (except week 53: known finding). The COMPOSITION over whole patterns is proved on the pattern "
        "tree (C02_accepted_in_full, C02_roundtrip_ast, C02_roundtrip_of_date: accepted in full, read back with every part equal, re-rendered identically, for every well-formed "
        "tree and every record in its domain); the tree is tied to the string pipeline by kernel evaluation for the README patterns and by the driver op ast_tie on every "
        "generated pattern (same regex, same rendering; the evidence reports how many generated (pattern, record) pairs lie inside the theorems' domain). Oracle on the "
        "implementation: render -> parse -> fields equal -> re-render identical -> next run accepts.")

FIELDS_NUM = ("major", "minor", "patch", "num", "inc0", "inc1")


def week53(tree, d):
    parts = refimpl.parts_of(tree)
    c = refimpl.cal_of(d)
    return (any(p in parts for p in ("WW", "0W")) and c["week_w"] == 53) or (any(p in parts for p in ("UU", "0U")) and c["week_u"] == 53)


def roundtrip(rng, thorough_dates=None):
    pat = gen.gen_pattern(rng, True)
    tree = refimpl.tokenize(pat)
    d = thorough_dates or gen.gen_date(rng, dt.date(1000, 1, 1), dt.date(9999, 12, 31))
    if any(p in refimpl.parts_of(tree) for p in ("YY", "0Y", "GG", "0G")):
        d = d.replace(year=2001 + d.year % 98, day=min(d.day, 28))
    st = refimpl.gen_state(rng, tree, d, gen)
    vj = projgen.vinfo_of_state(st)
    today = [2026, 9, 29]
    case = {"pattern": pat, "state": {k: v for k, v in st.items()}}
    region = "F-C02-week53" if week53(tree, d) else None
    f = impl.format_vinfo(vj, pat)
    want = refimpl.render(tree, st)
    if f.get("ok") != want:
        return case, "format_version renders %r for pattern %r, the README rules give %r" % (f, pat, want), region
    s = f["ok"]
    if not s:
        return case, None, region
    p = impl.parse_version(s, pat, today)
    if "ok" not in p:
        return case, "the rendered version %r is not accepted by its own pattern %r: %r" % (s, pat, p), region
    got = p["ok"]
    shown = refimpl.observable_fields(tree)
    for fld in shown:
        if fld in FIELDS_NUM:
            if got[fld] != st[fld]:
                return case, "%r read back through %r: %s = %r, rendered from %r" % (s, pat, fld, got[fld], st[fld]), region
        elif fld == "bid":
            exp = st["bid"] if "BUILD" in refimpl.parts_of(tree) else str(int(st["bid"]))
            if got["bid"] != exp:
                return case, "%r read back through %r: bid = %r, rendered from %r" % (s, pat, got["bid"], st["bid"]), region
        elif fld in ("tag", "pytag"):
            if got["tag"] != st["tag"]:
                return case, "%r read back through %r: tag = %r, rendered from %r" % (s, pat, got["tag"], st["tag"]), region
        else:
            idx = refimpl.CAL_ORDER.index(fld)
            twodigit = any(q in refimpl.parts_of(tree) for q in (("YY", "0Y") if fld == "year_y" else ("GG", "0G")))
            if got["cal"][idx] != st[fld]:
                return case, "%r read back through %r: %s = %r, rendered from %r" % (s, pat, fld, got["cal"][idx], st[fld]), region
    f2 = impl.format_vinfo(got, pat)
    if f2.get("ok") != s:
        return case, "%r read back and rendered again through %r gives %r" % (s, pat, f2), region
    # the next run accepts it as current version
    none_flags = {"major": False, "minor": False, "patch": False, "tag": None, "tag_num": False, "pin_increments": False, "pin_date": True}
    r = impl.incr(s, pat, none_flags, [d.year, d.month, d.day], today)
    if "err" in r:
        # a BUILD of all nines is the lexid scheme's documented maximum (C17): the next bump has no successor
        if r["err"] == "OverflowError" and set(st["bid"]) == {"9"} and any(q in refimpl.parts_of(tree) for q in ("BUILD", "BLD")):
            return case, None, region
        return case, "the next run fails on the announced version %r: %r" % (s, r), region
    if r.get("ok"):
        p2 = impl.parse_version(r["ok"], pat, today)
        if "ok" not in p2:
            return case, "the version %r announced by a bump of %r is not a legal current version for %r" % (r["ok"], s, pat), region
    return case, None, region


def run(chk, driver, tier):
    rng = chk.rng
    n = 40000 if tier == "thorough" else 2500
    known = {f["id"]: f for f in load_known_findings("C02") if f.get("status") == "open"}
    chk.extra["rule"] = ("uniquely readable grammar patterns (literal text, every documented part, nested optional groups) x boundary and random part values x dates "
                         "1000-01-01..9999-12-31 (two-digit-year parts 2001..2098); thorough additionally renders every date of 2001..2099 through every calendar part; "
                         "non-trivial = distinct (pattern, state)")
    seen53 = None
    tie_ops = []
    for _ in range(n):
        case, verdict, region = roundtrip(rng)
        if len(tie_ops) < n // 2:
            tie_ops.append({"op": "ast_tie", "pattern": case["pattern"], "vinfo": projgen.vinfo_of_state(case["state"]), "today": [2026, 9, 29]})
        if verdict and region in known:
            seen53 = case
        chk.count("ok" if not verdict else "bad")
        chk.oracle_case(case, verdict, region if region in known else None)
    # every calendar part against every date (thorough: all days 2001..2099; quick: year ends + sample)
    days = []
    if tier == "thorough":
        d = dt.date(2001, 1, 1)
        while d <= dt.date(2099, 12, 31):
            days.append(d)
            d += dt.timedelta(days=1)
    else:
        for y in range(2001, 2100):
            days += [dt.date(y, 12, 31), dt.date(y, 1, 1), dt.date(y, 2, 28)]
    CAL_PARTS = ["YYYY", "YY", "0Y", "GGGG", "GG", "0G", "Q", "MM", "0M", "DD", "0D", "JJJ", "00J", "WW", "0W", "UU", "0U", "VV", "0V"]
    today = [2026, 9, 29]
    for d in days:
        vj = impl.vinfo_json(impl.make_vinfo({"date": [d.year, d.month, d.day]}))
        for part in CAL_PARTS:
            pat = "x" + part + "."
            s = impl.format_vinfo(vj, pat).get("ok")
            p = impl.compile_search(pat, s or "", "match")
            fld = refimpl.PART_FIELD[part]
            verdict = None
            if p.get("span") != [0, len(s or "")]:
                verdict = "part %s renders %s as %r which its own recogniser does not accept in full (%r)" % (part, d, s, p)
            region = "F-C02-week53" if (part in ("WW", "0W", "UU", "0U") and refimpl.cal_of(d)["week_" + part[-1].lower()] == 53) else None
            if verdict and region in known and seen53 is None:
                seen53 = {"pattern": pat, "date": str(d), "rendered": s}
            chk.oracle_case({"part": part, "date": str(d)}, verdict, region if region in known else None)
    # correspondence: format / parse ops on grammar patterns (shared with C05)
    import props.c05 as c05
    c05.corr_filter(chk, [o for o in c05.corr_ops(rng, n // 3) if o["op"] in ("format", "parse")], driver)
    # model-internal tie: the pattern TREE (Model/PatAst.lean, where the composition theorem lives) and the string pipeline
    # (the faithful model of the code) must agree on every generated pattern: same regex, same rendering
    want = {"tokenized": True, "compile_eq": True, "render_eq": True}
    for o, got in zip(tie_ops, driver.run(tie_ops)):
        chk.evaluations += 1
        core = {k: got.get(k) for k in want}
        if core != want:
            chk.disagreements.append({"op": o, "impl": want, "model": got})
            continue
        chk.count("agree:ast_tie")
        # how much of the generated input lies inside the domain of the round-trip theorems, and (as a test of the STATEMENT) the
        # theorem's conclusion evaluated on each such instance: a false instance would mean the executable definitions the
        # driver runs are not the ones the theorem is about
        chk.count("tree_wf" if got.get("wf") else "tree_not_wf")
        # inside the domain of the PROVED tie tree = string surgery (Props/C02Tie.lean)?  There the agreement just checked is a theorem;
        # outside it (adjacency like `0MM…`, a part name inside another with a different field) it stays a per-pattern check
        chk.count("tok_safe" if got.get("tok_safe") else "not_tok_safe")
        chk.count("pep_tok_safe" if got.get("pep_tok_safe") else "pep_not_tok_safe")
        if got.get("in_domain") and got.get("anchored"):
            chk.count("in_theorem_domain")
            if not got.get("theorem_instance"):
                chk.disagreements.append({"op": o, "impl": "C02_roundtrip_of_date holds on this instance", "model": got})
        else:
            chk.count("outside_theorem_domain")
    lines = []
    if "F-C02-week53" in known and seen53:
        lines.append("F-C02-week53: %s (witness: %s)" % (known["F-C02-week53"]["summary"][:160], {k: seen53[k] for k in list(seen53)[:3]}))
    return lines


def search(chk, driver, tier):
    rng = chk.rng
    known = {f["id"]: f for f in load_known_findings("C02") if f.get("status") == "open"}
    for _ in range(60000):
        case, verdict, region = roundtrip(rng)
        chk.oracle_case(case, verdict, region if region in known else None)
        if chk.violations:
            return


def replay(payload):
    return "re-run ./check C02 with VERIF_SEED=%s" % payload.get("seed")
