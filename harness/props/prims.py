"""The TRUSTED PRIMITIVES of the function translators against CPython (driver op `prim`, lean/BumpverVerif/Driver/Prims.lean).

The source-level ties prove "definition regenerated from the Python source = hand model" — inside Lean, where `s.replace(a, b)`,
`xs[i:j]`, `sorted(xs, key=…)`, `d[k] = v`, `int(s)`, `datetime.date(y, m, d)` … are the Lean functions of the prelude files.  That those
functions mean what CPython does cannot be proved here; it is tested on every run: random arguments go to the Lean definition and to
the Python built-in, results must be equal (exceptions by class).  A disagreement is reported as a correspondence failure of the check
that runs this (the primitives are shared by all ties)."""
import datetime as dt


def _rs(rng, alpha="ab.{}-0 é", lo=0, hi=8):
    return "".join(rng.choice(alpha) for _ in range(rng.randint(lo, hi)))


def _pairs(rng):
    n = rng.randint(0, 7)
    return [[rng.randint(0, 3), i] for i in range(n)]


def _kvs(rng):
    return [[rng.choice(["a", "b", "c", "dd", ""]), _rs(rng, "xyz", 0, 2)] for _ in range(rng.randint(0, 6))]


def _ints(rng):
    return [rng.randint(-3, 9) for _ in range(rng.randint(0, 6))]


def _exc(f, *classes):
    try:
        return {"ok": f()}
    except classes as e:
        return {"err": type(e).__name__}


def _date(f):
    try:
        d = f()
        return {"ok": [d.year, d.month, d.day]}
    except ValueError:
        return {"err": "ValueError"}
    except OverflowError:
        return {"err": "OverflowError"}


def gen_op(rng):
    """one primitive call: (op for the driver, Python's answer)"""
    name = rng.choice(NAMES)
    o = {"op": "prim", "name": name}
    if name.startswith("replace_"):
        s = _rs(rng, "ab.{}", 0, 9)
        pat = _rs(rng, "ab.{", 0 if rng.random() < 0.15 else 1, 2)
        rep = _rs(rng, "abX", 0, 2)
        o.update(pat=pat, rep=rep, s=s)
        return o, {"ok": s.replace(pat, rep)}
    if name == "slice_fp":
        xs, a, b = _ints(rng), rng.randint(-8, 8), rng.randint(-8, 8)
        o.update(xs=xs, a=a, b=b)
        return o, {"ok": xs[a:b]}
    if name == "slice_pyp":
        s, a, b = _rs(rng), rng.randint(-10, 10), rng.randint(-10, 10)
        o.update(s=s, a=a, b=b)
        return o, {"ok": s[a:b]}
    if name in ("slice_from", "slice_to"):
        s, a = _rs(rng), rng.randint(-10, 10)
        o.update(s=s, a=a)
        return o, {"ok": s[a:] if name == "slice_from" else s[:a]}
    if name == "index_fp":
        xs, a = _ints(rng), rng.randint(-8, 8)
        o.update(xs=xs, a=a)
        return o, _exc(lambda: xs[a], IndexError)
    if name == "pop_fp":
        xs = _ints(rng)
        o.update(xs=xs)
        ys = list(xs)
        return o, _exc(lambda: (lambda v: [ys, v])(ys.pop()), IndexError)
    if name == "getitem_pyp":
        s, a = _rs(rng), rng.randint(-10, 10)
        o.update(s=s, a=a)
        return o, _exc(lambda: s[a], IndexError)
    if name == "getitem_rw":
        xs, a = _ints(rng), rng.randint(0, 8)
        o.update(xs=xs, a=a)
        return o, _exc(lambda: xs[a], IndexError)
    if name == "setitem_rw":
        xs, a, v = _ints(rng), rng.randint(0, 8), rng.randint(0, 9)
        o.update(xs=xs, a=a, v=v)

        def f():
            ys = list(xs)
            ys[a] = v
            return ys
        return o, _exc(f, IndexError)
    if name == "find_fp":
        s, sub = _rs(rng, "ab.", 0, 9), _rs(rng, "ab.", 1, 2)
        o.update(s=s, sub=sub)
        return o, {"ok": s.find(sub)}
    if name == "find_pyp":
        s, sub, a = _rs(rng, "ab.", 0, 9), _rs(rng, "ab.", 1, 2), rng.randint(-11, 11)
        o.update(s=s, sub=sub, a=a)
        return o, {"ok": s.find(sub, a)}
    if name == "int_genf":
        s = _rs(rng, "0123456789", 0, 6) if rng.random() < 0.8 else _rs(rng, "019a.", 0, 4)
        o.update(s=s)
        if s and not all(ch in "0123456789" for ch in s) and s.strip("0123456789") in ("",):
            pass
        # the modelled language: ASCII digit strings (Python's int() also takes blanks, signs, underscores: not generated)
        return o, _exc(lambda: int(s), ValueError)
    if name == "int_to_str":
        a = rng.choice([0, 1, -1, 7, 10, -10, 99, 100, 12345, -99999, rng.randint(-10**9, 10**9)])
        o.update(a=a)
        return o, {"ok": str(a)}
    if name in ("sorted_fp", "sorted_rw", "sorted_asc_pyp", "sorted_cli"):
        xs = _pairs(rng)
        o.update(xs=xs)
        return o, {"ok": sorted(xs, key=lambda p: p[0])}
    if name in ("sorted_desc_fp", "sorted_desc_pyp", "sorted_rev_cli"):
        xs = _pairs(rng)
        o.update(xs=xs)
        return o, {"ok": sorted(xs, key=lambda p: p[0], reverse=True)}
    if name == "sorted_items_fp":
        xs = _pairs(rng)
        rng.shuffle(xs)
        o.update(xs=xs)
        return o, {"ok": [list(t) for t in sorted(tuple(p) for p in xs)]}
    if name in ("max_cli", "min_cli"):
        xs = _pairs(rng)
        o.update(xs=xs)
        f = max if name == "max_cli" else min
        return o, _exc(lambda: [f(xs, key=lambda p: p[0])], ValueError)
    if name in ("dict_fp", "dict_pyp", "dict_genf", "dict_of_pairs_pyp", "dict_of_list_genf"):
        kvs = _kvs(rng)
        o.update(kvs=kvs)
        d = {}
        for k, v in kvs:
            d[k] = v
        return o, {"ok": [[k, v] for k, v in d.items()]}
    if name == "dict_update_k":
        kvs, more = _kvs(rng), _kvs(rng)
        d0 = {}
        for k, v in kvs:
            d0[k] = v
        base = [[k, v] for k, v in d0.items()]
        o.update(kvs=base, more=more)
        d = dict(base)
        for k, v in more:
            d[k] = v
        return o, {"ok": [[k, v] for k, v in d.items()]}
    if name == "set_of_list":
        xs = _ints(rng)
        o.update(xs=xs)
        return o, {"ok": sorted(set(xs)), "_set": True}
    if name == "set_diff":
        xs, ys = sorted(set(_ints(rng))), sorted(set(_ints(rng)))
        o.update(xs=xs, ys=ys)
        return o, {"ok": sorted(set(xs) - set(ys)), "_set": True}
    if name == "set_eq":
        xs = sorted(set(_ints(rng)))
        ys = list(xs) if rng.random() < 0.4 else sorted(set(_ints(rng)))
        rng.shuffle(ys)
        o.update(xs=xs, ys=ys)
        return o, {"ok": set(xs) == set(ys)}
    if name == "set_inter":
        xs = [rng.choice("abcd") for _ in range(rng.randint(0, 4))]
        ys = [rng.choice("abcd") for _ in range(rng.randint(0, 4))]
        o.update(xs=xs, ys=ys)
        return o, {"ok": sorted(set(xs) & set(ys)), "_set": True}
    if name == "enumerate":
        xs = _ints(rng)
        o.update(xs=xs)
        return o, {"ok": [[i, x] for i, x in enumerate(xs)]}
    if name == "split_rw":
        s, sep = _rs(rng, "ab\n\r ", 0, 9), rng.choice(["\n", "\r\n", "\r", "a", "ab", ""])
        o.update(s=s, sep=sep)
        return o, _exc(lambda: s.split(sep), ValueError)
    if name == "split_ws1":
        s = _rs(rng, "ab \t\n", 0, 9)
        o.update(s=s)
        return o, {"ok": s.split(None, 1)}
    if name == "before_first_blank":
        s = _rs(rng, "ab \t", 0, 9)
        o.update(s=s)
        return o, {"ok": s.split(" ", 1)[0]}
    if name in ("date", "date_v1"):
        y, m, d = rng.choice([0, 1, 4, 1900, 2000, 2023, 2024, 9999, 10000]), rng.randint(0, 13), rng.randint(0, 32)
        o.update(y=y, m=m, d=d)
        return o, _date(lambda: dt.date(y, m, d))
    if name == "date_add_days":
        y, m, d = rng.choice([1, 4, 1900, 2000, 2023, 2024, 9999]), rng.randint(1, 12), rng.randint(1, 28)
        n = rng.choice([0, 1, -1, 30, 365, 366, -366, 100000, -800000, 3000000, -3000000, rng.randint(-400, 400)])
        o.update(y=y, m=m, d=d, n=n)
        return o, _date(lambda: dt.date(y, m, d) + dt.timedelta(days=n))
    if name == "date_from_doy":
        y, doy = rng.choice([1, 4, 1900, 2000, 2023, 2024, 9998, 9999]), rng.choice([0, 1, 59, 60, 61, 365, 366, 367, 400, 1000, rng.randint(0, 400)])
        o.update(y=y, doy=doy)
        from bumpver import version as bv_version
        return o, _date(lambda: bv_version.date_from_doy(y, doy))
    if name == "next_id":
        import lexid
        s = rng.choice(["0", "1", "8", "9", "09", "10", "18", "19", "099", "0999", "1000", "1998", "1999", "8999", "9", "99", "999", "21999"] + [str(rng.randint(0, 99999))])
        o.update(s=s)
        return o, _exc(lambda: lexid.next_id(s), OverflowError)
    if name == "re_sub":
        import re
        for _ in range(20):
            pat = _gen_rx(rng)
            try:
                groups = re.compile(pat).groups
                break
            except re.error:
                continue
        else:
            pat, groups = "\\b(OLD|NEW)\\b", 1
        rep = _gen_repl(rng, groups)
        words = ["OLD", "NEW", "a", "ab", "b", " ", "_", "1", "é", "-", "HOLD", "NEWS", "OLD_"]
        s = "".join(rng.choice(words) for _ in range(rng.randint(0, 7)))
        o.update(pat=pat, rep=rep, s=s)
        try:
            return o, {"ok": re.sub(pat, rep, s), "_may_refuse": True}
        except (re.error, IndexError):
            return o, {"refused": 1}
    raise AssertionError(name)


_RX_ALPHA = "abOLDNEW _1é-"


def _gen_rx(rng, depth=0):
    import re
    parts = []
    for _ in range(rng.randint(1, 4)):
        k = rng.random()
        if k < 0.5:
            c = rng.choice(_RX_ALPHA)
            parts.append(re.escape(c) if rng.random() < 0.3 and c != "é" else c)
        elif k < 0.65:
            parts.append(rng.choice(["\\b", "\\B"]))
        elif k < 0.85 and depth < 2:
            inner = "|".join(_gen_rx(rng, depth + 1) for _ in range(rng.randint(1, 3)))
            parts.append(("(%s)" if rng.random() < 0.7 else "(?:%s)") % inner)
        else:
            parts.append(rng.choice(["OLD", "NEW", "a", "ab"]))
    return "".join(parts)


def _gen_repl(rng, groups):
    out = []
    for _ in range(rng.randint(0, 5)):
        k = rng.random()
        if k < 0.6:
            out.append(rng.choice("ab{}_X é"))
        elif k < 0.85:
            out.append("\\%d" % rng.randint(1, max(1, groups + (1 if rng.random() < 0.1 else 0))))
        else:
            out.append("\\\\")
    return "".join(out)


NAMES = ["replace_fp", "replace_pyp", "replace_v1", "slice_fp", "slice_pyp", "slice_from", "slice_to", "index_fp", "pop_fp", "getitem_pyp", "getitem_rw",
         "setitem_rw", "find_fp", "find_pyp", "int_genf", "int_to_str", "sorted_fp", "sorted_desc_fp", "sorted_items_fp", "sorted_rw", "sorted_asc_pyp",
         "sorted_desc_pyp", "sorted_cli", "sorted_rev_cli", "max_cli", "min_cli", "dict_fp", "dict_pyp", "dict_of_pairs_pyp", "dict_genf", "dict_of_list_genf",
         "dict_update_k", "set_of_list", "set_diff", "set_eq", "set_inter", "enumerate", "split_rw", "split_ws1", "before_first_blank", "date", "date_v1",
         "date_add_days", "date_from_doy", "next_id", "re_sub"]


def _canon(py, lean):
    if py.get("_set") and isinstance(lean.get("ok"), list):
        lean = dict(lean, ok=sorted(set(lean["ok"])))       # a set as a list: only membership is observed
    if py.get("_may_refuse") and lean.get("refused"):
        # the model's re.sub refuses patterns that can match the empty string (conservative): not a disagreement
        return {}, {}
    py = {k: v for k, v in py.items() if k not in ("_set", "_may_refuse")}
    return py, lean


def run(chk, driver, n):
    rng = chk.rng
    ops, answers = [], []
    for _ in range(n):
        o, a = gen_op(rng)
        o["i"] = len(ops)
        ops.append(o)
        answers.append(a)
        chk.count("prim:" + o["name"])
    outs = driver.run(ops)
    bad = 0
    for o, a, r in zip(ops, answers, outs):
        py, lean = _canon(a, r)
        if py != lean:
            bad += 1
            chk.disagreements.append({"op": {k: v for k, v in o.items() if k != "i"}, "impl": py, "model": lean,
                                      "note": "trusted primitive of the translators differs from CPython"})
    chk.extra["primitive_calls_checked"] = chk.extra.get("primitive_calls_checked", 0) + len(ops)
    return bad
