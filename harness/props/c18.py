"""C18 — the same configuration means the same thing in every config format."""
import os, re, json
import impl_adapter as impl
import sandbox
from common import load_known_findings, log

NOTE = ("Theorems C18_* (Props/C18.lean) about parseCfgPost/parseTomlPost/parseConfig (Model/Config.lean): for every abstract configuration that is "
        "expressible in both syntaxes the INI reader and the TOML reader give the same result for the same validation/glob/file-system answers "
        "(C18_equiv, all section placements: C18_sections), an accepted result never has tag or push without commit, the config file is always among "
        "the files, the true spellings in any case are True and everything else False; negative witness for quoted booleans. "
        "Tie: (a) the real configparser/toml give exactly the raw data iniRaw/tomlRaw (Lean, op abs_raw) claim for the rendered text; "
        "(b) ops cfg_post_ini/cfg_post_toml/cur_version_pattern vs _parse_cfg/_parse_toml/_parse_raw_config/_parse_config; "
        "(c) oracle: config.init and `bumpver show` on sibling projects, one per format, compared with each other and with the intended settings.")

# (key in abs_raw, config file, section header, file_patterns header, kind)
FORMATS = [
    ("ini", "setup.cfg", "[bumpver]", "[bumpver:file_patterns]", "cfg"),
    ("ini_legacy", "setup.cfg", "[pycalver]", "[pycalver:file_patterns]", "cfg"),
    ("toml_tool", "pyproject.toml", "[tool.bumpver]", "[tool.bumpver.file_patterns]", "toml"),
    ("toml_plain", "bumpver.toml", "[bumpver]", "[bumpver.file_patterns]", "toml"),
    ("toml_plain", ".bumpver.toml", "[bumpver]", "[bumpver.file_patterns]", "toml"),
    ("toml_legacy", "pycalver.toml", "[pycalver]", "[pycalver.file_patterns]", "toml"),
]
SELF = "<SELF>"
NESTED = "<NESTED_SELF>"     # another file with the config file's BASE NAME in a sub-directory (a monorepo's packages/x/pyproject.toml): it is NOT the config file
STRIP = "'\" "

SCHEMES = [("MAJOR.MINOR.PATCH", "1.2.3"), ("vYYYY0M.BUILD[-TAG]", "v202001.1001-beta"), ("{pycalver}", "v202001.1001-beta"),
           ("YYYY.BUILD[-TAG]", "2026.1001-alpha"), ("{semver}", "1.2.3"), ("MAJOR.MINOR.PATCH[-TAG]", "10.0.7-rc")]
BAD_SCHEMES = [("MAJOR.MINOR.PATCH", "v202001.1001-beta"), ("YYYY.MM DD", "2020.1 2"), ("{pycalver}", "1.2.3"), ("MAJOR.MINOR", "")]
TRUE_SP = ["yes", "true", "1", "on"]
FALSE_SP = ["no", "false", "0", "off"]
JUNK_SP = ["y", "t", "enabled", "2", "-1", "", "yes!", "tru e", "ｙｅｓ", "oK", "yeſ", "none", "True.", "n"]
MSG_FRAGS = ["bump", "version", " ", "  ", "#", ";", "=", "%", "%(x)s", "{new_version}", "{old_version}", "'", '"', "->", ":", "[", "]", "ä",
             "release", "{new_version_pep440}", "$", "\\", "!", ",", "日本"]
PROJECT_FILES = ["README.md", "setup.py", "src/pkg/__init__.py", "src/pkg/mod.py", "docs/conf.py", "Änderungen.txt", "a b.txt", "UPPER.TXT",
                 "VERSION", "Dockerfile", "Makefile"]          # (identifier-like names without a dot: INI option names are case-SENSITIVE file names)
FILE_KEYS = ["README.md", "setup.py", "src/pkg/__init__.py", "docs/conf.py", "Änderungen.txt", "a b.txt", "UPPER.TXT", "missing.txt", "VERSION", "Dockerfile", "Makefile",
             "src/pkg/*.py", "*.md", "docs/*.nothing", "**/conf.py", "src/*/mod.py", SELF, NESTED]
PATTERNS_V2 = ["{version}", "{pep440_version}", '__version__ = "{version}"', "version: {version}", "Copyright (c) YYYY", "release = '{version}'",
               "v=MAJOR.MINOR", "badge?message={version}&color=blue ; x # y", '"{version}"', "100% {version}", "{version} = {pep440_version}",
               "download/{version}/pkg-{pep440_version}.tar.gz", "x: y = {version}"]
PATTERNS_V1 = ["{version}", "{pep440_version}", '__version__ = "{version}"', "{pycalver}", "Copyright (c) {year}", "x: y = {pep440_version} ; z # w"]


def mangle_case(rng, s):
    r = rng.random()
    if r < 0.3:
        return s
    if r < 0.5:
        return s.upper()
    if r < 0.7:
        return s.capitalize()
    return "".join(ch.upper() if rng.random() < 0.5 else ch.lower() for ch in s)


def gen_quote(rng):
    return rng.choice(["bare", "dq", "dq", "sq"])


def abs_str(rng, s, q=None):
    q = q or gen_quote(rng)
    if q == "bare" and s.strip() != s:
        q = "dq"
    return {"s": s, "q": q}


def gen_message(rng):
    return "".join(rng.choice(MSG_FRAGS) for _ in range(rng.randint(0, 6)))


def gen_bool(rng, quoted=False, junk=False):
    b = rng.random() < 0.6
    sp = mangle_case(rng, rng.choice(TRUE_SP if b else FALSE_SP))
    if junk:
        sp = rng.choice(JUNK_SP)
        b = False
    return {"b": b, "spelling": sp, "quoted": quoted}


def gen_abs(rng, stream="main"):
    """an abstract configuration (the JSON of Lean's AbsCfg, with SELF for the config file's own name)"""
    bad = rng.random() < 0.04
    vp, cv = rng.choice(BAD_SCHEMES if bad else SCHEMES)
    is_new = "{" not in vp and "}" not in vp
    c = {"current_version": abs_str(rng, cv), "version_pattern": abs_str(rng, vp)}
    if rng.random() < 0.5:   # the usual case: both written the same way
        c["version_pattern"]["q"] = c["current_version"]["q"]
    for k in ("commit_message", "tag_message"):
        c[k] = abs_str(rng, gen_message(rng)) if rng.random() < 0.6 else None
    r = rng.random()
    c["tag_scope"] = None if r < 0.35 else abs_str(rng, rng.choice(["default", "global", "branch"])) if r < 0.95 else abs_str(rng, rng.choice(["nope", "Default", "", "BRANCH"]))
    for k in ("pre_commit_hook", "post_commit_hook"):
        r = rng.random()
        c[k] = None if r < 0.5 else abs_str(rng, "") if r < 0.6 else abs_str(rng, rng.choice(["hook.sh", "scripts/post hook.sh"])) if r < 0.93 else abs_str(rng, "missing.sh")
    # booleans: mostly consistent (tag/push imply commit), sometimes not
    commit = gen_bool(rng) if rng.random() < 0.75 else None
    if commit and rng.random() < 0.6:
        commit["b"], commit["spelling"] = True, mangle_case(rng, rng.choice(TRUE_SP))
    c["commit"] = commit
    for k in ("tag", "push"):
        r = rng.random()
        c[k] = None if r < 0.35 else gen_bool(rng)
        if c[k] and not (commit and commit["b"]) and rng.random() < 0.8:
            c[k]["b"], c[k]["spelling"] = False, mangle_case(rng, rng.choice(FALSE_SP))
    if stream == "quoted":
        ks = [k for k in ("commit", "tag", "push") if c[k]] or ["commit"]
        for k in rng.sample(ks, rng.randint(1, len(ks))):
            c[k] = c[k] or gen_bool(rng)
            c[k]["quoted"] = True
    if stream == "junk":
        for k in rng.sample(["commit", "tag", "push"], rng.randint(1, 3)):
            c[k] = gen_bool(rng, junk=True)
    files = []
    nfiles = rng.choice([0, 1, 1, 2, 2, 3, 3, 4, 5, 6])
    pool = PATTERNS_V2 if is_new else PATTERNS_V1
    for name in rng.sample(FILE_KEYS, nfiles):
        pats = [rng.choice(pool) for _ in range(rng.randint(1, 4))]
        if is_new and rng.random() < 0.02:
            pats[rng.randrange(len(pats))] = "[{version}]"
        if name == SELF and rng.random() < 0.7:
            pats = ['current_version = "{version}"'] if c["current_version"]["q"] == "dq" else ["current_version = {version}"] if c["current_version"]["q"] == "bare" else ["current_version = '{version}'"]
        files.append({"name": name, "patterns": pats, "inline": rng.random() < 0.3})
    c["files"] = files
    return c


def for_file(c, fname):
    c2 = dict(c)
    c2["files"] = [dict(f, name=fname if f["name"] == SELF else "sub/" + fname if f["name"] == NESTED else f["name"]) for f in c["files"]]
    return c2


# ---------------------------------------------------------------------------
# rendering

def ini_value(a):
    return {"bare": "", "dq": '"', "sq": "'"}[a["q"]] + a["s"] + {"bare": "", "dq": '"', "sq": "'"}[a["q"]]


def render_ini(rng, c, header, fp_header):
    delim = rng.choice([" = ", " = ", "=", " =", "= ", " : "])
    indent = rng.choice(["    ", "  ", "\t", "        "])
    out = []
    r = rng.random()
    if r < 0.3:
        out += ["[metadata]", "name = demo", "version = attr: demo.__version__", ""]
    elif r < 0.45:
        # another tool's section whose header merely STARTS like bumpver's and that has its own current_version line
        out += [rng.choice(["[bumpversion]", "[bumpversion]", "[bumpver_old]", "[pycalver2]", "[tool.bumpversion]"]),
                "current_version" + delim + rng.choice(["0.0.1", '"0.0.1"', "2020.1", "1.2.3"]), "commit = True", ""]
    out.append(header)
    for k in ("current_version", "version_pattern", "commit_message", "tag_message", "tag_scope", "pre_commit_hook", "post_commit_hook"):
        if c[k] is not None:
            if rng.random() < 0.08:
                out.append(rng.choice(["# a comment", "; another = comment", ""]))
            v = ini_value(c[k])
            out.append((k + delim + v) if v else (k + delim.rstrip() if delim.strip() else k + " ="))
    for k in ("commit", "tag", "push"):
        if c[k] is not None:
            sp = c[k]["spelling"]
            v = '"' + sp + '"' if c[k]["quoted"] else sp
            out.append((k + delim + v) if v else k + " =")
    if c["files"]:
        out.append("")
        out.append(fp_header)
        for f in c["files"]:
            pats = list(f["patterns"])
            if f["inline"] and pats:
                out.append(f["name"] + delim + pats[0])
                pats = pats[1:]
            else:
                out.append(f["name"] + " =")
            for p in pats:
                out.append(indent + p)
    r = rng.random()
    if r < 0.25:
        out += ["", "[tool:pytest]", "addopts = -q"]
    elif r < 0.35:
        out += ["", "[bumpversion:file:setup.py]", "current_version = 0.0.1"]
    return "\n".join(out) + rng.choice(["\n", "", "\n\n"])


class TomlUnrepresentable(Exception):
    pass


_enc_cache = {}


def toml_string(rng, s):
    """an encoding of s that the real toml parser reads back as s (toml 0.10.2 mis-reads some valid TOML strings, e.g. "\\"" -> '',
    [","] -> ['', ''] — defects of the third-party parser, outside bumpver)"""
    if s not in _enc_cache:
        cands = []
        if "'" not in s and all(ord(ch) >= 32 for ch in s):
            cands.append("'" + s + "'")
        cands += [json.dumps(s, ensure_ascii=False), json.dumps(s, ensure_ascii=True)]
        _enc_cache[s] = [e for e in dict.fromkeys(cands) if impl.toml_encoding_ok(e, s)]
    ok = _enc_cache[s]
    if not ok:
        raise TomlUnrepresentable(s)
    return rng.choice(ok)


def render_toml(rng, c, header, fp_header):
    delim = rng.choice([" = ", " = ", "=", " =  "])
    out = []
    r = rng.random()
    if r < 0.3:
        out += ["[build-system]", 'requires = ["setuptools>=40", "wheel"]', ""]
    elif r < 0.45:
        out += [rng.choice(["[tool.bumpversion]", "[bumpversion]", "[tool.bumpver_old]", "[pycalver2]"]), 'current_version = "0.0.1"', "commit = true", ""]
    out.append(header)
    for k in ("current_version", "version_pattern", "commit_message", "tag_message", "tag_scope", "pre_commit_hook", "post_commit_hook"):
        if c[k] is not None:
            if rng.random() < 0.08:
                out.append(rng.choice(["# a comment", ""]))
            out.append(k + delim + toml_string(rng, c[k]["s"]))
    for k in ("commit", "tag", "push"):
        if c[k] is not None:
            out.append(k + delim + (json.dumps(c[k]["spelling"]) if c[k]["quoted"] else ("true" if c[k]["b"] else "false")))
    if c["files"]:
        out.append("")
        out.append(fp_header)
        for f in c["files"]:
            key = json.dumps(f["name"], ensure_ascii=False)
            if rng.random() < 0.3:
                out.append(key + delim + "[" + ", ".join(toml_string(rng, p) for p in f["patterns"]) + "]")
            else:
                out.append(key + delim + "[")
                for p in f["patterns"]:
                    out.append("    " + toml_string(rng, p) + ",")
                out.append("]")
    if rng.random() < 0.3:
        out += ["", "[tool.black]", "line-length = 100"]
    return "\n".join(out) + rng.choice(["\n", "", "\n\n"])


# ---------------------------------------------------------------------------
# the intended settings (the property's own reading of an abstract configuration)

def intended(c, fname):
    """None = must be rejected; else the effective settings every format has to give (without the self entry)"""
    cv, vp = c["current_version"]["s"].strip(STRIP), c["version_pattern"]["s"].strip(STRIP)
    is_new = "{" not in vp and "}" not in vp
    if not impl.cfg_validate(cv, vp, is_new):
        return None

    def sval(k, dflt):
        return dflt if c[k] is None else c[k]["s"].strip(STRIP)
    scope = sval("tag_scope", "default")
    if scope not in ("default", "global", "branch"):
        return None
    b = {k: bool(c[k] and c[k]["b"]) for k in ("commit", "tag", "push")}
    if (b["tag"] or b["push"]) and not b["commit"]:
        return None
    pre, post = sval("pre_commit_hook", ""), sval("post_commit_hook", "")
    for h in (pre, post):
        if h and h == "missing.sh":
            return None
    if is_new and any(p.startswith("[") for f in c["files"] for p in f["patterns"]):
        return None
    return {"current_version": cv, "version_pattern": vp, "commit_message": sval("commit_message", "bump version to {new_version}"),
            "tag_message": sval("tag_message", "{new_version}"), "tag_scope": scope, "pre_commit_hook": pre, "post_commit_hook": post,
            "commit": b["commit"], "tag": b["tag"], "push": b["push"], "is_new_pattern": is_new}


# ---------------------------------------------------------------------------
# one abstract configuration through all formats

def make_project(p):
    for f in PROJECT_FILES:
        p.write_text(f, "version 1.2.3\n")
    for f in sorted({x[1] for x in FORMATS}):
        p.write_text("sub/" + f, "# a sub-project's file of the same name\nversion 1.2.3\n")
    for h in ("hook.sh", "scripts/post hook.sh"):
        p.write_text(h, "#!/bin/sh\nexit 0\n")
        os.chmod(p.path(h), 0o755)


def section_opts_ini(sections):
    d = dict((n, dict(map(tuple, items))) for n, items in sections)
    return d.get("pycalver", d.get("bumpver"))


def section_opts_toml(doc):
    for k in ("tool_bumpver", "bumpver", "pycalver"):
        if doc.get(k) is not None:
            return dict(map(tuple, doc[k]["opts"]))
    return {}


def build_env(dirpath, fname, text, opts, file_keys, patterns):
    """the answers `_parse_config` gets from the rest of bumpver and the file system, computed with the real functions"""
    cv_raw, vp_raw = (opts or {}).get("current_version"), (opts or {}).get("version_pattern")
    valid, bad = False, []
    if isinstance(cv_raw, str) and isinstance(vp_raw, str):
        cv, vp = cv_raw.strip(STRIP), vp_raw.strip(STRIP)
        is_new = "{" not in vp and "}" not in vp
        valid = impl.cfg_validate(cv, vp, is_new)
        pats = list(patterns)
        sp = impl.cur_version_pattern(text, cv_raw, vp_raw)
        if "ok" in sp:
            pats.append(sp["ok"])
        if valid:
            bad = sorted({p for p in pats if not impl.cfg_compile_ok(is_new, vp, p)})
    globs = []
    for g in list(file_keys) + [fname]:
        r = impl.glob_in(dirpath, g)
        globs.append([g, r if isinstance(r, list) else []])
    exists = [h for h in ("hook.sh", "scripts/post hook.sh", "missing.sh") if impl.path_exists_in(dirpath, h)]
    return {"valid": valid, "bad_patterns": bad, "exists": exists, "glob": globs}


def own_lines(text, header):
    """the current_version line(s) of the bumpver section itself (other tools' sections may have one too)"""
    lines = text.splitlines()
    k = lines.index(header) if header in lines else -1
    out = []
    for ln in lines[k + 1:]:
        if ln.startswith("["):
            break
        if ln.startswith("current_version"):
            out.append(ln)
    return out


def strip_unrelated(sections):
    return [s for s in sections if s[0].split(":")[0] in ("bumpver", "pycalver")]


class Batch:
    """collects correspondence ops whose implementation answers were computed while the temp project existed"""

    def __init__(self):
        self.ops, self.answers = [], []

    def add(self, op, answer):
        op = dict(op, i=len(self.ops))
        self.ops.append(op)
        self.answers.append(answer)

    def flush(self, chk, driver):
        if self.ops:
            chk.correspond(self.ops, lambda o: self.answers[o["i"]], driver)
        self.ops, self.answers = [], []


def run_config(chk, driver, rng, c, stream, batch, p, assumed, oracle=True):
    """c: abstract configuration; p: project directory with the non-config files; assumed: the abs_raw answers per file name"""
    results = []
    region = "F-C18-quoted-bool" if stream == "quoted" and "F-C18-quoted-bool" in KNOWN_OPEN() else None
    for key, fname, header, fp_header, kind in FORMATS:
        cf = for_file(c, fname)
        try:
            text = render_ini(rng, cf, header, fp_header) if kind == "cfg" else render_toml(rng, cf, header, fp_header)
        except TomlUnrepresentable:
            chk.count("toml_library_cannot_read_value")
            return None
        p.write_text(fname, text)
        # an EARLIER candidate config file that exists but holds no bumpver configuration must not be chosen over this one
        order = ["pycalver.toml", "bumpver.toml", ".bumpver.toml", "pyproject.toml", "setup.cfg"]
        earlier = order[:order.index(fname)]
        decoy = rng.choice(earlier) if (earlier and rng.random() < 0.3) else None
        if decoy:
            p.write_text(decoy, {"pyproject.toml": '[build-system]\nrequires = ["setuptools"]\n'}.get(decoy, "# nothing configured here\n"))
        try:
            # (a) the parser assumption
            real = impl.ini_raw(text) if kind == "cfg" else impl.toml_raw(text)
            want = assumed[fname][key]
            got = strip_unrelated(real["sections"]) if "sections" in real else real.get("doc")
            if got != want:
                chk.count("parser_assumption_mismatch:" + kind)
                chk.extra.setdefault("parser_assumption_mismatches", [])
                if len(chk.extra["parser_assumption_mismatches"]) < 5:
                    chk.extra["parser_assumption_mismatches"].append({"text": text, "parser": real, "assumed": want})
                # the INI parser is bumpver's own subclass: when IT no longer hands over what the model assumes, the property is
                # still judged end to end on this format (the `toml` library's quirks on odd strings are not bumpver's)
                if oracle and kind == "cfg":
                    r = impl.cfg_init_in(p.dir)
                    code, out, exc = sandbox.run_cli(["show", "--no-fetch"], p.dir)
                    own = own_lines(text, header)
                    results.append({"format": header + " in " + fname, "file": fname, "text": text, "init": r, "show": [code, out, exc], "own_line": own[0] if own else None,
                                    "explicit_self": any(f["name"] == fname for f in cf["files"])})
                continue
            chk.count("parser_assumption_ok:" + kind)
            # (b) correspondence on the real raw data
            file_keys = [f["name"] for f in cf["files"]]
            patterns = [q for f in cf["files"] for q in f["patterns"]]
            if kind == "cfg":
                opts = section_opts_ini(real["sections"])
                op = {"op": "cfg_post_ini", "sections": real["sections"]}
            else:
                opts = section_opts_toml(real["doc"])
                op = {"op": "cfg_post_toml", "doc": real["doc"]}
            op["env"] = build_env(p.dir, fname, text, opts, file_keys, patterns)
            op["self"] = {"rel_path": fname, "text": text}
            batch.add(op, impl.cfg_post(kind, text, p.dir, self_rel_path=fname))
            if rng.random() < 0.25:
                batch.add(dict(op, self=None), impl.cfg_post(kind, text, p.dir))
            if opts and isinstance(opts.get("current_version"), str) and isinstance(opts.get("version_pattern"), str):
                batch.add({"op": "cur_version_pattern", "text": text, "current_version": opts["current_version"], "version_pattern": opts["version_pattern"]},
                          impl.cur_version_pattern(text, opts["current_version"], opts["version_pattern"]))
            # (c) the implementation end to end
            if oracle:
                r = impl.cfg_init_in(p.dir)
                code, out, exc = sandbox.run_cli(["show", "--no-fetch"], p.dir)
                own = own_lines(text, header)
                results.append({"format": header + " in " + fname, "file": fname, "text": text, "init": r, "show": [code, out, exc], "own_line": own[0] if own else None,
                                "explicit_self": any(f["name"] == fname for f in cf["files"])})
        finally:
            os.unlink(p.path(fname))
            if decoy:
                os.unlink(p.path(decoy))
    if oracle and results:
        case = {"stream": stream, "cfg": c, "texts": {r["format"]: r["text"] for r in results}}
        verdict = judge(c, results)
        if isinstance(verdict, tuple):
            verdict, r2 = verdict
            region = region or (r2 if r2 in KNOWN_OPEN() else None)
        chk.oracle_case(case, verdict, region)
        if verdict and region:
            case["region"] = region
        return case
    return None


_known_cache = {}


def KNOWN_OPEN():
    if "k" not in _known_cache:
        _known_cache["k"] = {f["id"] for f in load_known_findings("C18") if f.get("status") == "open"}
    return _known_cache["k"]


def _norm_eff(eff, fname):
    """effective settings without the config file's own entry (its text differs by syntax); other entries as a set of pairs"""
    e = {k: v for k, v in eff.items() if k not in ("file_patterns", "regexps")}
    nest = lambda f: NESTED if f == "sub/" + fname else f
    e["pairs"] = sorted({(nest(f), q) for f, ps in eff["file_patterns"] for q in ps if f != fname})
    e["regexps"] = sorted({(nest(f), q) for f, ps in eff["regexps"] for q in ps if f != fname})
    return e


def judge(c, results):
    """the property on the implementation: every format gives the same (and the intended) settings"""
    first = results[0]
    for r in results:
        if "crash" in r["init"]:
            return "config.init crashes with %s for %s" % (r["init"]["crash"], r["format"])
        if r["init"]["file"] != r["file"]:
            return "config.init read %r instead of %r" % (r["init"]["file"], r["file"])
    accepted = [r["init"]["cfg"] is not None for r in results]
    if len(set(accepted)) > 1:
        return "accepted by %s but rejected by %s" % ([r["format"] for r, a in zip(results, accepted) if a], [r["format"] for r, a in zip(results, accepted) if not a])
    want = intended(c, None)
    if not accepted[0]:
        for r in results:
            if r["show"][0] == 0:
                return "`bumpver show` exits 0 on a rejected configuration (%s)" % r["format"]
        if want is not None:
            return "a configuration the property accepts is rejected by every format (intended %r)" % (want,)
        return None
    if want is None:
        return "a configuration that has to be rejected (tag/push without commit, invalid scope/version/hook) is accepted"
    base = _norm_eff(first["init"]["cfg"], first["file"])
    for r in results:
        e = _norm_eff(r["init"]["cfg"], r["file"])
        if e != base:
            diff = sorted(k for k in e if e[k] != base.get(k))
            return "%s and %s are read differently in %s: %r vs %r" % (first["format"], r["format"], diff, {k: base[k] for k in diff}, {k: e[k] for k in diff})
        for k, v in want.items():
            if e[k] != v:
                return "%s gives %s = %r, the configuration says %r" % (r["format"], k, e[k], v)
        if e["types"] != ["bool", "bool", "bool"]:
            return "%s gives commit/tag/push of types %r" % (r["format"], e["types"])
        if r["show"] != first["show"] or r["show"][0] != 0:
            return "`bumpver show` differs: %r (%s) vs %r (%s)" % (first["show"], first["format"], r["show"], r["format"])
    # the config file's own current_version line
    for r in results:
        own = [(ps, rx) for (f, ps), (f2, rx) in zip(r["init"]["cfg"]["file_patterns"], r["init"]["cfg"]["regexps"]) if f == r["file"]]
        if not own:
            return "%s: the config file %r is not among the files" % (r["format"], r["file"])
        if not r["explicit_self"]:
            ps, rxs = own[0]
            if len(ps) != 1:
                return "%s: the config file's own entry has %d patterns" % (r["format"], len(ps))
            try:
                found = r["own_line"] is not None and re.compile(rxs[0]).search(r["own_line"]) is not None
            except re.error:
                found = False
            if not found:
                mixed = r["file"] == "setup.cfg" and c["current_version"]["q"] != c["version_pattern"]["q"]
                return ("SELF-PATTERN %s: the pattern %r generated for the config file does not find its own line %r" % (r["format"], ps[0], r["own_line"]),
                        "F-C18-self-pattern-quotes" if mixed else None)
    return None


def gen_batch(chk, driver, rng, n, stream, batch, oracle=True):
    """n abstract configurations of one stream; returns the last failing case of a known region (for the KNOWN-FINDING line)"""
    cfgs = [gen_abs(rng, stream) for _ in range(n)]
    # the Lean side's claim about the raw data of each rendering (one op per distinct config file name)
    names = sorted({f[1] for f in FORMATS})
    ops = [{"op": "abs_raw", "cfg": for_file(c, fname)} for c in cfgs for fname in names]
    outs = driver.run(ops)
    seen = None
    with sandbox.Project("c18") as p:
        make_project(p)
        for i, c in enumerate(cfgs):
            assumed = {fname: outs[i * len(names) + j] for j, fname in enumerate(names)}
            if any("driver_error" in a for a in assumed.values()):
                chk.disagreements.append({"op": ops[i * len(names)], "impl": "n/a", "model": assumed})
                continue
            expr = all(a["expressible"] for a in assumed.values())
            chk.count("stream:%s expressible:%s" % (stream, expr))
            if stream == "main" and not expr:
                chk.count("generator_not_expressible")
                chk.extra.setdefault("not_expressible", []).append(c)
                continue
            nb = len(chk.violations), dict(chk.known_hits)
            case = run_config(chk, driver, rng, c, stream, batch, p, assumed, oracle=oracle)
            if case is not None and chk.known_hits != nb[1]:
                seen = case
            for k in ("commit", "tag", "push"):
                chk.count("%s:%s" % (k, "absent" if c[k] is None else c[k]["spelling"].lower()))
            chk.count("files:%d" % len(c["files"]))
            chk.count("scheme:" + c["version_pattern"]["s"])
            if len(batch.ops) > 2000:
                batch.flush(chk, driver)
    batch.flush(chk, driver)
    return seen


def witness_quoted_bool():
    """the design-time witness: commit = "true" is False for the INI reader and truthy for the TOML reader"""
    with sandbox.Project("c18w") as p:
        p.write_text("setup.cfg", '[bumpver]\ncurrent_version = "1.2.3"\nversion_pattern = "MAJOR.MINOR.PATCH"\ncommit = "true"\n')
        a = impl.cfg_init_in(p.dir)
        os.unlink(p.path("setup.cfg"))
        p.write_text("bumpver.toml", '[bumpver]\ncurrent_version = "1.2.3"\nversion_pattern = "MAJOR.MINOR.PATCH"\ncommit = "true"\n')
        b = impl.cfg_init_in(p.dir)
    return (a.get("cfg") or {}).get("commit"), (b.get("cfg") or {}).get("commit"), (b.get("cfg") or {}).get("types")


def run(chk, driver, tier):
    rng = chk.rng
    n = 5200 if tier == "thorough" else 260
    chk.extra["rule"] = ("abstract configurations: 6 version schemes (new, legacy, invalid), messages from a fragment alphabet with blanks/quotes/#/;/=/%, "
                         "all tag scopes + invalid ones, hooks present/absent/missing, tri-state booleans in every accepted spelling and case, "
                         "0..6 files x 1..4 patterns incl. globs (0, 1, 2 matches), missing optional keys; each rendered into 6 placements "
                         "(setup.cfg [bumpver], setup.cfg [pycalver], pyproject.toml, bumpver.toml, .bumpver.toml, pycalver.toml) with random spacing, quoting, "
                         "comments and unrelated sections; streams: main (expressible), quoted (quoted booleans: known finding), junk (INI-only spellings, correspondence only)")
    chk.extra["assumptions"] = ["configparser.RawConfigParser and toml.load return, for the rendered text, exactly the raw data Lean's iniRaw/tomlRaw define "
                                "(checked on every generated configuration: input_distribution parser_assumption_ok/mismatch)"]
    batch = Batch()
    seen_main = gen_batch(chk, driver, rng, n, "main", batch)
    seen = gen_batch(chk, driver, rng, max(n // 8, 20), "quoted", batch)
    gen_batch(chk, driver, rng, max(n // 8, 20), "junk", batch, oracle=False)
    chk.disagreements = [b for b in chk.disagreements if "unsupported" not in str(b.get("impl"))[:40]]
    mism = sum(v for k, v in chk.dist.items() if k.startswith("parser_assumption_mismatch"))
    if mism or chk.dist.get("generator_not_expressible"):
        log("C18: %d parser-assumption mismatch(es), %d generated configurations not expressible — a generator/assumption problem, not a verdict on bumpver" % (
            mism, chk.dist.get("generator_not_expressible", 0)))
        chk.disagreements.append({"op": "parser-assumption", "impl": chk.extra.get("parser_assumption_mismatches", [])[:2],
                                  "model": chk.extra.get("not_expressible", [])[:2]})
    known = {f["id"]: f for f in load_known_findings("C18") if f.get("status") == "open"}
    lines = []
    ini, tml, types = witness_quoted_bool()
    wit_holds = (ini is False and tml is True)
    chk.oracle_case({"kind": "quoted-bool-witness"}, "quoted boolean: INI reads commit=%r, TOML reads commit=%r" % (ini, tml) if wit_holds else None,
                    "F-C18-quoted-bool" if "F-C18-quoted-bool" in known else None)
    if "F-C18-quoted-bool" in known and (wit_holds or seen):
        lines.append("F-C18-quoted-bool: %s (witness: `commit = \"true\"` -> setup.cfg commit=%r, bumpver.toml commit=%r of type %s)" % (
            known["F-C18-quoted-bool"]["summary"], ini, tml, (types or ["?"])[0]))
    if "F-C18-self-pattern-quotes" in known and chk.known_hits.get("F-C18-self-pattern-quotes") and seen_main:
        c = seen_main["cfg"]
        lines.append("F-C18-self-pattern-quotes: %s (%d generated configurations; last witness: setup.cfg with current_version = %s, version_pattern = %s)" % (
            known["F-C18-self-pattern-quotes"]["summary"], chk.known_hits["F-C18-self-pattern-quotes"], ini_value(c["current_version"]), ini_value(c["version_pattern"])))
    return lines


def search(chk, driver, tier):
    rng = chk.rng
    batch = Batch()
    for _ in range(10):
        gen_batch(chk, driver, rng, 300, "main", batch)
        if chk.violations:
            return


def replay(payload):
    import random
    c = payload["case"].get("cfg")
    if c is None:
        return "replay: re-run ./check C18 (seed %s)" % payload.get("seed")
    from common import Check, Driver
    chk = Check("C18", "quick")
    driver = Driver()
    names = sorted({f[1] for f in FORMATS})
    outs = driver.run([{"op": "abs_raw", "cfg": for_file(c, fname)} for fname in names])
    with sandbox.Project("c18r") as p:
        make_project(p)
        run_config(chk, driver, random.Random(payload.get("seed", 1)), c, payload["case"].get("stream", "main"), Batch(), p, dict(zip(names, outs)))
    if chk.violations:
        return chk.violations[0][0]
    return None
