"""End-to-end correspondence of the COMPOSED model of `bumpver update` for LEGACY `{…}` patterns (Model/UpdateV1.lean, op update_full_v1)
with the real CLI — the legacy twin of props/updfull.py: a generated legacy project (props/v1e2e.py: {semver} with bump flags, {pycalver} with
--set-version, several patterns per file, a pattern without a match) x the commit/tag/push/hook lattice x tag listings x a status listing x
--dry / --ignore-vcs-tag x a failure position of the fake git.  Compared: exit code, the trace of externally visible events in order, the
content of every configured file afterwards."""
import json, datetime as dt
import sandbox, rwcommon
import props.c10 as c10
import props.v1e2e as v1e2e
import props.updfull as updfull

TODAY = updfull.TODAY


def _tags(rng, case):
    """tags around the configured version: older ones, the version itself, sometimes a NEWER one (the update then starts from the tag), junk"""
    out = []
    if case["vp"] == "{semver}":
        a, b, c = [int(x) for x in case["old"].split(".")]
        cands = ["%d.%d.%d" % (a, b, max(0, c - 1)), "%d.%d.%d" % (max(0, a - 1), b + 3, 7), case["old"], "0.0.1"]
        if rng.random() < 0.25:
            cands.append("%d.%d.%d" % (a, b, c + rng.randint(1, 3)))
    else:
        cands = [case["old"], "v201601.0001", "v201612.0007-beta"]
        if rng.random() < 0.25:
            cands.append("v%s.%04d" % (case["old"][1:7], int(case["old"][8:12]) + 1))
    for t in cands:
        if rng.random() < 0.6:
            out.append(t)
    if rng.random() < 0.3:
        out.append(rng.choice(["junk", "release-1", "v1", "1.2", "latest"]))
    rng.shuffle(out)
    return out


def gen_scenario(rng):
    case = v1e2e.gen_case(rng, want_fault=rng.random() < 0.2)
    case["fmt"] = "toml"
    for f in case["files"]:
        # (setup.cfg cannot hold patterns with leading blanks; everything here is toml)
        pass
    tri = lambda: rng.choice([None, None, True, False])
    hook = lambda: rng.choice(["absent", "absent", "ok", "fail"])
    tags = _tags(rng, case) if rng.random() < 0.6 else []
    sc = {
        "cfg_commit": rng.random() < 0.8, "cfg_tag": rng.random() < 0.5, "cfg_push": rng.random() < 0.4,
        "commit": tri(), "tag_commit": tri(), "push": tri(),
        "pre": hook(), "post": hook(), "pre_via_cli": rng.random() < 0.3, "post_via_cli": rng.random() < 0.3,
        "cfg_scope": rng.choice(["default", "default", "global", "branch"]), "cli_scope": rng.choice([None, None, None, "default", "global", "branch"]),
        "tag_msg_empty": rng.random() < 0.3,
        "dry": rng.random() < 0.2, "fetch": rng.random() < 0.4, "ignore_vcs_tag": rng.random() < 0.2,
        "vcs_present": rng.random() < 0.9, "remote": rng.choice(["branch", "url", "none"]),
        "fail_at": rng.choice([None, None, None] + list(range(0, 14))),
        "allow_dirty": rng.random() < 0.5,
        "tags": tags, "branch_tags": sorted(rng.sample(tags, rng.randint(0, len(tags)))) if tags else [],
    }
    if not sc["cfg_commit"]:
        sc["cfg_tag"] = sc["cfg_push"] = False
    names = ["bumpver.toml"] + [f["name"] for f in case["files"]]
    r = rng.random()
    if r < 0.6:
        sc["status"] = []
    elif r < 0.75:
        sc["status"] = [" M unrelated.txt"]
    elif r < 0.85:
        sc["status"] = ["?? scratch.txt"]
    else:
        sc["status"] = [rng.choice([" M ", "M  ", "?? "]) + rng.choice(names)]
    # the candidate: the bump flag ({semver}) or --set-version ({pycalver}); sometimes a rejected / respelled --set-version
    flag = case["args"][2] if case["vp"] == "{semver}" else None
    sv = None if flag else case["new"]
    r = rng.random()
    if r < 0.1:
        sv, flag = case["old"], None                               # not greater: rejected
    elif r < 0.2 and case["vp"] == "{semver}":
        a, b, c = case["new"].split(".")
        sv, flag = "%s.0%s.%s" % (a, b, c), None                   # accepted, but not how the pattern renders it (D20, legacy branch)
    elif r < 0.25:
        sv, flag = rng.choice(["junk", case["new"] + "x"]), None
    sc["set_version"], sc["flag"] = sv, flag
    return case, sc


def run_one(case, sc):
    cfgname, cfgtext, _cur = v1e2e.config_text(case)
    cfg_extra = ['commit = %s' % str(sc["cfg_commit"]).lower(), 'tag = %s' % str(sc["cfg_tag"]).lower(), 'push = %s' % str(sc["cfg_push"]).lower(),
                 'tag_message = "%s"' % ("" if sc["tag_msg_empty"] else "release {new_version}"), 'tag_scope = "%s"' % sc["cfg_scope"]]
    args = ["update"]
    for which in ("pre", "post"):
        if sc[which] != "absent":
            name = "%s_hook.sh" % which
            if sc[which + "_via_cli"]:
                args += ["--%s-commit-hook" % which, name]
            else:
                cfg_extra.append('%s_commit_hook = "%s"' % (which, name))
    cfgtext = cfgtext.replace("commit = false\ntag = false\npush = false\n", "\n".join(cfg_extra) + "\n", 1)
    if sc["set_version"] is not None:
        args += ["--set-version", sc["set_version"]]
    else:
        args.append(sc["flag"])
    for k in ("commit", "tag_commit", "push"):
        if sc[k] is not None:
            args.append("--%s%s" % ("" if sc[k] else "no-", k.replace("_", "-")))
    if sc["cli_scope"] is not None:
        args += ["--tag-scope", sc["cli_scope"]]
    if sc["dry"]:
        args.append("--dry")
    if sc["allow_dirty"]:
        args.append("--allow-dirty")
    args.append("--fetch" if sc["fetch"] else "--no-fetch")
    if sc["ignore_vcs_tag"]:
        args.append("--ignore-vcs-tag")
    names = [cfgname] + [f["name"] for f in case["files"]]
    p = sandbox.Project("updv1")
    try:
        p.write_bytes(cfgname, cfgtext.encode("utf-8"))
        for f in case["files"]:
            p.write_bytes(f["name"], f["old"].encode("utf-8"))
        p.write_text("unrelated.txt", "not configured, mentions %s\n" % case["old"])
        p.add_fake_vcs("git")
        if not sc["vcs_present"]:
            p.drop_vcs_marker("git")
        for which in ("pre", "post"):
            if sc[which] != "absent":
                p.add_hook("%s_hook.sh" % which, fail=(sc[which] == "fail"))
        p.fake_set("branches", "* main 1a2b3c4 [origin/main] msg\n" if sc["remote"] == "branch" else "* main 1a2b3c4 msg\n")
        if sc["remote"] == "url":
            p.fake_set("remote_url", "https://example.invalid/x.git\n")
        p.fake_set("status", "".join(l + "\n" for l in sc["status"]))
        p.fake_set("tags", "".join(t + "\n" for t in sc["tags"]))
        p.fake_set("tags_branch", "".join(t + "\n" for t in sc["branch_tags"]))
        if sc["fail_at"] is not None:
            p.fake_set("fail_at", str(sc["fail_at"] + 1))
        files_before = {n: p.read_bytes(n).decode("utf-8") for n in names}
        eff_scope = sc["cli_scope"] or sc["cfg_scope"]
        fl = sc["flag"]
        op = {
            "op": "update_full_v1", "kind": "git",
            "cfg_commit": sc["cfg_commit"], "cfg_tag": sc["cfg_tag"], "cfg_push": sc["cfg_push"],
            "cfg_pre": sc["pre"] != "absent" and not sc["pre_via_cli"], "cfg_post": sc["post"] != "absent" and not sc["post_via_cli"],
            "cli_pre": sc["pre"] != "absent" and sc["pre_via_cli"], "cli_post": sc["post"] != "absent" and sc["post_via_cli"],
            "cfg_scope": sc["cfg_scope"], "cli_scope": sc["cli_scope"], "tag_msg_empty": sc["tag_msg_empty"],
            "commit": sc["commit"], "tag_commit": sc["tag_commit"], "push": sc["push"],
            "dry": sc["dry"], "fetch": sc["fetch"], "ignore_vcs_tag": sc["ignore_vcs_tag"], "set_version": sc["set_version"],
            "vcs_present": sc["vcs_present"], "fail_at": sc["fail_at"],
            "branch_remote": sc["remote"] == "branch", "url_remote": sc["remote"] == "url",
            "pre_ok": sc["pre"] != "fail", "post_ok": sc["post"] != "fail",
            "pattern": case["vp"], "config_version": case["old"],
            "major": fl == "--major", "minor": fl == "--minor", "patch": fl == "--patch",
            "tag": None, "tag_num": False, "pin_increments": False, "pin_date": False,
            "date_given": False, "date": TODAY, "today": TODAY,
            "scope_tags": sc["branch_tags"] if eff_scope == "branch" else sc["tags"], "global_tags": sc["tags"],
            "status_lines": sc["status"], "allow_dirty": sc["allow_dirty"],
            "files": files_before,
            "file_patterns": [[cfgname, [[case["vp"], 'current_version = "{version}"']]]] + [[f["name"], [[case["vp"], q] for q in f["patterns"]]] for f in case["files"]],
        }
        p.fake_probe(cfgname, 'current_version = %s' % json.dumps(case["old"], ensure_ascii=False))
        before = p.snapshot()
        code, out, exc = sandbox.run_cli(args, p.dir, p.env(), today=dt.date(*TODAY))
        after = p.snapshot()
        log = p.fake_log()
        wlog = p.fake_wlog()
        files_after = {n: p.read_bytes(n).decode("utf-8") for n in names}
    finally:
        p.cleanup()
    evs = [c10.classify(a) for a in log]
    written = before != after
    trace, placed = [], False
    for ev, w in zip(evs, wlog):
        if w != "W" and not placed and written:
            trace.append("rewrite")
            placed = True
        trace.append(ev)
    if written and not placed:
        trace.append("rewrite")
    canon = ["add" if ev.startswith("add:") else ev for ev in trace]
    res = {"trace": canon, "exit": 0 if code == 0 else 1, "files": files_after}
    obs = {"args": args, "exc": exc, "raw_exit": code, "written": written, "changed": rwcommon.diff_files(before, after)}
    return op, res, obs


def oracle(case, sc, res, obs):
    tr = res["trace"]
    muts = [e for e in tr if e in updfull.MUT]
    hooks = [e for e in tr if e.startswith(("pre_hook", "post_hook"))]
    if sc["dry"] and (obs["written"] or muts or hooks):
        return "--dry changed %r / issued %r / ran %r (legacy patterns)" % (obs["changed"], muts, hooks)
    if obs["written"]:
        names = {"bumpver.toml"} | {f["name"] for f in case["files"]}
        if set(obs["changed"]) - names:
            return "files that are not configured were written: %r" % obs["changed"]
        if case["fault"]:
            return "files were written (%r) although a configured pattern has no match (%s)" % (obs["changed"], case["fault"])
    if res["exit"] != 0 and not obs["written"] and (muts or hooks) and "rewrite" not in tr and sc["set_version"] != case["old"]:
        return "the run failed before the rewrite (exit %s) but issued %r / ran %r" % (obs["raw_exit"], muts, hooks)
    return None


def run(chk, driver, n, label="update_full_v1"):
    rng = chk.rng
    ops, results = [], []
    for _ in range(n):
        case, sc = gen_scenario(rng)
        op, res, obs = run_one(case, sc)
        chk.count("updv1:exit:%s" % res["exit"])
        chk.count("updv1:rewrite:%s" % ("rewrite" in res["trace"]))
        chk.count("updv1:fault:%s" % case["fault"])
        chk.oracle_case({"kind": "update_full_v1", "vp": case["vp"], "old": case["old"], "scenario": sc, "args": obs["args"], "trace": res["trace"],
                         "exit": res["exit"], "files": {f["name"]: {"patterns": f["patterns"], "content": f["old"]} for f in case["files"]}},
                        oracle(case, sc, res, obs))
        ops.append(op)
        results.append(res)
    it = iter(results)
    chk.correspond(ops, lambda op: next(it), updfull._Observed(driver), label=label)
