"""C06 — a failed update leaves the project untouched."""
import os
import impl_adapter as impl
import projgen, rwcommon, sandbox

NOTE = ("Theorems C06_* (Props/C06.lean) about BV.rewriteFiles over an abstract file system: an error leaves every file as it was (all-or-nothing), "
        "with the negative witness for the pre-repair lazy loop. Tie: op rewrite_files on real temp files; oracle: fault enumeration — every (file, pattern) "
        "made non-matching and every file removed, in the generated file orders, real `bumpver update` with and without a (fake) VCS, dry and real.")

MUTATING = ("add", "commit", "tag", "push")


def faults(pr):
    out = []
    for path, pairs in pr["file_patterns"]:
        out.append(("remove", path, None))
        out.append(("blank", path, None))
        out.append(("empty", path, None))
        out.append(("whitespace", path, None))
        out.append(("non_utf8", path, None))
        for i in range(len(pairs)):
            out.append(("break_pattern", path, i))
    return out


def apply_fault(pr, p, fault):
    kind, path, idx = fault
    if kind == "remove":
        os.unlink(p.path(path))
    elif kind == "blank":
        p.write_text(path, "nothing that matches\n")
    elif kind == "empty":
        p.write_text(path, "")                       # e.g. an empty __init__.py
    elif kind == "whitespace":
        p.write_text(path, " \n\t\n\n")
    elif kind == "non_utf8":
        p.write_bytes(path, b"# \xa9 J\xfcrgen\n" + p.read_bytes(path))     # a Latin-1 header: the file cannot be read as UTF-8
    else:
        # remove the occurrence of one pattern: drop the lines that carry it
        lay = [f for f in pr["layout"] if f["name"] == path][0]
        raw = lay["raws"][idx]
        text = p.read_bytes(path).decode("utf-8")
        occ = projgen.ref_render_raw(raw, pr["vp"], pr["old_state"])
        text = text.replace(occ, "<gone>")
        p.write_bytes(path, text.encode("utf-8"))


def run_fault(pr, fault, vcs, dry_first, set_version):
    case = {"vp": pr["vp"], "old": pr["old"], "new": pr["new"], "fault": list(fault), "vcs": vcs, "files": pr["files"],
            "file_patterns": pr["file_patterns"], "set_version": set_version}
    extra = "commit = true\ntag = true\npush = false" if vcs else ""
    with rwcommon.setup(pr, extra, vcs) as p:
        apply_fault(pr, p, fault)
        before = p.snapshot()
        args = rwcommon.update_args(pr, set_version=set_version)
        dry_code = None
        if dry_first:
            dry_code, _o, _e = sandbox.run_cli(args + ["--dry"], p.dir, p.env())
            mid = p.snapshot()
            if mid != before:
                return case, "--dry changed files %r" % rwcommon.diff_files(before, mid)
            if vcs:
                p.fake_reset_log()
        code, out, exc = sandbox.run_cli(args, p.dir, p.env())
        after = p.snapshot()
        log = p.fake_log() if vcs else []
    case.update(exit=code, exc=exc, dry_exit=dry_code)
    changed = rwcommon.diff_files(before, after)
    if dry_first and dry_code == 0 and code != 0:
        pass
    muts = [a for a in log if len(a) > 1 and a[1] in MUTATING and a[1:3] != ["tag", "--list"]]
    # a fault that leaves every pattern matched elsewhere in the file is not a fault (break_pattern may remove
    # one of several occurrences only); a successful run is then legitimate
    if code == 0:
        if fault[0] == "non_utf8":
            return case, "update exited 0 although file %r is not valid UTF-8" % fault[1]
        if fault[0] in ("remove", "blank", "empty", "whitespace"):
            return case, "update exited 0 although file %r is %s" % (fault[1], "missing" if fault[0] == "remove" else "without any match (%s)" % fault[0])
        # break_pattern: does the pattern really have no match left in its file?  (independent reference regex)
        lay = [f for f in pr["layout"] if f["name"] == fault[1]][0]
        raw = lay["raws"][fault[2]]
        rx = projgen.ref_regex_for(raw, pr["vp"])
        text = before[fault[1]].decode("utf-8")
        import re as _re
        lines = text.split("\r\n") if lay["mixed"] else _re.split(r"\r\n|\r|\n", text)
        if not any(rx.search(l) for l in lines):
            return case, "update exited 0 (and changed %r) although pattern %r has no match left in %r" % (changed, raw, fault[1])
        return case, None
    if changed:
        case["changed"] = changed
        return case, "update failed (exit %s) but changed %r (fault %s on %r)" % (code, changed, fault[0], fault[1])
    if muts:
        return case, "update failed (exit %s) but ran %r" % (code, muts)
    if dry_first and dry_code == 0:
        pass  # dry may succeed where real fails only if they differ: covered by C13
    return case, None


def rejected_below_tag_case(cur, tag, sv, pattern="MAJOR.MINOR.PATCH"):
    """the config is BEHIND the newest tag (a checkout of an older branch / tags fetched without pulling) and --set-version names a version
    between the two: "the new version is rejected" — non-zero exit, every file keeps its bytes, nothing is committed or tagged.  The pairs
    used differ in their digit count (0.9.0 / 0.10.0), so a comparison of the TEXTS instead of the versions gets it wrong."""
    case = {"kind": "set-version-below-newest-tag", "current": cur, "tag": tag, "set_version": sv, "pattern": pattern}
    cfg = ('[bumpver]\ncurrent_version = "%s"\nversion_pattern = "%s"\ncommit = true\ntag = true\npush = false\n'
           '[bumpver.file_patterns]\n"bumpver.toml" = [\'current_version = "{version}"\']\n"ver.txt" = ["{version}"]\n' % (cur, pattern))
    with sandbox.Project("c06t") as p:
        p.write_text("bumpver.toml", cfg)
        p.write_text("ver.txt", "version %s here\n" % cur)
        p.add_fake_vcs("git")
        p.fake_set("branches", "* main 1a2b3c4 msg\n")
        p.fake_set("tags", cur + "\n" + tag + "\n")
        before = p.snapshot()
        code, out, exc = sandbox.run_cli(["update", "--no-fetch", "--set-version", sv], p.dir, p.env())
        after = p.snapshot()
        log = p.fake_log()
    muts = [a[1] for a in log if len(a) > 1 and a[1] in ("add", "commit", "push") or (len(a) > 1 and a[1] == "tag" and a[2:3] != ["--list"])]
    case.update(exit=code, mutating=muts)
    if code == 0 or after != before or muts:
        return case, "--set-version %s is below the newest tag %s (config %s) and must be rejected: exit %s, changed %r, VCS %r" % (
            sv, tag, cur, code, rwcommon.diff_files(before, after), muts)
    return case, None


def run(chk, driver, tier):
    rng = chk.rng
    for cur, tag, sv in [("0.9.0", "0.10.0", "0.9.5"), ("1.9.9", "1.10.0", "1.9.10"), ("2.99.0", "2.100.3", "2.100.0"), ("9.0.0", "10.0.0", "9.5.0")]:
        case, verdict = rejected_below_tag_case(cur, tag, sv)
        chk.count("rejected-below-tag")
        chk.oracle_case(case, verdict)
    # the COMPOSED model of `bumpver update` for LEGACY patterns (Model/UpdateV1.lean, theorems Props/UpdateV1.lean) against the real CLI
    import props.updfull_v1 as updfull_v1
    updfull_v1.run(chk, driver, 250 if tier == "thorough" else 25)
    # the LEGACY engine end to end: a pattern without a match (also: one that would match only with its blanks stripped) fails the whole update
    import props.v1e2e as v1e2e
    v1e2e.run(chk, 300 if tier == "thorough" else 30, driver, faults=0.7)
    # the COMPOSED model of the whole command (Model/Update.lean, theorems Props/Update.lean) against the real CLI: exit code, event trace and
    # every configured file afterwards, on generated projects x the flag/config lattice x tag and status listings x faults x failure positions
    import props.updfull as updfull
    updfull.run(chk, driver, 2500 if tier == "thorough" else 60)
    nproj = 300 if tier == "thorough" else 14
    chk.extra["rule"] = ("generated projects (1..5 files x 1..4 patterns) x EVERY single fault position: each configured file removed, each file blanked, each (file, pattern) "
                         "occurrence removed; with commit on (fake git) and off; --dry before the real run in half of them; flags or --set-version; "
                         "non-trivial = distinct (project, fault)")
    ops, impl_out = [], []
    for i in range(nproj):
        pr = rwcommon.gen_ok_project(rng, max_pats=3)
        fl = faults(pr)
        for k, fault in enumerate(fl):
            vcs = "git" if (i + k) % 2 == 0 else None
            case, verdict = run_fault(pr, fault, vcs, dry_first=(k % 2 == 0), set_version=(k % 3 == 0))
            chk.count("fault:" + fault[0])
            chk.oracle_case(case, verdict)
        # correspondence on the function level with a random fault
        files = dict(pr["files"])
        fault = rng.choice([f for f in fl if f[0] != "non_utf8"])
        if fault[0] == "remove":
            del files[fault[1]]
        elif fault[0] == "blank":
            files[fault[1]] = "nothing that matches\n"
        elif fault[0] == "empty":
            files[fault[1]] = ""
        elif fault[0] == "whitespace":
            files[fault[1]] = " \n\t\n\n"
        else:
            lay = [f for f in pr["layout"] if f["name"] == fault[1]][0]
            occ = projgen.ref_render_raw(lay["raws"][fault[2]], pr["vp"], pr["old_state"])
            files[fault[1]] = files[fault[1]].replace(occ, "<gone>")
        with sandbox.Project("c06") as p:
            for k2, v in files.items():
                p.write_bytes(k2, v.encode("utf-8"))
            res = impl.rewrite_files_in(p.dir, pr["file_patterns"], pr["new_vinfo"])
            after = {k2: p.read_bytes(k2).decode("utf-8") for k2 in files}
        ops.append({"op": "rewrite_files", "files": files, "file_patterns": pr["file_patterns"], "vinfo": pr["new_vinfo"], "lazy": False})
        impl_out.append({"unsupported": 1} if res == "unsupported" else {"files": after, "result": res})
    it = iter(impl_out)
    bad = chk.correspond(ops, lambda o: next(it), driver)
    chk.disagreements = [b for b in chk.disagreements if "unsupported" not in b["impl"]]
    return []


def search(chk, driver, tier):
    rng = chk.rng
    for i in range(60):
        pr = rwcommon.gen_ok_project(rng, max_pats=3)
        for k, fault in enumerate(faults(pr)):
            case, verdict = run_fault(pr, fault, "git" if k % 2 else None, dry_first=False, set_version=False)
            chk.oracle_case(case, verdict)
        if chk.violations:
            return


def replay(payload):
    case = payload.get("case") or {}
    if case.get("kind") == "set-version-below-newest-tag":
        return rejected_below_tag_case(case["current"], case["tag"], case["set_version"], case.get("pattern", "MAJOR.MINOR.PATCH"))[1]
    if case.get("kind") == "legacy-e2e":
        return "re-run ./check C06 with VERIF_SEED=%s (legacy end-to-end case; the files and patterns are in the replay file)" % payload.get("seed")
    return "re-run ./check C06 with VERIF_SEED=%s" % payload.get("seed")
