"""C07 — literal pattern text matches only itself."""
import itertools, string
import impl_adapter as impl
import gen, sandbox
from common import load_known_findings

NOTE = ("Theorems C07_* (Props/C07.lean): the escape loop over the GENERATED table is a pointwise map; the table covers every regex metacharacter except the documented "
        "semantic ones; a safe literal compiles to the literal-sequence regex, which finds exactly the lines containing the text. Tie: ops compile_str/compile_search vs "
        "_compile_pattern_re; oracle: compile_pattern(...).regexp.search on generated lines, exhaustive over short literals, alone and around parts, plus `bumpver grep`.")

ALPHABET = [c for c in string.printable if c.isprintable() and not c.isupper()]   # printable ASCII without upper case
META = list(".^$*+?{}[]\\|()")


def to_pattern(t):
    """the literal text t as pattern text: brackets in escaped form"""
    return t.replace("[", "\\[").replace("]", "\\]")


def region(t):
    """known findings: interior/misplaced anchors and backslashes are not literal"""
    if "\\" in t:
        return "F-C07-backslash"
    if "^" in t[1:] or "$" in t[:-1]:
        return "F-C07-anchor"
    if t[:1] == "^" or t[-1:] == "$":
        return "anchor"          # a leading ^ / trailing $ IS an anchor by the property's own wording
    return None


def judge(t, wrap):
    """the property on the implementation for literal text t (optionally wrapped around a real part)"""
    from bumpver import v2patterns
    import re
    pat = to_pattern(t)
    if wrap and not any(c.isdigit() for c in t):
        # the literal text around a real part; `wrap` may name the part (a tag part only where no letter of the text touches it)
        part, val = wrap if isinstance(wrap, (list, tuple)) else ("MAJOR", "12")
        if part in ("TAG", "PYTAG") and (t[:1].isalpha() or t[-1:].isalpha()):
            part, val = "MAJOR", "12"
        pat_full, text = pat + part + pat, t + val + t
        literal_pos = list(range(len(t))) + list(range(len(t) + len(val), 2 * len(t) + len(val)))
    else:
        pat_full, text = pat, t
        literal_pos = list(range(len(t)))
    try:
        rx = v2patterns.compile_pattern(pat_full).regexp
    except re.error as ex:
        return "pattern %r does not compile: %s" % (pat_full, ex)
    lines_yes = [text, "xx " + text + " yy", text + text]
    near = []
    for i in literal_pos:
        near.append(text[:i] + text[i + 1:])                 # one character missing
        near.append(text[:i] + ("#" if text[i] != "#" else "%") + text[i + 1:])
        if text[i].isalpha():
            near.append(text[:i] + text[i].swapcase() + text[i + 1:])      # same letter, other case: not the same text
    lines_no = [l for l in near + ["", "zz"] + ([text[:-1], text[1:]] if literal_pos == list(range(len(text))) else []) if text not in l]
    for l in lines_yes:
        m = rx.search(l)
        if m is None or m.group(0) != text:
            return "pattern %r does not find its own text in %r (found %r)" % (pat_full, l, m.group(0) if m else None)
    for l in lines_no:
        m = rx.search(l)
        if m is not None and len(m.group(0)) > 0:
            return "pattern %r matches %r in line %r which does not contain the text %r" % (pat_full, m.group(0), l, text)
    return None


def judge_group(t, part, val):
    """literal text t inside an OPTIONAL GROUP around a part: `MAJOR[<t>PART<t>]`.  With the group present the pattern finds exactly `12<t>val<t>`;
    when a character of the literal text is missing or changed, the group does not take part and only the `12` before it is found."""
    from bumpver import v2patterns
    import re
    if not t or any(c.isdigit() for c in t) or (part in ("TAG", "PYTAG") and (t[:1].isalpha() or t[-1:].isalpha())):
        return None
    pat = to_pattern(t)
    if part == "MAJOR":
        part = "MINOR"                  # a field occurs once per pattern
    pat_full = "MAJOR[" + pat + part + pat + "]"
    base, text = "12", "12" + t + val + t
    try:
        rx = v2patterns.compile_pattern(pat_full).regexp
    except re.error as ex:
        return "pattern %r does not compile: %s" % (pat_full, ex)
    for l in [text, "xx " + text + " yy"]:
        m = rx.search(l)
        if m is None or m.group(0) != text:
            return "pattern %r does not find its own text in %r (found %r)" % (pat_full, l, m.group(0) if m else None)
    m = rx.search("xx " + base + " yy")
    if m is None or m.group(0) != base:
        return "pattern %r does not find %r (optional group left out) in a line containing it (found %r)" % (pat_full, base, m.group(0) if m else None)
    for i in list(range(len(base), len(base) + len(t))) + list(range(len(base) + len(t) + len(val), len(text))):
        for l in (text[:i] + text[i + 1:], text[:i] + ("#" if text[i] != "#" else "%") + text[i + 1:]):
            if text in l:
                continue
            m = rx.search(l)
            # (when the first character of the text is missing, the digits of the part's value join those of MAJOR: still only digits)
            if m is not None and not m.group(0).isdigit():
                return "pattern %r matches %r in line %r: the literal text %r of the optional group is not there" % (pat_full, m.group(0), l, t)
    return None


def judge_repeat(t, part, val):
    """the same part TWICE in one search pattern, literal text t between and around the occurrences (`files/0M/pkg-0M.tar.gz`): the text is
    still matched literally (parts whose recogniser is an alternation must not leak a top-level `|`)"""
    from bumpver import v2patterns
    import re
    if not t or any(c.isdigit() for c in t) or (part in ("TAG", "PYTAG") and (t[:1].isalpha() or t[-1:].isalpha())):
        return None
    pat = to_pattern(t)
    pat_full = pat + part + pat + part + pat
    text = t + val + t + val + t
    try:
        rx = v2patterns.compile_pattern(pat_full).regexp
    except re.error as ex:
        return "pattern %r does not compile: %s" % (pat_full, ex)
    for l in [text, "xx " + text + " yy"]:
        m = rx.search(l)
        if m is None or m.group(0) != text:
            return "pattern %r does not find its own text in %r (found %r)" % (pat_full, l, m.group(0) if m else None)
    for l in [val, "zz " + val + " zz", t + val, val + t + val]:
        if text in l:
            continue
        m = rx.search(l)
        if m is not None and len(m.group(0)) > 0:
            return "pattern %r matches %r in line %r which does not contain the text %r" % (pat_full, m.group(0), l, text)
    return None


def run(chk, driver, tier):
    rng = chk.rng
    known = {f["id"]: f for f in load_known_findings("C07") if f.get("status") == "open"}
    maxlen = 3 if tier == "thorough" else 2
    chk.extra["rule"] = ("all literal strings over printable ASCII without upper-case letters up to length %d (exhaustive), random ones up to length 40 biased to regex metacharacters, "
                         "alone and wrapped around a real part; each judged on lines that contain the text and near-miss lines that do not; non-trivial = distinct literal") % maxlen
    lits = []
    for n in range(1, maxlen + 1):
        for tup in itertools.product(ALPHABET, repeat=n):
            lits.append("".join(tup))
    if tier != "thorough":
        lits += ["".join(rng.choice(META + ["a", "1", " "]) for _ in range(3)) for _ in range(3000)]
    FRAGS = ["{,2}", "{2}", "{2,}", "{1,3}", "{,}", "{0}", "(?:x)", "(?P<n>x)", "[a-z]", "[^a]", "a*", ".+", "x?", "a|b", "(a|b)", "\\[x\\]", "a{2}b", "s{,2} =",
             "1.2", "c++", "(c)", "{x}", "{}", "[]".replace("[", "\\[").replace("]", "\\]"), "**", "??", "+?", "*?", ".*", "a.b", "()", "{1", "2}"]
    FRAGS = [f.replace("\\[", "[").replace("\\]", "]") for f in FRAGS]
    for f in FRAGS:
        lits += [f, "retrie" + f, f + " = ", "x" + f + "y"]
    for _ in range(20000 if tier == "thorough" else 1500):
        n = rng.randint(1, 40)
        if rng.random() < 0.4:
            lits.append("".join(rng.choice(FRAGS + ["a", "b", " ", "s", "="]) for _ in range(rng.randint(1, 6))))
        else:
            lits.append("".join(rng.choice(META * 3 + ALPHABET) for _ in range(n)))
    chk.exhaustive = True
    seen = {}
    ops = []
    for t in lits:
        if not t.strip():
            continue
        reg = region(t)
        if reg == "anchor":
            continue
        wrap = rng.choice([["MAJOR", "12"], ["TAG", "beta"], ["PYTAG", "rc"], ["YYYY", "2024"], ["BUILD", "1001"], ["TAG", "final"]]) if rng.random() < 0.3 else False
        v = judge(t, wrap)
        if v and reg in known and reg not in seen:
            seen[reg] = t
        chk.oracle_case({"literal": t, "wrap": wrap}, v, reg if reg in known else None)
        if wrap and len(t) <= 12 and "^" not in t and "$" not in t:
            # the same literal text inside an optional group around the part (escaped brackets inside a group included)
            chk.count("in_optional_group")
            chk.oracle_case({"literal": t, "group": wrap}, judge_group(t, wrap[0], wrap[1]), reg if reg in known else None)
            rp = rng.choice([["0M", "07"], ["MM", "7"], ["0D", "09"], ["TAG", "beta"], ["PYTAG", "rc"], ["0W", "05"], ["YYYY", "2024"], ["MAJOR", "12"]])
            chk.count("repeated_part")
            chk.oracle_case({"literal": t, "repeat": rp}, judge_repeat(t, rp[0], rp[1]), reg if reg in known else None)
        if rng.random() < (0.02 if len(lits) > 50000 else 0.2):
            ops.append({"op": "compile_str", "pattern": to_pattern(t)})
            ops.append({"op": "compile_search", "pattern": to_pattern(t), "line": "xx " + t + " yy"})
            ops.append({"op": "compile_search", "pattern": to_pattern(t), "line": t[:-1] + "#"})

    def f(o):
        if o["op"] == "compile_str":
            r = impl.compile_str(o["pattern"])
        else:
            r = impl.compile_search(o["pattern"], o["line"])
        return {"unsupported": 1} if r.get("err") == "re.error" else r
    chk.correspond(ops, f, driver)
    chk.disagreements = [b for b in chk.disagreements if "unsupported" not in b["impl"]]
    # `bumpver grep` end to end on a few literals
    for t in ["a.b", "x+y", "(c)", "a|b", "100%", "{x}", "q?", "1*2"] + [l for l in lits if len(l) > 5][:20]:
        if region(t):
            continue
        with sandbox.Project("c07") as p:
            p.write_text("f.txt", "first line\nxx " + t + " yy\nlast\n")
            p.write_text("g.txt", "first line\nxx " + t[:-1] + "# yy\nlast\n")
            c1, o1, _ = sandbox.run_cli(["grep", to_pattern(t), "f.txt"], p.dir)
            c2, o2, _ = sandbox.run_cli(["grep", to_pattern(t), "g.txt"], p.dir)
        v = None
        if c1 != 0 or t not in o1:
            v = "`bumpver grep %r` does not find the text in a file that contains it" % to_pattern(t)
        elif c2 == 0:
            v = "`bumpver grep %r` reports a match in a file that does not contain the text" % to_pattern(t)
        chk.oracle_case({"grep": t}, v)
    lines = []
    for reg, t in seen.items():
        lines.append("%s: %s (witness: pattern %r: %s)" % (reg, known[reg]["summary"], to_pattern(t), judge(t, False) or judge(t, True)))
    return lines


def search(chk, driver, tier):
    return


def replay(payload):
    c = payload["case"]
    if "repeat" in c:
        return judge_repeat(c["literal"], c["repeat"][0], c["repeat"][1])
    if "group" in c:
        return judge_group(c["literal"], c["group"][0], c["group"][1])
    if "literal" in c:
        return judge(c["literal"], c.get("wrap", False))
    return None
