"""C20 — legacy {...} patterns render, read back and increase consistently."""
import datetime as dt, json, re
import impl_adapter as impl
import gen, sandbox
from common import load_known_findings

NOTE = ("Theorems C20_* (Props/C20.lean) about the legacy-engine model (Model/V1.lean: v1CompileStr/v1ParseVersionInfo/v1FormatVersion/v1Bump/v1Incr/hasV1Part/v1Gate) "
        "over the GENERATED v1 tables (Gen/V1Tables.lean, taken after the run-time composite initialisation): per-part render/recognise/read-back over the whole finite domain, "
        "maximal munch for the unbounded numeric parts, dispatch agreement for documented parts (and the {foo} witness), strict growth of the {pycalver} key (number, PEP 440 release tuple, plain string), "
        "gate => strictly greater. Tie: ops v1_compile_str/v1_compile_search/v1_parse/v1_format/v1_incr/v1_gate/dispatch/v1_cli_test vs v1patterns/v1version/cli (CliRunner). "
        "Oracle on the implementation: render -> read back -> re-render, bump chains through the gate (PEP 440 order of `packaging` + plain strings for {pycalver}), "
        "engine choice of incr_dispatch / _is_valid_version / _parse_config observed by spying, `bumpver update` on generated legacy projects.")

TAGS = ["alpha", "beta", "dev", "rc", "post", "final"]
NOFLAGS = {"major": False, "minor": False, "patch": False, "tag": None, "tag_num": False, "pin_increments": False, "pin_date": False}

# part -> V1VersionInfo field it shows
PART_FIELD = {
    "year": "year", "month": "month", "dom": "dom", "doy": "doy", "quarter": "quarter", "build_no": "bid", "bid": "bid", "build": "bid",
    "release": "tag", "tag": "tag", "release_tag": "tag", "MAJOR": "major", "MINOR": "minor", "PATCH": "patch",
    "month_short": "month", "dom_short": "dom", "doy_short": "doy", "yy": "year", "yyyy": "year", "iso_week": "iso_week", "us_week": "us_week",
    "BID": "bid", "BB": "bid", "BBB": "bid", "BBBB": "bid", "BBBBB": "bid", "BBBBBB": "bid", "BBBBBBB": "bid",
    "MM": "minor", "MMM": "minor", "MMMM": "minor", "MMMMM": "minor", "PP": "patch", "PPP": "patch", "PPPP": "patch", "PPPPP": "patch",
}
COMPOSITE_FIELDS = {"pycalver": ["year", "month", "bid", "tag"], "semver": ["major", "minor", "patch"], "calver": ["year", "month"],
                    "version": ["year", "month", "bid", "tag"]}
FIXED_WIDTH = {"year", "month", "dom", "doy", "quarter", "calver"}
CAL_IDX = {"year": 0, "quarter": 1, "month": 2, "dom": 3, "doy": 4, "iso_week": 5, "us_week": 6}

DOC_FIXED = ["{pycalver}", "{semver}", "v{year}{month}{build}{release}", "{year}{month}{build}{release}", "v{year}{build}{release}",
             "{year}{build}{release}", "{MAJOR}.{MINOR}.{PATCH}", "{calver}{build}{release}", "v{MAJOR}.{MINOR}.{PATCH}", "{year}.{month}.{dom}",
             "{year}.{build_no}{release}", "{year}{doy}.{build_no}", "{semver}{release}", "{year}.{quarter}.{PATCH}"]
SEPS = [".", ".", ".", "-", "_", "x", "/", " ", "+", "#", ":", "~", "rel"]


def ymd(d):
    return [d.year, d.month, d.day]


def gen_day(rng):
    """every date 2000..2099 (uniform), with extra weight on year/month boundaries"""
    r = rng.random()
    if r < 0.2:
        y = rng.randint(2000, 2098)
        return dt.date(y, 12, 31) + dt.timedelta(days=rng.randint(-3, 3))
    if r < 0.3:
        y, m = rng.randint(2000, 2099), rng.randint(1, 12)
        return dt.date(y, m, 1) + dt.timedelta(days=rng.randint(-2, 10))
    return dt.date.fromordinal(rng.randint(dt.date(2000, 1, 1).toordinal(), dt.date(2099, 12, 31).toordinal()))


def gen_build_id(rng):
    r = rng.random()
    if r < 0.45:
        return str(rng.randint(1000, 9998))
    if r < 0.7:
        return rng.choice(["0001", "0002", "0033", "0099", "0100", "0998", "0999", "1000", "1001", "1999", "8999", "9998", "10999", "22000", "19999", "99998", "0010"])
    if r < 0.85:
        return "%04d" % rng.randint(1, 999)
    return str(rng.randint(10000, 999998))


def parts_of(pat):
    return re.findall(r"\{([A-Za-z_0-9]+)\}", pat)


def shown_fields(pat):
    out = []
    for p in parts_of(pat):
        out += COMPOSITE_FIELDS.get(p, [PART_FIELD[p]] if p in PART_FIELD else [])
    return out


def doc_pattern(rng, readable=True):
    """a version pattern from the documented parts/composites; `readable`: variable-width numeric parts are
    separated by literal text, so a rendered version has exactly one reading"""
    if rng.random() < 0.3:
        return rng.choice(DOC_FIXED)
    cal = rng.choice([[], ["year"], ["year", "month"], ["year", "month", "dom"], ["year", "doy"], ["year", "quarter"], ["year", "quarter", "month"],
                      ["calver"], ["year", "month", "dom"], ["year", "month"]])
    num = rng.choice([[], ["build_no"], ["MAJOR", "MINOR", "PATCH"], ["MAJOR", "MINOR"], ["PATCH"], ["build_no", "PATCH"], ["semver"], ["MAJOR", "build_no"],
                      ["build_no"], ["MINOR", "PATCH"]])
    parts = cal + num
    if not parts:
        parts = ["year", "build_no"]
    out = rng.choice(["", "", "v", "r", "rel-"]) if parts[0] != "calver" else ""
    prev = None
    for p in parts:
        if prev is not None:
            if readable and not (prev in FIXED_WIDTH and p in FIXED_WIDTH and rng.random() < 0.4):
                out += rng.choice(SEPS)
            elif not readable:
                out += rng.choice(SEPS + ["", ""])
        out += "{" + p + "}"
        prev = p
    if "build_no" not in parts and rng.random() < 0.25:
        out += "{build}"
    r = rng.random()
    if r < 0.35:
        out += "{release}"
    elif r < 0.45:
        out += "-{tag}"
    return out


ROUGH_PARTS = ["dom_short", "doy_short", "month_short", "BID", "BB", "BBB", "BBBB", "BBBBB", "BBBBBB", "BBBBBBB", "MM", "MMM", "MMMM", "MMMMM",
               "PP", "PPP", "PPPP", "PPPPP", "iso_week", "us_week", "yy", "yyyy", "bid", "tag", "pep440_tag", "release_tag", "foo", "version",
               "pep440_version", "pep440_pycalver", "MMMMMM", "PPPPPPP", "Year", "", "month:02"]
ROUGH_FIXED = ["{year}.{month_short}.{dom_short}", "{year}.{doy_short}", "{year}.{BBB}", "v{yy}.{BID}{release}", "{year}w{iso_week}.{BID}{release}",
               "{year}u{us_week}", "{foo}", "v{foo}.{bar}", "{MAJOR}.{MM}.{PPP}", "{year}{month}{dom}.{iso_week}", "{year}.{BBBBB}-{tag}", "{yyyy}.{month_short}",
               "{pep440_pycalver}", "{pep440_version}", "{year}.{dom_short}.{build_no}", "{year}{year}", "{pycalver}{year}", "{build_no}.{bid}", "{year}.{yy}",
               "{MAJOR}[{MINOR}]", "^{semver}$", "{MAJOR}|{MINOR}", "{{MAJOR}}", "{MAJOR}}", "{MAJOR", "{MAJOR}\\.{MINOR}", "({semver})", "{semver}*", "{version}",
               "a{version}b", "{year}.{month}.{dom_short}", "{year}-{doy_short}-{PATCH}"]


def rough_pattern(rng):
    if rng.random() < 0.45:
        return rng.choice(ROUGH_FIXED)
    n = rng.randint(1, 4)
    out = rng.choice(["", "v", ""])
    for i in range(n):
        if i:
            out += rng.choice(SEPS + ["", "(", "[", "^", "$", "|", "\\", "*", "?", "}", "{", "{{"])
        p = rng.choice(ROUGH_PARTS + ["year", "month", "dom", "doy", "quarter", "build_no", "MAJOR", "MINOR", "PATCH"])
        out += "{" + p + "}"
    if rng.random() < 0.3:
        out += "{release}"
    return out


def gen_record(rng, d=None):
    d = d or gen_day(rng)
    vi = impl.v1_make_info(ymd(d), major=gen.gen_nat(rng), minor=gen.gen_nat(rng), patch=gen.gen_nat(rng), bid=gen_build_id(rng), tag=rng.choice(TAGS))
    return d, impl.v1_info_json(vi)


def gen_flags(rng, pat):
    return {"major": rng.random() < 0.15, "minor": rng.random() < 0.15, "patch": rng.random() < 0.2,
            "tag": rng.choice([None, None, None, None] + TAGS), "tag_num": rng.random() < 0.03, "pin_increments": False,
            "pin_date": rng.random() < 0.12}


def next_day(rng, d):
    k = rng.choice([0, 0, 0, 1, 1, 7, 31, 40, 92, 366, -1, -40, rng.randint(0, 500)])
    r = d + dt.timedelta(days=k)
    if r.year < 2000 or r.year > 2099:
        return d
    return r


def mutate(rng, s):
    if not s:
        return "x"
    i = rng.randrange(len(s))
    r = rng.random()
    if r < 0.5:
        return s[:i] + rng.choice("09a.-x 1") + s[i + 1:]
    if r < 0.75:
        return s + rng.choice(["x", "0", ".1", " ", "-beta", "\n"])
    return s[:i] + s[i + 1:]


def surround(rng, text):
    pre = rng.choice(["", "", "version = \"", "__version__ = '", "img/v", "x", "1", "v", " ", "https://e.org/v/"])
    post = rng.choice(["", "", "\"", "'", " ", "9", ".", "-final", "\n", ")"])
    return pre + text + post


def corr_ops(rng, n, rough):
    """op lines for the correspondence check"""
    ops = []
    today = [2026, 9, 29]
    for _ in range(n):
        pat = rough_pattern(rng) if rough else doc_pattern(rng, readable=rng.random() < 0.8)
        d, vj = gen_record(rng)
        if rough and rng.random() < 0.15:
            vj["cal"][rng.randrange(7)] = None
        if rough and rng.random() < 0.05:
            vj["tag"] = rng.choice(["b0", "", "preview", "a", "RC"])
        ops.append({"op": "dispatch", "pattern": pat})
        ops.append({"op": "v1_compile_str", "pattern": pat})
        ops.append({"op": "v1_format", "vinfo": vj, "pattern": pat})
        f = impl.v1_format(vj, pat)
        v = f.get("ok") if f.get("ok") is not None else rng.choice(["v201712.0033-beta", "1.2.3", "2020.10", ""])
        ops.append({"op": "v1_parse", "version": v, "pattern": pat})
        ops.append({"op": "v1_parse", "version": mutate(rng, v), "pattern": pat})
        ops.append({"op": "v1_compile_search", "pattern": pat, "line": surround(rng, v)})
        if rng.random() < 0.3:
            vp = rng.choice(["{pycalver}", "{semver}", "v{year}{month}{build}{release}", "{year}{build}{release}", "v{year}{build}{release}", "{year}.{month}", pat])
            raw = rng.choice(['__version__ = "{version}"', "{pep440_version}", "version='{pep440_version}'", "img/{version}.svg", "{version} {pep440_version}", "Copyright {year}"])
            line_v = impl.v1_format(vj, raw.replace("{version}", vp)) if "{version}" in raw else impl.v1_format(vj, raw)
            ops.append({"op": "v1_compile_search", "version_pattern": vp, "pattern": raw, "line": surround(rng, line_v.get("ok") or v)})
        o = {"op": "v1_incr", "version": v, "pattern": pat, "date": ymd(next_day(rng, d)), "today": today}
        fl = gen_flags(rng, pat)
        o.update({k: fl[k] for k in ("major", "minor", "patch", "tag", "tag_num", "pin_date")})
        ops.append(o)
        r = impl.v1_incr(v, pat, fl, o["date"], today)
        cand = r.get("ok") or rng.choice([v, v + ".post1", "junk", ""])
        ops.append({"op": "v1_gate", "pattern": pat, "old": v, "new": rng.choice([cand, cand, cand, v, mutate(rng, cand)])})
    return ops


def cli_ops(rng, n, rough):
    ops = []
    today = [2026, 9, 29]
    if not rough:
        for pat, old, sv in [("{semver}", "1.0.0", "1.02.3"), ("{MAJOR}.{MINOR}.{PATCH}", "1.2.3", "01.3.0"), ("v{MAJOR}.{MINOR}", "v1.2", "v1.03"),
                             ("{pycalver}", "v201712.0033-beta", "v201801.0034"), ("MAJOR.MINOR.PATCH", "1.0.0", "1.02.3")]:
            ops.append({"op": "v1_cli_test", "version": old, "pattern": pat, "date_given": False, "date": today, "today": today, "set_version": sv,
                        "major": False, "minor": False, "patch": False, "tag": None, "tag_num": False, "pin_date": False, "pin_increments": False})
    for _ in range(n):
        pat = rough_pattern(rng) if rough else doc_pattern(rng)
        d, vj = gen_record(rng)
        f = impl.v1_format(vj, pat)
        v = f.get("ok") if f.get("ok") else rng.choice(["v201712.0033-beta", "1.2.3"])
        if v.startswith("-") or not v.strip():
            continue
        fl = gen_flags(rng, pat)
        fl["tag"] = rng.choice([None, None, None] + TAGS + ["bogus"])
        date_given = rng.random() < 0.8
        d2 = next_day(rng, d)
        sv = None
        if rng.random() < 0.2:
            sv = rng.choice([v, v + ".post1", v + "x", "junk", mutate(rng, v)])
            if sv.startswith("-"):
                sv = None
        elif rng.random() < 0.15:
            # a GREATER version written with a redundant leading zero in one number (`1.02.3`): what is announced must be the pattern's own
            # rendering of it (D20, legacy branch of _normalize_set_version)
            g = impl.v1_incr(v, pat, dict(fl, tag=None, patch=True), ymd(d2), today).get("ok") or impl.v1_incr(v, pat, dict(fl, tag=None, major=True), ymd(d2), today).get("ok")
            if g:
                import re as _re
                spots = [m.start() for m in _re.finditer(r"(?<![0-9])[1-9]", g)]
                if spots:
                    k = rng.choice(spots)
                    sv = g[:k] + "0" + g[k:]
        o = {"op": "v1_cli_test", "version": v, "pattern": pat, "date_given": date_given, "date": ymd(d2) if date_given else today, "today": today, "set_version": sv}
        o.update(fl)
        ops.append(o)
    return ops


def run_impl(o):
    k = o["op"]
    if k == "dispatch":
        r = impl.dispatch(o["pattern"])
        return {"has_v1_part": r["has_v1_part"], "is_new_pattern": r["is_new_pattern"]}
    if k == "v1_compile_str":
        return impl.v1_compile_str(o["pattern"], o.get("version_pattern"))
    if k == "v1_compile_search":
        return impl.v1_compile_search(o["pattern"], o["line"], o.get("version_pattern"))
    if k == "v1_parse":
        return impl.v1_parse(o["version"], o["pattern"])
    if k == "v1_format":
        return impl.v1_format(o["vinfo"], o["pattern"])
    if k == "v1_incr":
        return impl.v1_incr(o["version"], o["pattern"], o, o["date"], o["today"])
    if k == "v1_gate":
        return impl.v1_gate(o["pattern"], o["old"], o["new"])
    if k == "v1_cli_test":
        return impl.cli_test(o["version"], o["pattern"], o, o["date_given"], o["date"], o["today"], o["set_version"])
    raise KeyError(k)


def correspond(chk, ops, driver, label):
    """`unsupported-by-model` answers of the adapter are not compared; everything else is"""
    def f(o):
        r = run_impl(o)
        if r.get("err") == "unsupported-by-model":
            return {"unsupported": 1}
        return r
    bad = chk.correspond(ops, f, driver)
    keep = [b for b in bad if "unsupported" not in b["impl"]]
    if len(keep) != len(bad):
        # the adapter's cli_test answers `unsupported` when the CLI died of re.error (a group name defined twice); not compared
        chk.disagreements = [b for b in chk.disagreements if "unsupported" not in b["impl"]]
        chk.unsupported += len(bad) - len(keep)
        for b in bad:
            if "unsupported" in b["impl"]:
                k = "disagree:" + b["op"].get("op", "?")
                chk.dist[k] = chk.dist.get(k, 0) - 1
                if not chk.dist[k]:
                    del chk.dist[k]
                chk.count("impl_unsupported:" + b["op"].get("op", "?"))
    chk.count("ops:" + label, len(ops))
    return keep


# ---------------------------------------------------------------------------
# oracle on the implementation


def pep_lt(a, b):
    """strict PEP 440 order: `packaging` when both parse, else the vendored order the tool uses"""
    try:
        from packaging.version import Version
        return Version(a) < Version(b)
    except Exception:
        from bumpver import version
        return version.parse_version(a) < version.parse_version(b)


def rough_region(pat, vj, err=None):
    """id of the known finding (if any) whose region covers this pattern/record"""
    ps = parts_of(pat)
    cal = dict(zip(impl.V1_CAL_FIELDS, vj["cal"]))
    bid = vj["bid"]
    has_v1 = impl.dispatch(pat)["has_v1_part"]
    if ("{" in pat or "}" in pat) and not has_v1:
        return "F-C20-dispatch"
    if "dom_short" in ps and (cal["dom"] or 0) >= 10:
        return "F-C20-dom-short"
    if "doy_short" in ps and (cal["doy"] or 0) < 100:
        return "F-C20-doy-short"
    for p in ps:
        if len(p) >= 2 and set(p) == {"B"} and bid.zfill(len(p))[0] == "0":
            return "F-C20-padded-bid"
    if ("iso_week" in ps or "us_week" in ps) and not ("year" in shown_fields(pat) and (("month" in shown_fields(pat) and "dom" in shown_fields(pat)) or "doy" in shown_fields(pat))):
        return "F-C20-week-parts"
    return None


def roundtrip_case(rng, rough=False):
    """(i) render -> accepted by its own pattern -> same parts -> re-render identical"""
    pat = rng.choice(ROUGH_ORACLE) if rough else doc_pattern(rng, readable=True)
    d, vj = gen_record(rng)
    case = {"kind": "roundtrip", "pattern": pat, "vinfo": vj, "rough": rough}
    region = rough_region(pat, vj) if rough else None
    f = impl.v1_format(vj, pat)
    if "ok" not in f:
        return case, "format_version(%r, %r) failed: %r" % (vj, pat, f), region
    s = f["ok"]
    case["rendered"] = s
    p = impl.v1_parse(s, pat)
    if "ok" not in p:
        return case, "the rendered version %r is not accepted by its own pattern %r: %r" % (s, pat, p), region
    got = p["ok"]
    for fld in shown_fields(pat):
        want = vj["cal"][CAL_IDX[fld]] if fld in CAL_IDX else vj[fld]
        have = got["cal"][CAL_IDX[fld]] if fld in CAL_IDX else got[fld]
        if fld == "bid" and any(x in parts_of(pat) for x in ("BID", "BB", "BBB", "BBBB", "BBBBB", "BBBBBB", "BBBBBBB")):
            want, have = int(want), int(have)
        if fld == "year" and "yy" in parts_of(pat):
            want = want % 100 + 2000
        if want != have:
            return case, "%r rendered by %r reads back %s=%r, rendered from %r" % (s, pat, fld, have, want), region
    f2 = impl.v1_format(got, pat)
    if f2 != f:
        return case, "%r read back through %r re-renders as %r" % (s, pat, f2), region
    return case, None, region


ROUGH_ORACLE = ["{year}.{month_short}.{dom_short}", "{year}.{doy_short}", "{year}.{BBB}", "{year}.{BBBBB}{release}", "{year}w{iso_week}.{BID}{release}",
                "{year}u{us_week}.{build_no}", "{year}.{dom_short}.{build_no}", "v{yy}.{BID}{release}", "{MAJOR}.{MM}.{PPP}", "{yyyy}.{month_short}",
                "{year}.{month}.{dom}w{iso_week}", "{year}.{BB}", "{year}-{doy_short}-{PATCH}", "{year}.{month}.{dom_short}"]


def search_case(rng):
    """the derived search patterns accept what they render (as a search in a line)"""
    vp = rng.choice(["{pycalver}", "v{year}{month}{build}{release}", "{year}{month}{build}{release}", "v{year}{build}{release}", "{year}{build}{release}", "{semver}"])
    raw = rng.choice(["{pep440_version}", "{pep440_pycalver}", 'version = "{pep440_version}"', "{version}", "img/{version}.svg"])
    if vp == "{semver}" and "pycalver" in raw:
        raw = "{pep440_version}"
    d, vj = gen_record(rng)
    if int(vj["bid"]) == 0:
        vj["bid"] = "0001"
    norm = raw.replace("{version}", vp)
    norm = norm.replace("{pep440_version}", PEP_MAP[vp])
    f = impl.v1_format(vj, norm)
    case = {"kind": "search", "version_pattern": vp, "raw": raw, "vinfo": vj, "rendered": f}
    if "ok" not in f:
        return case, "rendering %r for %r failed: %r" % (norm, vj, f)
    text = f["ok"]
    pre, post = rng.choice(["", "x = '", "- ", "(", "v/"]), rng.choice(["", "'", " ", ")", "\n"])
    m = impl.v1_compile_search(raw, pre + text + post, vp)
    if m.get("span") != [len(pre), len(pre) + len(text)]:
        return case, "search pattern %r (version pattern %r) does not accept its own rendering %r in %r: %r" % (raw, vp, text, pre + text + post, m)
    return case, None


def chain_case(rng, pat, steps, through_cli=False):
    """(ii) a chain of bumps: every result that passes the gate is strictly greater (PEP 440; {pycalver}: also as a plain string,
    and every bump of a {pycalver} version yields a result)"""
    d = gen_day(rng)
    d = d.replace(year=2000 + d.year % 60)
    _, vj = gen_record(rng, d)
    vj["bid"] = rng.choice(["0001", "0997", "1000", "1998", "8990", "0099", "9997", "9999", "99998", "99999", str(rng.randint(1000, 9000))])
    f = impl.v1_format(vj, pat)
    case = {"kind": "chain", "pattern": pat, "start": f.get("ok"), "cli": through_cli, "steps": []}
    if "ok" not in f:
        return case, "format_version failed at the start of a chain: %r" % (f,), 0
    cur = f["ok"]
    today = [2026, 9, 29]
    done = 0
    for i in range(steps):
        d = next_day(rng, d) if rng.random() < 0.7 else d
        fl = dict(NOFLAGS)
        if "MAJOR" in pat or "semver" in pat:
            fl.update(major=rng.random() < 0.1, minor=rng.random() < 0.2, patch=rng.random() < 0.5)
        if "PATCH" in pat and not any(fl[k] for k in ("major", "minor", "patch")) and "build" not in pat and "bid" not in pat and "pycalver" not in pat:
            fl["patch"] = True
        if rng.random() < 0.2 and ("release" in pat or "tag" in pat or "pycalver" in pat):
            fl["tag"] = rng.choice(TAGS)
        if through_cli:
            r = impl.cli_test(cur, pat, fl, True, ymd(d), today, None)
            new = r.get("new") if r.get("exit") == 0 else None
            accepted = new is not None
        else:
            r = impl.v1_incr(cur, pat, fl, ymd(d), today)
            if "err" in r:
                # an id of all nines is the lexid scheme's documented maximum: no successor (and no result) is the specified outcome
                pcur = impl.v1_parse(cur, pat)
                cur_bid = (pcur.get("ok") or {}).get("bid", "") if isinstance(pcur, dict) else ""
                if r["err"] == "OverflowError" and cur_bid and set(cur_bid) <= set("9"):
                    break
                case["steps"] = case["steps"][-3:] + [[cur, fl, ymd(d), r]]
                return case, "incr(%r, %r, %s, date=%s) crashed: %r" % (cur, pat, {k: v for k, v in fl.items() if v}, d, r), done
            new = r["ok"]
            accepted = new is not None and impl.v1_gate(pat, cur, new).get("ok") is True
        step = [cur, {k: v for k, v in fl.items() if v}, ymd(d), new]
        if pat == "{pycalver}":
            if new is None or not accepted:
                case["steps"] = case["steps"][-3:] + [step]
                if new is None and re.fullmatch(r"v\d{6}\.9+(-\w+)?", cur):
                    break
                return case, "a {pycalver} bump of %r on %s gave no accepted result (%r)" % (cur, d, new), done
            if not (cur < new):
                case["steps"] = case["steps"][-3:] + [step]
                return case, "{pycalver}: %r -> %r is not greater as a plain string" % (cur, new), done
        if accepted:
            if not pep_lt(cur, new):
                case["steps"] = case["steps"][-3:] + [step]
                return case, "%r -> %r (pattern %r) passed the gate but is not strictly greater under PEP 440" % (cur, new, pat), done
            p = impl.v1_parse(new, pat)
            if "ok" not in p:
                case["steps"] = case["steps"][-3:] + [step]
                return case, "bump result %r is not accepted by its pattern %r" % (new, pat), done
            cur = new
            done += 1
            if len(case["steps"]) < 3:
                case["steps"].append(step)
    case["bumps"] = done
    case["end"] = cur
    return case, None, done


def dispatch_case(rng, rough=False):
    """(iii) one engine per pattern: incr_dispatch, _is_valid_version and _parse_config agree"""
    pat = rough_pattern(rng) if rough else doc_pattern(rng, readable=rng.random() < 0.7)
    r = impl.dispatch(pat)
    case = {"kind": "dispatch", "pattern": pat, "observed": r}
    e = r["engines"]
    region = "F-C20-dispatch" if (("{" in pat or "}" in pat) and not r["has_v1_part"]) else None
    if len(set(e.values())) != 1:
        return case, "pattern %r: incr_dispatch uses %s, the gate %s, the config loader %s" % (pat, e["incr"], e["gate"], e["config"]), region
    if not rough and e["incr"] != "v1":
        return case, "documented legacy pattern %r is not handled by the legacy engine: %r" % (pat, e), region
    return case, None, region


PEP_MAP = {"{pycalver}": "{pep440_pycalver}", "{semver}": "{semver}", "v{year}{month}{build}{release}": "{year}{month}.{BID}{pep440_tag}",
           "{year}{month}{build}{release}": "{year}{month}.{BID}{pep440_tag}", "v{year}{build}{release}": "{year}.{BID}{pep440_tag}",
           "{year}{build}{release}": "{year}.{BID}{pep440_tag}"}


def legacy_pep(vp, text):
    """the derived PEP 440 text the legacy engine writes for a version of pattern vp"""
    return impl.v1_format(impl.v1_parse(text, vp)["ok"], PEP_MAP[vp])["ok"]


def update_case(rng):
    """`bumpver update` on a generated legacy project: config loader + rewrite + gate use the legacy engine; the files show the new
    version and the derived PEP 440 text, which denotes the same PEP 440 version"""
    from bumpver import version
    vp = rng.choice(["{pycalver}", "v{year}{month}{build}{release}", "{year}{build}{release}", "v{year}{build}{release}", "{semver}"])
    d, vj = gen_record(rng)
    vj["bid"] = str(rng.randint(1000, 9000))
    old = impl.v1_format(vj, vp)["ok"]
    d2 = d + dt.timedelta(days=rng.choice([0, 31, 400]))
    args = ["update", "--no-fetch", "--date", "%04d-%02d-%02d" % (d2.year, d2.month, d2.day)]
    if vp == "{semver}":
        args.append(rng.choice(["--patch", "--minor", "--major"]))
    if rng.random() < 0.3:
        args += ["--tag", rng.choice(TAGS)]
    # a second configured file that is NOT valid UTF-8 (a Latin-1 header): the update cannot complete and must leave every file alone
    non_utf8 = rng.random() < 0.15
    case = {"kind": "update", "vp": vp, "old": old, "args": args, "non_utf8_file": non_utf8}
    before = "v: %s\npep: %s\n" % (old, legacy_pep(vp, old))
    with sandbox.Project("c20") as p:
        p.write_text("bumpver.toml", '[bumpver]\ncurrent_version = %s\nversion_pattern = %s\ncommit = false\n[bumpver.file_patterns]\n'
                     '"bumpver.toml" = [\'current_version = "{version}"\']\n"a.txt" = ["v: {version}", "pep: {pep440_version}"]\n%s' % (
                         json.dumps(old), json.dumps(vp), '"z_latin1.txt" = ["v: {version}"]\n' if non_utf8 else ""))
        p.write_text("a.txt", before)
        if non_utf8:
            p.write_bytes("z_latin1.txt", b"# \xa9 2020 J\xfcrgen\nv: " + old.encode("utf-8") + b"\n")
        snap0 = p.snapshot()
        code, out, exc = sandbox.run_cli(args, p.dir)
        if non_utf8:
            snap1 = p.snapshot()
            case.update(exit=code, exc=exc)
            if code == 0:
                return case, "`bumpver %s` exited 0 although z_latin1.txt is not valid UTF-8" % " ".join(args)
            changed = sorted(k for k in set(snap0) | set(snap1) if snap0.get(k) != snap1.get(k))
            return case, ("`bumpver %s` failed (exit %s) but changed %r" % (" ".join(args), code, changed)) if changed else None
        cfg = p.read_bytes("bumpver.toml").decode("utf-8")
        a = p.read_bytes("a.txt").decode("utf-8")
    m = re.search(r'current_version = "([^"]*)"', cfg)
    new = m.group(1) if m else None
    case.update(exit=code, exc=exc, new=new, a=a)
    if code != 0:
        if new != old or a != before:
            return case, "`bumpver %s` failed (exit %s) but changed files" % (" ".join(args), code)
        return case, None
    if not pep_lt(old, new):
        return case, "`bumpver %s` set %r which is not strictly greater than %r" % (" ".join(args), new, old)
    want = "v: %s\npep: %s\n" % (new, legacy_pep(vp, new))
    if a != want:
        return case, "`bumpver %s`: a.txt = %r, expected %r" % (" ".join(args), a, want)
    if version.to_pep440(legacy_pep(vp, new)) != version.to_pep440(new):
        return case, "the derived PEP 440 text %r of %r does not denote the same version" % (legacy_pep(vp, new), new)
    return case, None


def rewrite_ops(rng, n):
    """correspondence of the LEGACY rewrite path (Model/V1Rewrite.lean, op v1_rewrite_content) with v1rewrite.rfd_from_content: generated contents with
    one to three legacy patterns, occurrences on separate or shared lines, the four line-ending regimes, missing occurrences"""
    ops = []
    vps = ["{pycalver}", "{semver}", "v{year}{month}{build}{release}", "{year}.{month}.{MINOR}", "v{year}.{doy}-{build_no}"]
    raws = ["{version}", "{pep440_version}", "ver={version};", "pkg=={pep440_version}", "badge/{version}-blue", "({version})", "v: {version} end"]
    for _ in range(n):
        vp = rng.choice(vps)
        d, vj = gen_record(rng)
        d2, vj2 = gen_record(rng)
        r_old = impl.v1_format(vj, vp)
        if "ok" not in r_old:
            continue
        chosen = rng.sample(raws, rng.randint(1, 3))
        sep = rng.choice(["\n", "\n", "\r\n", "\r"])
        lines = ["# header", "plain text"]
        for k, raw in enumerate(chosen):
            try:
                from bumpver import v1patterns
                occ = impl.v1_format(vj, v1patterns._normalized_pattern(vp, raw))
            except Exception:
                occ = {}
            if "ok" not in occ:
                continue
            text = occ["ok"]
            if rng.random() < 0.15:
                continue                          # this pattern has no occurrence: NoPatternMatch
            if k > 0 and rng.random() < 0.35:
                lines[-1] = lines[-1] + rng.choice(["  ", " and ", "\t"]) + text        # shared line
            else:
                lines.append(rng.choice(["", "see ", "  "]) + text + rng.choice(["", " # x", " ."]))
        lines.append("tail")
        content = sep.join(lines) + (sep if rng.random() < 0.6 else "")
        order = list(chosen)
        rng.shuffle(order)
        ops.append({"op": "v1_rewrite_content", "patterns": [[vp, raw] for raw in order], "vinfo": vj2, "content": content})
    return ops


def shared_line_case(rng):
    """LEGACY engine: two different configured patterns match on ONE line and the bump changes the LENGTH of the version (9 -> 10): both
    occurrences must show the new version and every other byte of the line must stay (C03 / C04 for the legacy rewrite path).  The
    configured order, the order on the line and the alphabetical order of the pattern texts are all varied."""
    major, minor, patch = rng.choice([(1, 9, 3), (0, 99, 7), (9, 9, 9), (2, 9, 0)])
    old = "%d.%d.%d" % (major, minor, patch)
    flag = rng.choice(["--minor", "--major"]) if major == 9 else "--minor"
    new = "%d.%d.0" % (major, minor + 1) if flag == "--minor" else "%d.0.0" % (major + 1)
    pats = rng.sample(["zz=={version}", "/aa/{version}/index.html", "demo-{version}.tar.gz", "v{version}!", "(rel {version})"], 2)
    left, right = pats if rng.random() < 0.5 else pats[::-1]
    configured = [left, right] if rng.random() < 0.5 else [right, left]
    line = "see %s and %s end" % (left.replace("{version}", "%s"), right.replace("{version}", "%s"))
    case = {"kind": "shared-line", "old": old, "new": new, "patterns": configured, "line": line % (old, old), "flag": flag}
    with sandbox.Project("c20s") as p:
        p.write_text("bumpver.toml", '[bumpver]\ncurrent_version = %s\nversion_pattern = "{semver}"\ncommit = false\n[bumpver.file_patterns]\n'
                     '"bumpver.toml" = [\'current_version = "{version}"\']\n"b.txt" = [%s]\n' % (json.dumps(old), ", ".join(json.dumps(x) for x in configured)))
        p.write_text("b.txt", "first\n" + line % (old, old) + "\nlast\n")
        code, out, exc = sandbox.run_cli(["update", "--no-fetch", flag], p.dir)
        b = p.read_bytes("b.txt").decode("utf-8")
    case.update(exit=code, exc=exc, b=b)
    want = "first\n" + line % (new, new) + "\nlast\n"
    if code != 0:
        return case, "`bumpver update %s` failed (exit %s %s) on a consistent legacy project" % (flag, code, exc)
    if b != want:
        return case, "legacy rewrite of a line with two patterns: b.txt = %r, expected %r" % (b, want)
    return case, None


WITNESSES = {
    "F-C20-dom-short": lambda: (impl.v1_format(impl.v1_info_json(impl.v1_make_info([2020, 1, 10])), "{year}.{month_short}.{dom_short}"),
                                impl.v1_parse("2020.1.10", "{year}.{month_short}.{dom_short}")),
    "F-C20-doy-short": lambda: (impl.v1_format(impl.v1_info_json(impl.v1_make_info([2020, 1, 5])), "{year}.{doy_short}"),
                                impl.v1_parse("2020.5", "{year}.{doy_short}")),
    "F-C20-padded-bid": lambda: (impl.v1_format(impl.v1_info_json(impl.v1_make_info([2020, 1, 5], bid="0033")), "{year}.{BBB}"),
                                 impl.v1_parse("2020.0033", "{year}.{BBB}")),
    "F-C20-week-parts": lambda: (impl.v1_parse("2020w05.33", "{year}w{iso_week}.{BID}"),
                                 impl.v1_incr("2020w05.33", "{year}w{iso_week}.{BID}", dict(NOFLAGS, pin_date=True), [2020, 2, 5], [2020, 2, 5])),
    "F-C20-dispatch": lambda: (impl.dispatch("{foo}")["engines"],),
}
EXPECT = {
    "F-C20-dom-short": ({"ok": "2020.1.10"}, {"err": "PatternError"}),
    "F-C20-doy-short": ({"ok": "2020.5"}, {"err": "PatternError"}),
    "F-C20-padded-bid": ({"ok": "2020.0033"}, {"err": "PatternError"}),
    "F-C20-week-parts": ({"ok": {"cal": [2020, None, None, None, None, None, None], "major": 0, "minor": 0, "patch": 0, "bid": "33", "tag": "final"}}, {"err": "TypeError"}),
    "F-C20-dispatch": ({"incr": "v2", "gate": "v1", "config": "v1"},),
}


def run(chk, driver, tier):
    rng = chk.rng
    # the COMPOSED model of `bumpver update` for LEGACY patterns (Model/UpdateV1.lean, theorems Props/UpdateV1.lean) against the real CLI
    import props.updfull_v1 as updfull_v1
    updfull_v1.run(chk, driver, 400 if tier == "thorough" else 40)
    # real `bumpver update` runs with legacy patterns on real files (several patterns per file and per line): props/v1e2e.py
    import props.v1e2e as v1e2e
    v1e2e.run(chk, 300 if tier == "thorough" else 30, driver, faults=0.1)
    thorough = tier == "thorough"
    n = 6000 if thorough else 700
    chk.extra["rule"] = ("documented stream: the composites {pycalver} {semver} {calver} {build} {release} {pep440_pycalver} {pep440_version} and sequences of "
                         "{year} {month} {dom} {doy} {quarter} {build_no} {release} {MAJOR} {MINOR} {PATCH} with literal separators x dates 2000..2099 (boundary-biased) x build ids x six tags; "
                         "rough-edge stream: {dom_short} {doy_short} {month_short} {BID}/{BB..} {MM..}/{PP..} {iso_week} {us_week} {yy} {foo} unbalanced/doubled braces, regex specials, repeated parts; "
                         "ops dispatch/v1_compile_str/v1_format/v1_parse (rendered + mutated)/v1_compile_search/v1_incr/v1_gate and v1_cli_test via CliRunner; "
                         "oracle: round trips, derived search patterns, bump chains (%d steps) direct and through `bumpver test`, engine choice by spying, `bumpver update` on legacy projects; "
                         "non-trivial = distinct op line / case") % (1000 if thorough else 150)
    correspond(chk, corr_ops(rng, n, False), driver, "documented")
    correspond(chk, corr_ops(rng, n // 2, True), driver, "rough")
    correspond(chk, cli_ops(rng, n // 3, False) + cli_ops(rng, n // 8, True), driver, "cli")

    known = {f["id"]: f for f in load_known_findings("C20") if f.get("status") == "open"}

    def judge(case, verdict, region=None):
        chk.oracle_case(case, verdict, region if region in known else None)

    for _ in range(n * 2):
        case, verdict, region = roundtrip_case(rng)
        chk.count("roundtrip:documented")
        judge(case, verdict, region)
    for _ in range(n // 2):
        case, verdict, region = roundtrip_case(rng, rough=True)
        chk.count("roundtrip:rough" + (":known-region" if region else ""))
        judge(case, verdict, region)
    for _ in range(n // 2):
        case, verdict = search_case(rng)
        chk.count("search")
        judge(case, verdict)
    for i in range(n):
        case, verdict, region = dispatch_case(rng, rough=(i % 3 == 2))
        chk.count("dispatch:" + ("rough" if i % 3 == 2 else "documented"))
        judge(case, verdict, region)
    steps = 1000 if thorough else 150
    total = 0
    chain_pats = ["{pycalver}"] * (6 if thorough else 2) + DOC_FIXED + [doc_pattern(rng) for _ in range(30 if thorough else 6)]
    for pat in chain_pats:
        case, verdict, done = chain_case(rng, pat, steps)
        total += done
        chk.count("chain:direct")
        judge(case, verdict)
    for pat in ["{pycalver}", "{semver}", "v{year}{month}{build}{release}"] + ([doc_pattern(rng) for _ in range(4)] if thorough else []):
        case, verdict, done = chain_case(rng, pat, steps, through_cli=True)
        total += done
        chk.count("chain:cli")
        judge(case, verdict)
    chk.count("chain:accepted_bumps", total)
    for _ in range(n // 40):
        case, verdict = update_case(rng)
        chk.count("update")
        judge(case, verdict)

    def _rw_impl(o):
        return impl.v1_rewrite_content(o["patterns"], o["vinfo"], o["content"])
    rwops = rewrite_ops(rng, 4000 if thorough else 300)
    before_bad = len(chk.disagreements)
    chk.correspond(rwops, _rw_impl, driver, label="v1_rewrite_content")
    chk.disagreements = chk.disagreements[:before_bad] + [b for b in chk.disagreements[before_bad:] if "unsupported" not in b["impl"]]
    for _ in range(40 if thorough else 8):
        case, verdict = shared_line_case(rng)
        chk.count("legacy_shared_line")
        chk.oracle_case(case, verdict)
    lines = []
    for fid, f in sorted(known.items()):
        got = WITNESSES[fid]() if fid in WITNESSES else None
        if got is not None and tuple(got) == tuple(EXPECT[fid]):
            lines.append("%s: %s (witness re-confirmed: %s)" % (fid, f["summary"], json.dumps(f.get("witness"), sort_keys=True)))
    return lines


def search(chk, driver, tier):
    rng = chk.rng
    known = {f["id"]: f for f in load_known_findings("C20") if f.get("status") == "open"}
    for i in range(40000):
        case, verdict, region = roundtrip_case(rng, rough=(i % 4 == 3))
        chk.oracle_case(case, verdict, region if region in known else None)
        if i % 5 == 0:
            case, verdict, region = dispatch_case(rng, rough=(i % 2 == 0))
            chk.oracle_case(case, verdict, region if region in known else None)
        if i % 5 == 1:
            case, verdict = search_case(rng)
            chk.oracle_case(case, verdict)
        if chk.violations:
            return
    for pat in ["{pycalver}"] + DOC_FIXED:
        case, verdict, _ = chain_case(rng, pat, 1000)
        chk.oracle_case(case, verdict)
        if chk.violations:
            return


def replay(payload):
    c = payload["case"]
    k = c.get("kind")
    if k == "roundtrip":
        f = impl.v1_format(c["vinfo"], c["pattern"])
        if "ok" not in f:
            return "format_version failed: %r" % (f,)
        p = impl.v1_parse(f["ok"], c["pattern"])
        if "ok" not in p:
            return "the rendered version %r is not accepted by its own pattern %r: %r" % (f["ok"], c["pattern"], p)
        f2 = impl.v1_format(p["ok"], c["pattern"])
        if f2 != f:
            return "%r re-renders as %r" % (f["ok"], f2)
        return None
    if k == "dispatch":
        e = impl.dispatch(c["pattern"])["engines"]
        if len(set(e.values())) != 1:
            return "pattern %r: engines %r" % (c["pattern"], e)
        return None
    if k == "search":
        f = c["rendered"]
        m = impl.v1_compile_search(c["raw"], f["ok"], c["version_pattern"])
        if m.get("span") != [0, len(f["ok"])]:
            return "search pattern %r does not accept its own rendering %r: %r" % (c["raw"], f["ok"], m)
        return None
    if k == "chain":
        for cur, fl, d, new in c.get("steps", [])[-1:]:
            flags = dict(NOFLAGS)
            flags.update(fl)
            r = impl.v1_incr(cur, c["pattern"], flags, d, [2026, 9, 29])
            if "err" in r:
                return "incr(%r, %r) crashed: %r" % (cur, c["pattern"], r)
            n = r["ok"]
            if n is not None and impl.v1_gate(c["pattern"], cur, n).get("ok") and not pep_lt(cur, n):
                return "%r -> %r passed the gate but is not greater" % (cur, n)
            if c["pattern"] == "{pycalver}" and (n is None or not cur < n):
                return "{pycalver}: %r -> %r" % (cur, n)
        return None
    return "re-run ./check C20 (seed %s)" % payload.get("seed")
