"""End-to-end correspondence of the COMPOSED model of `bumpver update` (Model/Update.lean, op update_full) with the real CLI.

One scenario = a generated project (files, patterns, possibly with a fault in the rewrite phase) x the commit/tag/push/hook lattice of C10 x tag
listings (C09) x a status listing (C11) x --dry / --set-version / --ignore-vcs-tag x a failure position of the fake git.  The real command
runs in a temp project with a fake git first on PATH; the model gets the same scenario as one op line.  Compared: exit code (0 / non-zero), the
trace of externally visible events in order (VCS commands, hooks with the versions they saw, the position of the file rewrite) and the content of
every configured file afterwards.

Besides the correspondence, the clauses of the properties that speak about the whole command are judged directly on the implementation's
observation (oracle): non-zero exit => no file changed and nothing mutating; --dry => nothing changed; files changed => exactly the re-materialised
layout for the announced version."""
import os, re, json, datetime as dt
import impl_adapter as impl
import projgen, rwcommon, sandbox, refimpl
import props.c06 as c06
import props.c09 as c09
import props.c10 as c10

TODAY = [2026, 9, 29]


def gen_scenario(rng):
    pr = rwcommon.gen_ok_project(rng, max_files=3, max_pats=3, mixed_endings=False, ascii_names=True)
    for _ in range(50):
        if all(n.isascii() for n in pr["files"]) and c09_ok(pr["vp"]):
            break
        pr = rwcommon.gen_ok_project(rng, max_files=3, max_pats=3, mixed_endings=False, ascii_names=True)
    tri = lambda: rng.choice([None, None, True, False])
    hook = lambda: rng.choice(["absent", "absent", "ok", "fail"])
    tree = refimpl.tokenize(pr["vp"])
    tags = [x for t in c09.gen_tagset(rng, pr["vp"], tree, pr["old_state"]) for x in t.split()] if rng.random() < 0.5 else []
    tags = [t for t in tags if t.isascii()]
    sc = {
        "cfg_commit": rng.random() < 0.8, "cfg_tag": rng.random() < 0.5, "cfg_push": rng.random() < 0.4,
        "commit": tri(), "tag_commit": tri(), "push": tri(),
        "pre": hook(), "post": hook(), "pre_via_cli": rng.random() < 0.3, "post_via_cli": rng.random() < 0.3,
        "cfg_scope": rng.choice(["default", "default", "global", "branch"]), "cli_scope": rng.choice([None, None, None, "default", "global", "branch"]),
        "tag_msg_empty": rng.random() < 0.3,
        "dry": rng.random() < 0.2, "fetch": rng.random() < 0.4, "ignore_vcs_tag": rng.random() < 0.2,
        "vcs_present": rng.random() < 0.9, "remote": rng.choice(["branch", "url", "none"]),
        "fail_at": rng.choice([None, None, None] + list(range(0, 14))),
        "allow_dirty": rng.random() < 0.5,
        "tags": tags, "branch_tags": sorted(rng.sample(tags, rng.randint(0, len(tags)))) if tags else [],
    }
    if not sc["cfg_commit"]:
        sc["cfg_tag"] = sc["cfg_push"] = False
    # what the status listing shows
    names = ["bumpver.toml"] + list(pr["files"])
    r = rng.random()
    if r < 0.55:
        sc["status"] = []
    elif r < 0.7:
        sc["status"] = [" M unrelated.txt"]
    elif r < 0.8:
        sc["status"] = ["?? scratch.txt", "?? notes/new.txt"]
    elif r < 0.9:
        sc["status"] = [rng.choice([" M ", "M  ", "MM ", "A  ", "?? ", " D "]) + rng.choice(names)]
    else:
        sc["status"] = [" M unrelated.txt", rng.choice(["?? ", " M "]) + rng.choice(names), "?? zz.txt"]
    # the candidate version
    r = rng.random()
    if r < 0.6:
        sc["set_version"] = None
    elif r < 0.7:
        sc["set_version"] = pr["new"]
    elif r < 0.8:
        sc["set_version"] = refimpl.render_respelled(tree, pr["new_state"], rng) or pr["new"]      # accepted, but not how the pattern renders it
    elif r < 0.9:
        sc["set_version"] = pr["old"]                       # not greater: rejected
    else:
        sc["set_version"] = rng.choice(["junk", pr["new"] + "x", ""])
    # a fault in the rewrite phase
    sc["fault"] = None
    if rng.random() < 0.25:
        fl = [f for f in c06.faults(pr) if f[0] in ("remove", "blank", "break_pattern", "empty")]
        sc["fault"] = list(rng.choice(fl))
    return pr, sc


def c09_ok(vp):
    return not any(c in vp for c in " \\")


def fs_of(p, pr):
    out = {}
    for name in ["bumpver.toml"] + list(pr["files"]):
        path = p.path(name)
        if os.path.exists(path):
            try:
                out[name] = open(path, "rb").read().decode("utf-8")
            except UnicodeDecodeError:
                return None
    return out


def run_one(pr, sc):
    """returns (model op, implementation result, observations)"""
    cfg_extra = ['commit = %s' % str(sc["cfg_commit"]).lower(), 'tag = %s' % str(sc["cfg_tag"]).lower(), 'push = %s' % str(sc["cfg_push"]).lower(),
                 'tag_message = "%s"' % ("" if sc["tag_msg_empty"] else "release {new_version}"), 'tag_scope = "%s"' % sc["cfg_scope"]]
    args = ["update"]
    for which in ("pre", "post"):
        if sc[which] != "absent":
            name = "%s_hook.sh" % which
            if sc[which + "_via_cli"]:
                args += ["--%s-commit-hook" % which, name]
            else:
                cfg_extra.append('%s_commit_hook = "%s"' % (which, name))
    if sc["set_version"] is not None:
        args += ["--set-version", sc["set_version"]]
    else:
        args += projgen.cli_flags(pr)
    for k in ("commit", "tag_commit", "push"):
        if sc[k] is not None:
            args.append("--%s%s" % ("" if sc[k] else "no-", k.replace("_", "-")))
    if sc["cli_scope"] is not None:
        args += ["--tag-scope", sc["cli_scope"]]
    if sc["dry"]:
        args.append("--dry")
    if sc["allow_dirty"]:
        args.append("--allow-dirty")
    args.append("--fetch" if sc["fetch"] else "--no-fetch")
    if sc["ignore_vcs_tag"]:
        args.append("--ignore-vcs-tag")
    p = sandbox.Project("upd")
    try:
        for name, text in pr["files"].items():
            p.write_bytes(name, text.encode("utf-8"))
        p.write_text("bumpver.toml", projgen.toml_config(pr, "\n".join(cfg_extra)))
        p.write_text("unrelated.txt", "not configured, mentions %s\n" % pr["old"])
        p.add_fake_vcs("git")
        if not sc["vcs_present"]:
            p.drop_vcs_marker("git")
        for which in ("pre", "post"):
            if sc[which] != "absent":
                p.add_hook("%s_hook.sh" % which, fail=(sc[which] == "fail"))
        p.fake_set("branches", "* main 1a2b3c4 [origin/main] msg\n" if sc["remote"] == "branch" else "* main 1a2b3c4 msg\n")
        if sc["remote"] == "url":
            p.fake_set("remote_url", "https://example.invalid/x.git\n")
        p.fake_set("status", "".join(l + "\n" for l in sc["status"]))
        p.fake_set("tags", "".join(t + "\n" for t in sc["tags"]))
        p.fake_set("tags_branch", "".join(t + "\n" for t in sc["branch_tags"]))
        if sc["fail_at"] is not None:
            p.fake_set("fail_at", str(sc["fail_at"] + 1))
        if sc["fault"]:
            c06.apply_fault(pr, p, tuple(sc["fault"]))
        files_before = fs_of(p, pr)
        if files_before is None:
            return None, None, None
        eff_scope = sc["cli_scope"] or sc["cfg_scope"]
        op = {
            "op": "update_full", "kind": "git",
            "cfg_commit": sc["cfg_commit"], "cfg_tag": sc["cfg_tag"], "cfg_push": sc["cfg_push"],
            "cfg_pre": sc["pre"] != "absent" and not sc["pre_via_cli"], "cfg_post": sc["post"] != "absent" and not sc["post_via_cli"],
            "cli_pre": sc["pre"] != "absent" and sc["pre_via_cli"], "cli_post": sc["post"] != "absent" and sc["post_via_cli"],
            "cfg_scope": sc["cfg_scope"], "cli_scope": sc["cli_scope"], "tag_msg_empty": sc["tag_msg_empty"],
            "commit": sc["commit"], "tag_commit": sc["tag_commit"], "push": sc["push"],
            "dry": sc["dry"], "fetch": sc["fetch"], "ignore_vcs_tag": sc["ignore_vcs_tag"], "set_version": sc["set_version"],
            "vcs_present": sc["vcs_present"], "fail_at": sc["fail_at"],
            "branch_remote": sc["remote"] == "branch", "url_remote": sc["remote"] == "url",
            "pre_ok": sc["pre"] != "fail", "post_ok": sc["post"] != "fail",
            "pattern": pr["vp"], "config_version": pr["old"],
            "major": pr["flags"]["major"] and sc["set_version"] is None, "minor": pr["flags"]["minor"] and sc["set_version"] is None,
            "patch": pr["flags"]["patch"] and sc["set_version"] is None,
            "tag": None, "tag_num": False, "pin_increments": False, "pin_date": False,
            "date_given": sc["set_version"] is None, "date": pr["date"], "today": TODAY,
            "scope_tags": sc["branch_tags"] if eff_scope == "branch" else sc["tags"], "global_tags": sc["tags"],
            "status_lines": sc["status"], "allow_dirty": sc["allow_dirty"],
            "files": files_before,
            "file_patterns": [["bumpver.toml", [[pr["vp"], 'current_version = "{version}"']]]] + pr["file_patterns"],
        }
        # the position of the rewrite in the trace: every later fake-vcs / hook invocation records whether the config file shows ANOTHER version
        probe_text = 'current_version = %s' % json.dumps(pr["old"], ensure_ascii=False)
        p.fake_probe("bumpver.toml", probe_text)
        before = p.snapshot()
        code, out, exc = sandbox.run_cli(args, p.dir, p.env(), today=dt.date(*TODAY))
        after = p.snapshot()
        log = p.fake_log()
        wlog = p.fake_wlog()
        files_after = fs_of(p, pr)
    finally:
        p.cleanup()
    evs = [c10.classify(a) for a in log]
    written = before != after
    trace, placed = [], False
    for ev, w in zip(evs, wlog):
        # the probe says "W" while the OLD text is still there: the rewrite sits before the first invocation that no longer sees it
        if w != "W" and not placed and written:
            trace.append("rewrite")
            placed = True
        trace.append(ev)
    if written and not placed:
        trace.append("rewrite")
    canon = ["add" if ev.startswith("add:") else ev for ev in trace]
    res = {"trace": canon, "exit": 0 if code == 0 else 1, "files": files_after}
    obs = {"args": args, "exc": exc, "raw_exit": code, "written": written, "changed": rwcommon.diff_files(before, after),
           "added": [ev[4:] for ev in trace if ev.startswith("add:")]}
    return op, res, obs


MUT = ("add", "commit", "tag", "tag_light", "push", "push_tag")


def oracle(pr, sc, res, obs):
    tr = res["trace"]
    muts = [e for e in tr if e in MUT]
    hooks = [e for e in tr if e.startswith(("pre_hook", "post_hook"))]
    if sc["dry"] and (obs["written"] or muts or hooks):
        return "--dry changed %r / issued %r / ran %r" % (obs["changed"], muts, hooks)
    noop_rewrite = sc["set_version"] == pr["old"]          # the rewrite writes what is already there: invisible from outside
    if res["exit"] != 0 and not obs["written"] and (muts or hooks) and "rewrite" not in tr and not noop_rewrite:
        return "the run failed before the rewrite (exit %s) but issued %r / ran %r" % (obs["raw_exit"], muts, hooks)
    if obs["written"]:
        if set(obs["changed"]) - (set(pr["files"]) | {"bumpver.toml"}):
            return "files that are not configured were written: %r" % obs["changed"]
        if sc["fault"]:
            kind = sc["fault"][0]
            if kind in ("remove", "blank", "empty"):
                return "files were written (%r) although the rewrite phase cannot complete (fault %r)" % (obs["changed"], sc["fault"])
    if res["exit"] != 0 and obs["written"] and "rewrite" in tr:
        # a failure AFTER the rewrite (hook, commit, tag, push): files are written, that is the documented order; nothing to judge here
        pass
    if res["exit"] == 0 and not sc["dry"] and not obs["written"] and sc["set_version"] != pr["old"]:
        # (--set-version equal to what the files already show, accepted because the update starts from an older tag, rewrites the same content)
        return "exit 0 without --dry but no file changed"
    return None


class _Observed:
    """the model's answer as an outside observer sees it: a rewrite that writes the very same content (e.g. --set-version equal to what the
    files already show, started from an older tag) cannot be seen in the files, so it is not an observable event"""

    def __init__(self, driver):
        self.driver = driver

    def available(self):
        return self.driver.available()

    def run(self, ops):
        outs = self.driver.run(ops)
        for o, r in zip(ops, outs):
            if isinstance(r, dict) and "trace" in r and r.get("files") == o["files"]:
                r["trace"] = [e for e in r["trace"] if e != "rewrite"]
        return outs


def run(chk, driver, n, label="update_full"):
    rng = chk.rng
    ops, results = [], []
    for _ in range(n):
        pr, sc = gen_scenario(rng)
        op, res, obs = run_one(pr, sc)
        if op is None:
            continue
        chk.count("upd:exit:%s" % res["exit"])
        chk.count("upd:rewrite:%s" % ("rewrite" in res["trace"]))
        chk.count("upd:tracelen:%d" % min(len(res["trace"]), 12))
        chk.count("upd:fault:%s" % (sc["fault"][0] if sc["fault"] else None))
        chk.oracle_case({"kind": "update_full", "vp": pr["vp"], "old": pr["old"], "new": pr["new"], "scenario": sc, "args": obs["args"],
                         "trace": res["trace"], "exit": res["exit"], "files": pr["files"], "file_patterns": pr["file_patterns"]}, oracle(pr, sc, res, obs))
        ops.append(op)
        results.append(res)
    it = iter(results)
    chk.correspond(ops, lambda op: next(it), _Observed(driver), label=label)
