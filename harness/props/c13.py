"""C13 — --dry changes nothing and shows exactly what a real run would do."""
import re
import impl_adapter as impl
import projgen, rwcommon, sandbox
from common import Driver

NOTE = ("Theorems C13_* (Props/C13.lean): --dry is pure (plan model), the diff path and the write path compute the same new lines, a clean dry run implies a successful real run "
        "that writes exactly those lines, and the unified-diff applier of the model is strict and complete (C13_apply_sound / _complete). PARTIAL: difflib.unified_diff is not "
        "modelled: the text printed by the real `update --dry` is parsed and applied by the model's applier (op apply_diff) and must reproduce the files of a real run.")


def sep_of(text):
    return "\r\n" if "\r\n" in text else ("\r" if "\r" in text else "\n")


def dry_vs_real(rng, driver, vcs, license_fault=False):
    if license_fault:
        pr = rwcommon.gen_ok_project(rng, mixed_endings=False, license_file=True, max_files=2,
                                     vp=rng.choice(["vYYYY.BUILD[-TAG]", "YYYY.MM.PATCH", "vYYYY0M.BUILD[-TAG]", "YYYY.BUILD[PYTAGNUM]"]))
    else:
        pr = rwcommon.gen_ok_project(rng, mixed_endings=False)
        # configuration spellings that mean the same thing: implicit self pattern, non-normalised keys, glob keys (also over hidden files), ONE file
        # reachable through two keys with different patterns (the diff path prints a section per entry, the write path must not lose one)
        pr["variants"] = rng.random() < 0.6
    extra = "commit = true\ntag = true\npush = false" if vcs else ""
    set_version = rng.random() < 0.4
    args = rwcommon.update_args(pr, set_version=set_version)
    case = {"vp": pr["vp"], "old": pr["old"], "new": pr["new"], "files": pr["files"], "file_patterns": pr["file_patterns"], "args": args, "vcs": vcs}
    # fault in a third of the cases: dry must then report it and the real run must change nothing (C06)
    fault = None
    if license_fault or rng.random() < 0.3:
        import props.c06 as c06
        fl = c06.faults(pr)
        lic = [f for f in fl if f[1] == "LICENSE"]
        fault = rng.choice(lic) if (lic and (license_fault or rng.random() < 0.6)) else rng.choice(fl)
    # a commit / tag message template that str.format cannot render (unknown placeholder, stray brace), in the config or on the command line:
    # the real run fails on it before writing anything, so --dry must not exit 0 either
    bad_msg = None
    if vcs and not fault and rng.random() < 0.2:
        bad = rng.choice(["bump version to {version}", "release {tag}", "bump to NEW {skip ci}", "NEW }", "{", "{0} {new_version}", "{new_version.x}"])
        where = rng.choice(["cfg_commit", "cfg_tag", "cli_commit", "cli_tag"])
        bad_msg = [where, bad]
        if where == "cfg_commit":
            extra += "\ncommit_message = %s" % __import__("json").dumps(bad)
        elif where == "cfg_tag":
            extra += "\ntag_message = %s" % __import__("json").dumps(bad)
        elif where == "cli_commit":
            args = args + ["--commit-message", bad]
        else:
            args = args + ["--tag-message", bad]
        fault = ("bad_message", where, bad)
        case["args"] = args
    case["fault"] = list(fault) if fault else None
    with rwcommon.setup(pr, extra, vcs) as p:
        if fault and fault[0] != "bad_message":
            import props.c06 as c06
            c06.apply_fault(pr, p, fault)
        before = p.snapshot()
        code_d, out_d, exc_d = sandbox.run_cli(args + ["--dry"], p.dir, p.env())
        mid = p.snapshot()
        log_d = p.fake_log() if vcs else []
        if vcs:
            p.fake_reset_log()
        code_r, out_r, exc_r = sandbox.run_cli(args, p.dir, p.env())
        after = p.snapshot()
    case.update(dry_exit=code_d, real_exit=code_r)
    if mid != before:
        return pr, case, None, "--dry changed files %r" % rwcommon.diff_files(before, mid)
    muts = [a for a in log_d if len(a) > 1 and a[1] in ("add", "commit", "push") or (len(a) > 1 and a[1] == "tag" and a[2:3] != ["--list"])]
    if muts:
        return pr, case, None, "--dry issued mutating VCS commands %r" % muts
    if any(a[0] == "HOOK" for a in log_d):
        return pr, case, None, "--dry ran a hook"
    if fault:
        # with a fault the dry run may or may not fail (a removed occurrence can leave the pattern matched elsewhere), but:
        if code_d != 0:
            if after != before:
                return pr, case, None, "--dry reported an error (exit %s) but the real run changed %r" % (code_d, rwcommon.diff_files(before, after))
            return pr, case, None, None
        if code_r != 0:
            return pr, case, None, "--dry exited 0 but the real run with the same arguments exited %s (fault %r)" % (code_r, fault)
    if code_d != 0:
        return pr, case, None, "--dry failed (exit %s) on a consistent project" % code_d
    if code_r != 0:
        return pr, case, None, "--dry exited 0 but the real run with the same arguments exited %s" % code_r
    # apply the printed diff with the model's strict applier
    texts = {k: v.decode("utf-8") for k, v in before.items() if (k in pr["files"] or k == "bumpver.toml")}
    seps = {k: sep_of(t) for k, t in texts.items()}
    # diff lines are printed joined by "\n"; a file using "\r" or "\r\n" has no "\n" inside its lines
    op = {"op": "apply_diff", "diff": out_d.rstrip("\n"), "files": texts, "seps": seps}
    res = driver.run([op])[0]
    case["diff"] = out_d
    if "files" not in res:
        return pr, case, op, "the diff printed by --dry does not apply to the current files: %r" % (res,)
    for k, t in res["files"].items():
        if after[k].decode("utf-8") != t:
            case["file"] = k
            return pr, case, op, "applying the printed diff to %r gives %r, the real run produced %r" % (k, t[:300], after[k].decode("utf-8")[:300])
    return pr, case, op, None


def dry_vs_real_fetch(rng, driver):
    """a clone whose remote holds a version tag that is not fetched yet: `update --dry` (which fetches, like the real run) must predict
    what the real run with the same arguments does"""
    major, minor, patch = rng.randint(0, 3), rng.randint(0, 12), rng.randint(0, 30)
    cur = "%d.%d.%d" % (major, minor, patch)
    remote_new = "%d.%d.%d" % (major, minor, patch + rng.randint(1, 12)) if rng.random() < 0.7 else "%d.%d.0" % (major, minor + rng.randint(1, 3))
    flag = rng.choice(["--patch", "--minor", "--major"])
    fetch_args = rng.choice([[], [], ["--fetch"], ["--no-fetch"]])
    args = ["update", flag] + fetch_args
    case = {"kind": "unfetched-tag", "current": cur, "remote_tag": remote_new, "args": args}
    cfg = ('[bumpver]\ncurrent_version = "%s"\nversion_pattern = "MAJOR.MINOR.PATCH"\ncommit = true\ntag = true\npush = false\n'
           '[bumpver.file_patterns]\n"bumpver.toml" = [\'current_version = "{version}"\']\n"ver.txt" = ["{version}"]\n' % cur)
    with sandbox.Project("c13f") as p:
        p.write_text("bumpver.toml", cfg)
        p.write_text("ver.txt", "version %s here\n" % cur)
        p.add_fake_vcs("git")
        p.fake_set("branches", "* main 1a2b3c4 [origin/main] msg\n")
        p.fake_set("tags", cur + "\n")
        p.fake_set("tags_after_fetch", cur + "\n" + remote_new + "\n")
        before = p.snapshot()
        code_d, out_d, exc_d = sandbox.run_cli(args + ["--dry"], p.dir, p.env())
        mid = p.snapshot()
        log_d = p.fake_log()
        p.fake_reset_log()
        code_r, out_r, exc_r = sandbox.run_cli(args, p.dir, p.env())
        after = p.snapshot()
    case.update(dry_exit=code_d, real_exit=code_r)
    if mid != before:
        return case, "--dry changed files %r" % rwcommon.diff_files(before, mid)
    muts = [a for a in log_d if len(a) > 1 and a[1] in ("add", "commit", "push") or (len(a) > 1 and a[1] == "tag" and a[2:3] != ["--list"])]
    if muts:
        return case, "--dry issued mutating VCS commands %r" % muts
    if code_d != 0:
        return case, None if after == before else "--dry reported an error (exit %s) but the real run changed %r" % (code_d, rwcommon.diff_files(before, after))
    if code_r != 0:
        return case, "--dry exited 0 but the real run with the same arguments exited %s" % code_r
    texts = {k: v.decode("utf-8") for k, v in before.items()}
    res = driver.run([{"op": "apply_diff", "diff": out_d.rstrip("\n"), "files": texts, "seps": {k: "\n" for k in texts}}])[0]
    if "files" not in res:
        return case, "the diff printed by --dry does not apply to the current files: %r" % (res,)
    for k, t in res["files"].items():
        if after[k].decode("utf-8") != t:
            return case, "applying the diff printed by --dry to %r gives %r, the real run with the same arguments produced %r" % (k, t[:200], after[k].decode("utf-8")[:200])
    return case, None


def run(chk, driver, tier):
    rng = chk.rng
    # the COMPOSED model of `bumpver update` for LEGACY patterns (Model/UpdateV1.lean, theorems Props/UpdateV1.lean) against the real CLI
    import props.updfull_v1 as updfull_v1
    updfull_v1.run(chk, driver, 200 if tier == "thorough" else 20)
    # the LEGACY engine end to end: --dry changes nothing, its printed diff applied to the files gives what the real run writes
    import props.v1e2e as v1e2e
    v1e2e.run(chk, 300 if tier == "thorough" else 30, driver, faults=0.2)
    # the COMPOSED model of the whole command (Model/Update.lean, theorems Props/Update.lean) against the real CLI: exit code, event trace and
    # every configured file afterwards, on generated projects x the flag/config lattice x tag and status listings x faults x failure positions
    import props.updfull as updfull
    updfull.run(chk, driver, 1000 if tier == "thorough" else 30)
    n = 1200 if tier == "thorough" else 60
    chk.extra["rule"] = ("generated projects with consistent line endings x flag sets / --set-version, with and without a (fake) VCS; `update --dry` then `update`; the printed "
                         "diff parsed and applied by the model's strict applier; non-trivial = distinct project")
    ops = []
    for i in range(n):
        pr, case, op, verdict = dry_vs_real(rng, driver, "git" if i % 3 == 0 else None, license_fault=(i % 6 == 5))
        chk.count("vcs:%s" % (i % 3 == 0))
        chk.traces += 1
        chk.oracle_case({k: v for k, v in case.items() if k != "diff"}, verdict)
        # correspondence of the model's own dry path
        if case.get("fault"):
            continue
        cfg_pairs = [["bumpver.toml", [[pr["vp"], 'current_version = "{version}"']]]] + pr["file_patterns"]
        files = dict(pr["files"])
        files["bumpver.toml"] = projgen.toml_config(pr, "commit = true\ntag = true\npush = false" if i % 3 == 0 else "")
        ops.append(({"op": "dry_files", "old_vinfo": pr["old_vinfo"], "new_vinfo": pr["new_vinfo"], "files": files, "file_patterns": cfg_pairs},
                    {"result": "ok", "files": {k: pr["expected_files"].get(k) for k in pr["files"]}}))
    for i in range(n // 4):
        case, verdict = dry_vs_real_fetch(rng, driver)
        chk.count("unfetched_tag:%s" % " ".join(case["args"][2:] or ["default-fetch"]))
        chk.traces += 1
        chk.oracle_case(case, verdict)
    # the model's dry path against the independently re-materialised files (config file compared by the oracle above)
    outs = driver.run([o for o, _ in ops])
    for (o, want), got in zip(ops, outs):
        chk.evaluations += 1
        if "unsupported" in got:
            chk.unsupported += 1
            continue
        g = dict(got.get("files", {}))
        g.pop("bumpver.toml", None)
        if got.get("result") != "ok" or g != want["files"]:
            chk.disagreements.append({"op": {"op": "dry_files", "vp": o["file_patterns"][1][1][0][0] if len(o["file_patterns"]) > 1 else None}, "impl": want, "model": got})
    return []


def search(chk, driver, tier):
    rng = chk.rng
    for i in range(500):
        pr, case, op, verdict = dry_vs_real(rng, driver, "git" if i % 3 == 0 else None)
        chk.oracle_case({k: v for k, v in case.items() if k != "diff"}, verdict)
        case, verdict = dry_vs_real_fetch(rng, driver)
        chk.oracle_case(case, verdict)
        if chk.violations:
            return


def replay(payload):
    return "re-run ./check C13 with VERIF_SEED=%s" % payload.get("seed")
