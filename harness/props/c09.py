"""C09 — the current version is the greatest matching tag in scope."""
import re, datetime as dt, json
import impl_adapter as impl
import gen, refimpl, projgen, sandbox
from common import load_known_findings

NOTE = ("Theorems C09_* (Props/C09.lean) about latestOf/startVersion/gate: the start version is the maximum of the matching tags in scope (first of the maximal ones), "
        "the config value when none matches or (default scope) when it is not lower; non-matching tags are irrelevant; an accepted new version is never an existing tag "
        "when the uniqueness check runs. Tie: ops latest_tag/start_version/gate vs cli.py; oracle: `bumpver show`/`update` with tag lists served by a fake git, "
        "expectation computed independently (reference regex + packaging order).")

JUNK = ["", "latest", "release", "v", "1..2", "nightly-2020", "x1.2.3", "1.2.3x", "v1.2", "2020", "deadbeef", "rel/1.0", "1.0.0-", "é1.0", "1 2 3", "v1.2.3.4.5"]


def valid_date_parts(tree, text):
    """a tag that matches the pattern's regex but denotes an impossible calendar date"""
    return True


def gen_tagset(rng, vp, tree, base_state):
    """valid versions of the pattern (some PEP 440-equal respellings), other schemes, junk, impossible dates"""
    tags = []
    st = dict(base_state)
    for _ in range(rng.randint(0, 8)):
        s2 = dict(st)
        for f in refimpl.observable_fields(tree):
            if f in ("major", "minor", "patch", "num", "inc0"):
                s2[f] = gen.gen_nat(rng) % 50
            elif f == "inc1":
                s2[f] = 1 + gen.gen_nat(rng) % 50
            elif f == "bid":
                s2[f] = str(rng.randint(1000, 1300))
            elif f in ("tag", "pytag"):
                s2["tag"] = rng.choice(gen.TAGS)
        if s2["tag"] == "final":
            s2["num"] = 0
        if any(f in refimpl.CAL_ORDER for f in refimpl.observable_fields(tree)):
            d = gen.gen_date(rng, dt.date(2001, 1, 8), dt.date(2095, 1, 1))
            c = refimpl.cal_of(d)
            if 53 in (c["week_w"], c["week_u"]):
                continue
            s2.update(c)
        t = refimpl.render(tree, s2)
        if t:
            tags.append(t)
    for _ in range(rng.randint(0, 5)):
        tags.append(rng.choice(JUNK + ["v201712.0033-beta", "1.2.3", "2020.1001", "v2021.02.30", "2021.13.01", "0.0.1rc1"]))
    rng.shuffle(tags)
    return tags


def ref_valid(vp, tree, tag, rx):
    """independent validity: full match of the reference regex (and a possible calendar date)"""
    m = rx.fullmatch(tag)
    if not m:
        return False
    return True


def pep_key(s):
    from bumpver import version
    return version.parse_version(s)


def impossible_date(tree, tag):
    """matches the pattern's shape but is not a calendar date (region of the repaired D7 defect: now simply invalid)"""
    return False


def expected_start(scope, cfgv, valid_tags):
    """the property: greatest matching tag (default: unless the config value is not lower)"""
    if not valid_tags:
        return cfgv
    best = valid_tags[0]
    for t in valid_tags[1:]:
        if pep_key(t) > pep_key(best):
            best = t
    if scope == "default":
        return cfgv if pep_key(best) <= pep_key(cfgv) else best
    return best


def real_valid(vp, tag, today):
    r = impl.parse_version(tag, vp, today)
    return "ok" in r


def show_case(rng, scope):
    vp, old, new, flags, d2 = projgen.gen_states(rng)
    tree = refimpl.tokenize(vp)
    cfgv = refimpl.render(tree, old)
    # a git tag name cannot contain blanks (and bumpver splits the listing on blanks): what the fake git serves IS the split list
    tags = [x for t in gen_tagset(rng, vp, tree, old) for x in t.split()]
    today = [2026, 9, 29]
    case = {"vp": vp, "config_version": cfgv, "tags": tags, "scope": scope}
    rx = re.compile(refimpl.ref_regex(tree))
    # independent validity: reference regex full match + the real date check (dates are C14's model; here: datetime)
    valid = []
    for t in tags:
        if rx.fullmatch(t) and _date_ok(tree, t):
            valid.append(t)
    want = expected_start(scope, cfgv, valid)
    with sandbox.Project("c09") as p:
        p.write_text("bumpver.toml", '[bumpver]\ncurrent_version = %s\nversion_pattern = %s\ntag_scope = "%s"\n[bumpver.file_patterns]\n"bumpver.toml" = [\'current_version = "{version}"\']\n' % (
            json.dumps(cfgv), json.dumps(vp), scope))
        p.add_fake_vcs("git")
        p.fake_set("tags", "".join(t + "\n" for t in tags))
        p.fake_set("tags_branch", "".join(t + "\n" for t in tags))
        code, out, exc = sandbox.run_cli(["show", "--no-fetch"], p.dir, p.env(), today=dt.date(*today))
    got = None
    for line in out.splitlines():
        if line.startswith("Current Version: "):
            got = line[len("Current Version: "):]
    case.update(exit=code, exc=exc, got=got, want=want, valid=valid)
    # git's tag listing strips/skips blank lines and bumpver splits on blanks: tags with blanks or empty are not representable
    if code != 0:
        return case, "`bumpver show` failed (exit %s %s) with tags %r" % (code, exc, tags)
    if got != want and pep_key(got) != pep_key(want):
        return case, "`bumpver show` (scope %s) reports %r, the greatest matching tag / config value is %r (config %r, matching tags %r)" % (scope, got, want, cfgv, valid)
    return case, None


def update_case(rng, mode):
    """the new version never equals an existing tag on any branch"""
    vp, old, new, flags, d2 = projgen.gen_states(rng)
    tree = refimpl.tokenize(vp)
    cfgv, newv = refimpl.render(tree, old), refimpl.render(tree, new)
    scope = {"default": "default", "ignore": "default", "branch": "branch", "setversion": "default"}[mode]
    tags_global = [newv]
    tags_branch = [] if mode == "branch" else tags_global
    case = {"kind": "update", "mode": mode, "vp": vp, "config_version": cfgv, "tags": tags_global, "branch_tags": tags_branch}
    args = ["update", "--no-fetch"] + projgen.cli_flags({"date": [d2.year, d2.month, d2.day], "flags": flags})
    if mode == "ignore":
        args.append("--ignore-vcs-tag")
    if mode == "setversion":
        args = ["update", "--no-fetch", "--ignore-vcs-tag", "--set-version", newv]
    with sandbox.Project("c09u") as p:
        p.write_text("bumpver.toml", '[bumpver]\ncurrent_version = %s\nversion_pattern = %s\ntag_scope = "%s"\ncommit = false\n[bumpver.file_patterns]\n"bumpver.toml" = [\'current_version = "{version}"\']\n' % (
            json.dumps(cfgv), json.dumps(vp), scope))
        p.add_fake_vcs("git")
        p.fake_set("tags", "".join(t + "\n" for t in tags_global))
        p.fake_set("tags_branch", "".join(t + "\n" for t in tags_branch))
        code, out, exc = sandbox.run_cli(args, p.dir, p.env())
        txt = p.read_bytes("bumpver.toml").decode("utf-8")
    m = re.search(r'current_version = "((?:[^"\\\\]|\\\\.)*)"', txt)
    announced = json.loads('"' + m.group(1) + '"') if m else None
    case.update(exit=code, announced=announced, args=args)
    region = "F-C09-ignore-vcs-tag" if mode == "ignore" else None
    if code == 0 and announced in tags_global:
        return case, "update (%s) exited 0 and set the version to %r, which is an existing tag" % (mode, announced), region
    return case, None, region


def scope_case(rng):
    """the start version of a real `update` under every combination of configured tag_scope and --tag-scope, with a branch tag list
    that differs from the global one: observed as BUMPVER_OLD_VERSION in a pre-commit hook"""
    vp, old, new, flags, d2 = projgen.gen_states(rng)
    tree = refimpl.tokenize(vp)
    cfgv = refimpl.render(tree, old)
    tags = [x for t in gen_tagset(rng, vp, tree, old) for x in t.split()]
    k = rng.randint(0, len(tags))
    tags_branch = sorted(rng.sample(tags, k))
    cfg_scope = rng.choice(["default", "global", "branch"])
    cli_scope = rng.choice([None, "default", "global", "branch"])
    eff = cli_scope or cfg_scope
    rx = re.compile(refimpl.ref_regex(tree))
    valid = lambda ts: [t for t in ts if rx.fullmatch(t) and _date_ok(tree, t)]
    want = expected_start(eff, cfgv, valid(tags_branch if eff == "branch" else tags))
    args = ["update", "--no-fetch", "--commit", "--no-tag-commit", "--no-push", "--pre-commit-hook", "pre_hook.sh"] + projgen.cli_flags({"date": [d2.year, d2.month, d2.day], "flags": flags})
    if cli_scope:
        args += ["--tag-scope", cli_scope]
    case = {"kind": "scope", "vp": vp, "config_version": cfgv, "tags": tags, "branch_tags": tags_branch, "cfg_scope": cfg_scope, "cli_scope": cli_scope, "args": args, "want": want}
    with sandbox.Project("c09s") as p:
        p.write_text("bumpver.toml", '[bumpver]\ncurrent_version = %s\nversion_pattern = %s\ntag_scope = "%s"\ncommit = true\ntag = false\npush = false\n[bumpver.file_patterns]\n"bumpver.toml" = [\'current_version = "{version}"\']\n' % (
            json.dumps(cfgv), json.dumps(vp), cfg_scope))
        p.add_fake_vcs("git")
        p.add_hook("pre_hook.sh")
        p.fake_set("tags", "".join(t + "\n" for t in tags))
        p.fake_set("tags_branch", "".join(t + "\n" for t in tags_branch))
        code, out, exc = sandbox.run_cli(args, p.dir, p.env(), today=dt.date(2026, 9, 29))
        hooks = [a for a in p.fake_log() if a and a[0] == "HOOK"]
    case.update(exit=code, exc=exc)
    if code != 0 or not hooks:
        return case, None, False          # no bump possible from that start version (or rejected): nothing observable
    got = hooks[0][2]
    case["got"] = got
    if got != want and pep_key(got) != pep_key(want):
        return case, ("`bumpver update` (config tag_scope %s, --tag-scope %s) started from %r; the greatest matching tag in scope / config value is %r "
                      "(config %r, tags %r, reachable from HEAD %r)" % (cfg_scope, cli_scope, got, want, cfgv, valid(tags), valid(tags_branch))), True
    return case, None, True


def fetch_fail_case(rng, fail_cmd):
    """a VCS step failing while the tags are collected (fetch from an unreachable remote, the remote probe, the tag listing itself):
    the run either fails, or it starts from what the property prescribes -- it never silently falls back to the config value.
    The newest tag is ahead of the config value, so a silent fallback is observable."""
    vp, old, new, flags, d2 = projgen.gen_states(rng)
    tree = refimpl.tokenize(vp)
    cfgv, newv = refimpl.render(tree, old), refimpl.render(tree, new)
    tags = [x for t in gen_tagset(rng, vp, tree, old) for x in t.split()] + [newv]
    scope = rng.choice(["default", "global", "branch"])
    rx = re.compile(refimpl.ref_regex(tree))
    valid = [t for t in tags if rx.fullmatch(t) and _date_ok(tree, t)]
    want = expected_start(scope, cfgv, valid)
    case = {"kind": "fetch-fail", "vp": vp, "config_version": cfgv, "tags": tags, "scope": scope, "fail_cmd": fail_cmd, "want": want}
    with sandbox.Project("c09f") as p:
        p.write_text("bumpver.toml", '[bumpver]\ncurrent_version = %s\nversion_pattern = %s\ntag_scope = "%s"\n[bumpver.file_patterns]\n"bumpver.toml" = [\'current_version = "{version}"\']\n' % (
            json.dumps(cfgv), json.dumps(vp), scope))
        p.add_fake_vcs("git")
        p.fake_set("branches", "* main 1a2b3c4 [origin/main] msg\n")
        p.fake_set("remote_url", "https://example.invalid/x.git\n")
        p.fake_set("tags", "".join(t + "\n" for t in tags))
        p.fake_set("tags_branch", "".join(t + "\n" for t in tags))
        p.fake_set("fail_cmd", fail_cmd)
        code, out, exc = sandbox.run_cli(["show"], p.dir, p.env(), today=dt.date(2026, 9, 29))
    got = None
    for line in out.splitlines():
        if line.startswith("Current Version: "):
            got = line[len("Current Version: "):]
    case.update(exit=code, exc=exc, got=got, valid=valid)
    if code != 0 or got is None:
        return case, None, False         # the failure is reported: nothing was resolved
    if got != want and pep_key(got) != pep_key(want):
        return case, ("`bumpver show` with a failing `git %s` exits 0 and reports %r; the greatest matching tag in scope / config value is %r "
                      "(config %r, matching tags %r): the tags were silently ignored" % (fail_cmd, got, want, cfgv, valid)), True
    return case, None, True


def _date_ok(tree, text):
    """does the text denote a possible calendar date (when the pattern shows year+month+day or year+day-of-year)?"""
    parts = refimpl.parts_of(tree)
    rx = ""
    # read the fields back with the reference regex, with named groups
    def build(t):
        out = ""
        for kind, x in t:
            if kind == "lit":
                out += re.escape(x)
            elif kind == "part":
                out += "(?P<%s>%s)" % (refimpl.PART_FIELD[x], refimpl.PART_RE[x])
            else:
                out += "(?:" + build(x) + ")?"
        return out
    m = re.fullmatch(build(tree), text)
    if not m:
        return False
    g = {k: v for k, v in m.groupdict().items() if v is not None}
    try:
        if "year_y" in g:
            y = int(g["year_y"])
            if y < 1000:
                y += 2000
            if "doy" in g and int(g["doy"]) > 0:
                dt.date(y, 1, 1) + dt.timedelta(days=int(g["doy"]) - 1)
            elif "month" in g and "dom" in g:
                dt.date(y, int(g["month"]), int(g["dom"]))
    except (ValueError, OverflowError):
        return False
    return True


def corr_ops(rng, n):
    ops = []
    for _ in range(n):
        vp, old, new, flags, d2 = projgen.gen_states(rng)
        tree = refimpl.tokenize(vp)
        cfgv = refimpl.render(tree, old)
        tags = [t for t in gen_tagset(rng, vp, tree, old)]
        today = [2026, 9, 29]
        ops.append({"op": "latest_tag", "pattern": vp, "tags": tags, "today": today})
        ops.append({"op": "start_version", "pattern": vp, "config_version": cfgv, "tags": tags, "scope": rng.choice(["default", "global", "branch"]), "today": today})
        cand = rng.choice(tags + [refimpl.render(tree, new), cfgv, "junk"]) if True else cfgv
        ops.append({"op": "gate", "pattern": vp, "old": cfgv, "new": cand, "unique": rng.random() < 0.5, "tags": tags, "today": today})
    return ops


def _impl(o):
    if o["op"] == "latest_tag":
        return impl.latest_tag(o["pattern"], o["tags"], o["today"])
    if o["op"] == "start_version":
        return impl.start_version(o["scope"], o["pattern"], o["config_version"], o["tags"], o["today"])
    return impl.gate(o["pattern"], o["old"], o["new"], o["unique"], o["tags"], o["today"])


def run(chk, driver, tier):
    rng = chk.rng
    n = 6000 if tier == "thorough" else 400
    chk.extra["rule"] = ("tag sets of 0..13 tags: valid versions of the pattern (incl. PEP 440-equal spellings), versions of other schemes, junk, calendar-impossible dates; "
                         "three scopes; config version below/equal/above; ops latest_tag/start_version/gate; oracle via `bumpver show` with a fake git; non-trivial = distinct op/case")
    chk.correspond(corr_ops(rng, n), _impl, driver)
    chk.disagreements = [b for b in chk.disagreements if "unsupported" not in b["impl"]]
    for i in range(n // 4):
        case, verdict = show_case(rng, ["default", "global", "branch"][i % 3])
        chk.count("scope:" + case["scope"])
        chk.count("valid_tags:%d" % min(len(case.get("valid", [])), 5))
        chk.oracle_case(case, verdict)
    for i in range(n // 4):
        case, verdict, observed = scope_case(rng)
        chk.count("scope_case:%s/%s:%s" % (case["cfg_scope"], case["cli_scope"], "observed" if observed else "no-bump"))
        chk.oracle_case(case, verdict)
    for i in range(max(12, n // 16)):
        fc = ["fetch", "-vv", "--list", "--get"][i % 4]
        case, verdict, observed = fetch_fail_case(rng, fc)
        chk.count("fetch_fail:%s:%s" % (fc, "resolved" if observed else "reported"))
        chk.oracle_case(case, verdict)
    known = {f["id"]: f for f in load_known_findings("C09") if f.get("status") == "open"}
    seen = None
    for i in range(n // 8):
        mode = ["default", "ignore", "branch", "setversion"][i % 4]
        case, verdict, region = update_case(rng, mode)
        chk.count("update:" + mode)
        if verdict and region in known:
            seen = case
        chk.oracle_case(case, verdict, region if region in known else None)
    lines = []
    if seen:
        lines.append("F-C09-ignore-vcs-tag: %s (witness: config %r, existing tag %r, `bumpver %s` exit 0)" % (
            known["F-C09-ignore-vcs-tag"]["summary"], seen["config_version"], seen["announced"], " ".join(seen["args"])))
    # the repaired D7 witness stays repaired
    r = impl.latest_tag("vYYYY.0M.0D", ["v2021.02.30", "v2021.02.28"], [2026, 9, 29])
    chk.oracle_case({"kind": "impossible-date-tag"}, None if r == {"ok": "v2021.02.28"} else "a calendar-impossible tag breaks tag resolution: %r" % (r,))
    # the same for a legacy pattern (tags that match the regex but are no calendar date must simply not match)
    r1 = impl.latest_tag("{year}.{month}.{dom}", ["2021.02.30", "2021.02.28", "junk"], [2026, 9, 29])
    chk.oracle_case({"kind": "impossible-date-tag-legacy"}, None if r1 == {"ok": "2021.02.28"} else
                    "a calendar-impossible tag breaks tag resolution for the legacy pattern {year}.{month}.{dom}: %r" % (r1,))
    return lines


def search(chk, driver, tier):
    rng = chk.rng
    for i in range(1500):
        case, verdict = show_case(rng, ["default", "global", "branch"][i % 3])
        chk.oracle_case(case, verdict)
        case, verdict, observed = scope_case(rng)
        chk.oracle_case(case, verdict)
        if chk.violations:
            return


def replay(payload):
    return "re-run ./check C09 (seed %s)" % payload.get("seed")
