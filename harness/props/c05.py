"""C05 — bump semantics follow the documented part rules."""
import datetime as dt
import impl_adapter as impl
import gen, refimpl, sandbox
from common import load_known_findings

NOTE = ("Theorems C05_* (Props/C05.lean) about BV.incr / incrNumeric / resetRolloverFields / formatVersion; "
        "tie: ops parse/format/pattern_fields/incr vs v2version; oracle: an independent reference reading of the README rules "
        "(harness/refimpl.py) predicts the exact new version string for WF patterns x boundary values x 2^7 flag sets x date offsets, "
        "also through `bumpver test`.")


def gen_flags(rng):
    return {"major": rng.random() < 0.2, "minor": rng.random() < 0.2, "patch": rng.random() < 0.25,
            "tag": rng.choice([None, None, None] + gen.TAGS), "tag_num": rng.random() < 0.2,
            "pin_increments": rng.random() < 0.2, "pin_date": rng.random() < 0.15}


def date_offset(rng, d):
    k = rng.choice([0, 0, 1, 7, 31, 92, 366, -1, -40, -400, rng.randint(-400, 4000)])
    try:
        r = d + dt.timedelta(days=k)
        if r.year < 1000:
            return d
        return r
    except OverflowError:
        return d


def ymd(d):
    return [d.year, d.month, d.day]


def corr_ops(rng, n):
    ops = []
    for _ in range(n):
        pat = gen.gen_any_pattern(rng)
        d = gen.gen_date(rng)
        today = gen.gen_date(rng)
        st = {"date": ymd(d), "major": gen.gen_nat(rng), "minor": gen.gen_nat(rng), "patch": gen.gen_nat(rng),
              "bid": gen.gen_bid(rng), "tag": rng.choice(gen.TAGS), "num": gen.gen_nat(rng), "inc0": gen.gen_nat(rng), "inc1": max(1, gen.gen_nat(rng))}
        if st["tag"] == "final":
            st["num"] = 0
        vj = impl.vinfo_json(impl.make_vinfo(st))
        ops.append({"op": "format", "vinfo": vj, "pattern": pat})
        ops.append({"op": "pattern_fields", "pattern": pat})
        f = impl.format_vinfo(vj, pat)
        if "ok" in f:
            v = f["ok"]
            ops.append({"op": "parse", "version": v, "pattern": pat, "today": ymd(today)})
            o = {"op": "incr", "version": v, "pattern": pat, "date": ymd(date_offset(rng, d)), "today": ymd(today)}
            o.update(gen_flags(rng))
            ops.append(o)
            if v:
                i = rng.randrange(len(v))
                ops.append({"op": "parse", "version": v[:i] + rng.choice("09a.-x") + v[i + 1:], "pattern": pat, "today": ymd(today)})
    return ops


def run_impl(o):
    k = o["op"]
    if k == "format":
        return impl.format_vinfo(o["vinfo"], o["pattern"])
    if k == "pattern_fields":
        return impl.pattern_fields(o["pattern"])
    if k == "parse":
        r = impl.parse_version(o["version"], o["pattern"], o["today"])
        return r
    if k == "incr":
        return impl.incr(o["version"], o["pattern"], o, o["date"], o["today"])
    raise KeyError(k)


def corr_filter(chk, ops, driver):
    """model 'unsupported' and impl re.error (outside the regex fragment) are not compared"""
    def f(o):
        r = run_impl(o)
        if r.get("err") in ("re.error", "unsupported-by-model"):
            return {"unsupported": 1}
        return r
    outs_impl = []
    bad = chk.correspond(ops, f, driver)
    # an impl-side unsupported shows as disagreement: drop those
    keep = [b for b in bad if "unsupported" not in b["impl"]]
    dropped = len(bad) - len(keep)
    if dropped:
        chk.disagreements = [b for b in chk.disagreements if "unsupported" not in b["impl"]]
        chk.unsupported += dropped
    return keep


def week53_region(tree, date_new):
    """known finding F-C02-week53: %W/%U give 53 but WW/0W/UU/0U only recognise 0..52"""
    parts = refimpl.parts_of(tree)
    c = refimpl.cal_of(date_new)
    if any(p in parts for p in ("WW", "0W")) and c["week_w"] == 53:
        return "F-C02-week53"
    if any(p in parts for p in ("UU", "0U")) and c["week_u"] == 53:
        return "F-C02-week53"
    return None


def oracle_case(rng):
    """one bump judged against the reference reading of the README rules"""
    pat = gen.gen_pattern(rng, True)
    tree = refimpl.tokenize(pat)
    d = gen.gen_date(rng, dt.date(1000, 1, 1), dt.date(9990, 12, 31))
    if any(p in refimpl.parts_of(tree) for p in ("YY", "0Y", "GG", "0G")):
        d = d.replace(year=2001 + d.year % 98, day=min(d.day, 28))
    st = refimpl.gen_state(rng, tree, d, gen)
    old = refimpl.render(tree, st)
    flags = gen_flags(rng)
    d2 = date_offset(rng, d)
    if any(p in refimpl.parts_of(tree) for p in ("YY", "0Y", "GG", "0G")) and not (2001 <= d2.year <= 2098):
        d2 = d
    today = gen.gen_date(rng)
    case = {"pattern": pat, "old": old, "state": {k: v for k, v in st.items()}, "flags": flags, "date": ymd(d2), "today": ymd(today)}
    got = impl.incr(old, pat, flags, ymd(d2), ymd(today))
    # expected
    if not old:
        return case, None, None
    if flags["pin_date"]:
        pass
    new = refimpl.bump(tree, st, flags, d2)
    nb = refimpl.next_bid(st["bid"])
    if nb is None:
        exp = {"err": "OverflowError"}
    else:
        new["bid"] = nb
        no_tag_for_num = flags["tag_num"] and not flags["tag"] and st["tag"] == "final"
        s = refimpl.render(tree, new)
        exp = {"ok": None if (no_tag_for_num or s == old or s == "") else s}
    case["expected"] = exp
    case["got"] = got
    region = week53_region(tree, d2) or week53_region(tree, d)
    if got != exp:
        return case, "incr(%r, %r, %s, date=%s) = %r, the README rules give %r" % (old, pat, {k: v for k, v in flags.items() if v}, d2, got, exp), region
    return case, None, region


def cli_case(rng):
    """the same through `bumpver test`"""
    case, _v, region = oracle_case(rng)
    if "expected" not in case:
        return case, None, None
    fl = case["flags"]
    pat, old = case["pattern"], case["old"]
    args = ["test", old, pat, "--date", "%04d-%02d-%02d" % tuple(case["date"])]
    if fl["pin_date"]:
        args = ["test", old, pat, "--pin-date"]
    for k in ("major", "minor", "patch"):
        if fl[k]:
            args.append("--" + k)
    if fl["tag"]:
        args += ["--tag", fl["tag"]]
    if fl["tag_num"]:
        args.append("--tag-num")
    if fl["pin_increments"]:
        args.append("--pin-increments")
    # flags not applicable to the pattern are rejected by the CLI before the bump
    if any(fl[k] and k.upper() not in pat for k in ("major", "minor", "patch")):
        return case, None, None
    code, out, exc = sandbox.run_cli(args, "/", today=dt.date(*case["today"]))
    case["cli"] = {"args": args, "exit": code, "out": out}
    exp = case["expected"]
    ann = None
    for line in out.splitlines():
        if line.startswith("New Version: "):
            ann = line[len("New Version: "):]
    if code == 0:
        if exp.get("ok") != ann:
            return case, "`bumpver %s` announced %r, the README rules give %r" % (" ".join(args), ann, exp), region
    return case, None, region


def run(chk, driver, tier):
    rng = chk.rng
    n = 20000 if tier == "thorough" else 1200
    chk.extra["rule"] = ("patterns from the documented grammar (70% uniquely readable, 20% ambiguous, 10% malformed) x boundary-biased values x random flag sets x date offsets "
                         "(same day, later, across month/year, earlier); ops format/pattern_fields/parse/incr; oracle: reference reading of the README rules on uniquely readable patterns; "
                         "non-trivial = distinct op line / case")
    corr_filter(chk, corr_ops(rng, n), driver)
    known = {f["id"]: f for f in load_known_findings("C05") if f.get("status") == "open"}
    for _ in range(n * 2):
        case, verdict, region = oracle_case(rng)
        chk.count("oracle:" + ("changed" if case.get("expected", {}).get("ok") else "none"))
        chk.oracle_case(case, verdict, region if region in known else None)
    for _ in range(n // 6):
        case, verdict, region = cli_case(rng)
        chk.count("cli")
        chk.oracle_case(case, verdict, region if region in known else None)
    lines = []
    if "F-C02-week53" in known:
        r = impl.incr("v2018.52", "vYYYY.WW", {"major": False, "minor": False, "patch": False, "tag": None, "tag_num": False,
                                                "pin_increments": False, "pin_date": False}, [2018, 12, 31], [2018, 12, 31])
        f53 = impl.format_version({"date": [2018, 12, 31]}, "vYYYY.WW")
        if f53.get("ok") == "v2018.53" and impl.parse_version("v2018.53", "vYYYY.WW", [2018, 12, 31]).get("err") == "PatternError":
            lines.append("F-C02-week53: %s (witness: format_version gives v2018.53 on 2018-12-31, its own pattern rejects it; incr = %r)" % (known["F-C02-week53"]["summary"][:120], r.get("ok")))
    return lines


def search(chk, driver, tier):
    rng = chk.rng
    known = {f["id"]: f for f in load_known_findings("C05") if f.get("status") == "open"}
    for _ in range(60000):
        case, verdict, region = oracle_case(rng)
        chk.oracle_case(case, verdict, region if region in known else None)
        if chk.violations:
            return


def replay(payload):
    c = payload["case"]
    got = impl.incr(c["old"], c["pattern"], c["flags"], c["date"], c["today"])
    if got != c.get("expected"):
        return "incr(%r, %r) = %r, the README rules give %r" % (c["old"], c["pattern"], got, c.get("expected"))
    return None
