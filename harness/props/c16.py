"""C16 — version comparison is a total order that agrees with PEP 440."""
import os, sys, itertools
sys.path.insert(0, os.path.join(os.path.dirname(os.path.dirname(os.path.abspath(__file__))), "dev"))
import impl_adapter as impl
import pep440_difftest as pd

NOTE = ("Theorems C16_* (Props/C16.lean): total preorder on ALL parsed values, agreement with an independently written PEP 440 spec, canonical printing "
        "round trip, legacy below PEP 440. Tie: ops pep_parse/pep_str/pep_cmp vs setuptools_v65_version on generated PEP 440 strings (epochs, pre/post/dev/local, "
        "alternate spellings, separators, leading zeros, case, whitespace), legacy strings and malformed text; oracle on the implementation: order laws on pairs "
        "and triples, agreement with `packaging` 26.3 on PEP 440-valid strings, legacy below.")


def _impl(o):
    if o["op"] == "pep_parse":
        return pd.py_parse(o["s"])
    if o["op"] == "pep_str":
        return pd.py_str(o["s"])
    if o["op"] == "pep_groups":
        # the groups of the REAL regular expression (IGNORECASE: spelling lower-cased, as the model's matcher does)
        from bumpver import setuptools_v65_version as sv
        if any(ord(c) > 127 for c in o["s"]):
            return {"unsupported": 1}
        m = sv.Version._regex.search(o["s"])
        if m is None:
            return {"ok": None}
        low = lambda x: None if x is None else x.lower()
        return {"ok": {k: low(m.group(k)) for k in ("epoch", "release", "pre_l", "pre_n", "post_n1", "post_l", "post_n2", "dev_l", "dev_n", "local")}}
    return pd.py_cmp(o["a"], o["b"])


def run(chk, driver, tier):
    rng = chk.rng
    ns, npairs = (60000, 120000) if tier == "thorough" else (4000, 8000)
    chk.extra["rule"] = ("strings from a PEP 440 grammar generator (valid, alternate spellings, near misses), bumpver-style legacy strings, random ASCII and token soup; "
                         "pairs: random, respellings, one-character perturbations; triples for transitivity; non-trivial = distinct op line")
    strings = [pd.gen_string(rng) for _ in range(ns)]
    pool = strings[:2000]
    pairs = [pd.gen_pair(rng, pool) for _ in range(npairs)]
    ops = []
    for s in strings:
        ops.append({"op": "pep_parse", "s": s})
        ops.append({"op": "pep_str", "s": s})
        ops.append({"op": "pep_groups", "s": s})      # hypothesis SearchOk of the Version.__init__ ties: the model's matcher = VERSION_PATTERN
    for a, b in pairs:
        ops.append({"op": "pep_cmp", "a": a, "b": b})
    chk.correspond(ops, _impl, driver)
    # --- oracle on the implementation
    from bumpver import version as bv
    try:
        import packaging.version as pv
    except Exception:
        pv = None
    # a full grid of suffix combinations over one release: every phase PEP 440 orders (dev only, pre, pre+dev, pre+post, final, post, post+dev, local …)
    grid = []
    for rel in ("1.0", "2.5.0"):
        for pre in ("", "a1", "b2", "rc1"):
            for post in ("", ".post1", ".post3"):
                for dev in ("", ".dev2"):
                    for loc in ("", "+abc", "+1"):
                        grid.append(rel + pre + post + dev + loc)
    # numeric fields on either side of digit-count boundaries, in every position (epoch, release, pre, post, dev, local segments)
    for t in pd.BOUND_TEMPLATES:
        for x in ('9', '10', '99999999', '100000000', '99999999999999999999', '100000000000000000000'):
            grid.append(t % tuple([x] * t.count('%s')))
    sample = grid + [s for s in strings if all(ord(c) < 128 for c in s)][:400 if tier == "thorough" else 150]
    # the comparison has to be DEFINED on every string: a string parse_version cannot take is a violation by itself
    parsed, ok_sample = [], []
    for s in sample:
        try:
            p = bv.parse_version(s)
            p <= p
        except Exception as ex:            # noqa: BLE001
            chk.oracle_case({"kind": "single", "s": s}, "parse_version / comparison raises %s on %r: the order is not total on all strings" % (type(ex).__name__, s))
            continue
        parsed.append(p)
        ok_sample.append(s)
    sample = ok_sample
    for i, (s, p) in enumerate(zip(sample, parsed)):
        verdict = None
        if not (p <= p and p >= p and p == p):
            verdict = "not reflexive on %r" % s
        is_pep = type(p).__name__ == "Version"
        if pv is not None and verdict is None:
            try:
                q = pv.Version(s)
                if not is_pep:
                    verdict = "%r is PEP 440-valid for packaging but parsed as legacy" % s
                elif str(q) != str(p):
                    verdict = "%r prints as %r, packaging prints %r" % (s, str(p), str(q))
            except pv.InvalidVersion:
                if is_pep:
                    verdict = "%r is not PEP 440 for packaging but parsed as Version %r" % (s, str(p))
        chk.oracle_case({"kind": "single", "s": s}, verdict)
    n = len(sample)
    ng = min(len(grid), n)
    triples = [(i, j, (i * 7 + j * 13) % ng) for i in range(ng) for j in range(ng) if (i + j) % (1 if tier == "thorough" else 3) == 0]
    triples += [(rng.randrange(n), rng.randrange(n), rng.randrange(n)) for _ in range(40000 if tier == "thorough" else 6000)]
    for i, j, k in triples:
        a, b, c = parsed[i], parsed[j], parsed[k]
        verdict = None
        if not (a <= b or b <= a):
            verdict = "not total: %r vs %r" % (sample[i], sample[j])
        elif a <= b and b <= c and not a <= c:
            verdict = "not transitive: %r <= %r <= %r" % (sample[i], sample[j], sample[k])
        elif (a <= b and b <= a) != (a._key == b._key):
            verdict = "equality is not key equality: %r vs %r" % (sample[i], sample[j])
        elif (a < b) != (a <= b and not b <= a):
            verdict = "< is not the strict part of <=: %r vs %r" % (sample[i], sample[j])
        else:
            la, lb = type(a).__name__ == "LegacyVersion", type(b).__name__ == "LegacyVersion"
            if la and not lb and not a < b:
                verdict = "legacy %r is not below PEP 440 %r" % (sample[i], sample[j])
            elif pv is not None and not la and not lb:
                qa, qb = pv.Version(sample[i]), pv.Version(sample[j])
                if (a < b) != (qa < qb) or (a == b) != (qa == qb):
                    verdict = "order of %r and %r differs from packaging" % (sample[i], sample[j])
        chk.oracle_case({"kind": "triple", "a": sample[i], "b": sample[j], "c": sample[k]}, verdict)
    return []


def search(chk, driver, tier):
    return


def replay(payload):
    return "re-run ./check C16 (seed %s)" % payload.get("seed")
