"""C10 — VCS steps run only as configured, in order, and stop at the first failure."""
import os, json
import impl_adapter as impl
import sandbox

NOTE = ("Theorems C10_* (Props/C10.lean) about BV.plan (Model/Plan.lean) for ALL flag/config combinations, file lists and failure positions; "
        "tie: op plan vs real `bumpver update` runs with fake git/hg (argv log, hook markers with env vars, rewrite position probe), failure injected at each command in turn.")

GIT_NAMES = {
    ("rev-parse", "--git-dir"): "is_usable", ("fetch",): "fetch", ("tag", "--list"): "ls_tags", ("tag", "--list", "--merged"): "ls_tags_branch",
    ("status", "--porcelain"): "status", ("config", "--get", "remote.origin.url"): "show_remotes", ("branch", "-vv"): "ls_branches",
}
HG_NAMES = {("root",): "is_usable", ("pull",): "fetch", ("tags",): "ls_tags", ("status", "-umard"): "status", ("paths",): "show_remotes"}


def classify(argv):
    name, rest = argv[0], tuple(argv[1:])
    if name == "HOOK":
        return ("pre_hook" if argv[1].startswith("pre") else "post_hook") + ":" + argv[2] + ":" + argv[3]
    if name == "git":
        if rest in GIT_NAMES:
            return GIT_NAMES[rest]
        if rest[:2] == ("status", "--porcelain"):
            return "status"                    # whatever listing options follow
        if rest[:2] == ("add", "--update"):
            return "add:" + rest[2]
        if rest[:1] == ("commit",):
            return "commit"
        if rest[:2] == ("tag", "--annotate"):
            return "tag"
        if rest[:1] == ("tag",) and len(rest) == 2:
            return "tag_light"
        if rest[:1] == ("push",):
            return "push_tag" if "--follow-tags" in rest else "push"
    if name == "hg":
        if rest in HG_NAMES:
            return HG_NAMES[rest]
        if rest[:1] == ("log",):
            return "ls_tags_branch"
        if rest[:1] == ("add",):
            return "add:" + rest[1]
        if rest[:1] == ("commit",):
            return "commit"
        if rest[:1] == ("tag",):
            return "tag" if "--message" in rest else "tag_light"
        if rest[:1] == ("push",):
            return "push_tag" if len(rest) == 2 else "push"
    return "?" + " ".join(argv)


def gen_scenario(rng):
    tri = lambda: rng.choice([None, None, True, False])
    hook = lambda: rng.choice(["absent", "absent", "ok", "fail"])
    sc = {
        "op": "plan",
        "kind": rng.choice(["git", "git", "hg"]),
        "cfg_commit": rng.random() < 0.75, "cfg_tag": rng.random() < 0.5, "cfg_push": rng.random() < 0.5,
        "commit": tri(), "tag_commit": tri(), "push": tri(),
        "pre": hook(), "post": hook(), "pre_via_cli": rng.random() < 0.3, "post_via_cli": rng.random() < 0.3,
        # HOW a failing hook ends (not seen by the model: any failure is a failure): exit statuses and death by a signal
        "fail_mode": rng.choice(["exit7", "exit1", "exit255", "exit126", "term", "kill", "segv"]),
        "cfg_branch": rng.random() < 0.2, "cli_branch": rng.choice([None, None, None, True, False]),
        "tag_msg_empty": rng.random() < 0.4,
        "dry": rng.random() < 0.2, "fetch": rng.random() < 0.5, "ignore_vcs_tag": rng.random() < 0.25,
        "set_version": rng.random() < 0.2,
        "vcs_present": rng.random() < 0.9,
        "remote": rng.choice(["branch", "url", "none"]),
        "dirty": rng.random() < 0.3, "allow_dirty": rng.random() < 0.5,
        "gate_ok": rng.random() < 0.9, "unique_ok": rng.random() < 0.85, "rewrite_ok": rng.random() < 0.9,
        "fail_at": rng.choice([None, None] + list(range(0, 16))),
        # the config file is BEHIND the newest tag (a checkout of an older branch): the update starts from the tag, and that — not the
        # config value — is the old version the hooks have to see
        "cfg_behind": rng.random() < 0.3,
        "nfiles": rng.randint(1, 3),
        # a NESTED run (the update is itself started by another project's hook): BUMPVER_OLD_VERSION / BUMPVER_NEW_VERSION of the outer run
        # are in the process environment and must not reach this run's hooks
        "nested": rng.random() < 0.3,
        # WHICH file the status listing names when the tree is dirty: an unrelated file, or the config file itself (a file that carries a
        # version pattern: then even --allow-dirty must stop the run before anything is written)
        "dirty_pattern_file": rng.random() < 0.4,
    }
    # config-level consistency (the config reader rejects tag/push without commit: a different code path)
    if not sc["cfg_commit"]:
        sc["cfg_tag"] = sc["cfg_push"] = False
    if sc["kind"] == "hg" and sc["remote"] == "branch":
        sc["remote"] = "url"
    # the uniqueness check only runs (and can only fail independently of the start version) for
    # branch scope, or for --set-version together with --ignore-vcs-tag
    if sc["ignore_vcs_tag"] or not sc["vcs_present"] or sc["fail_at"] is not None:
        sc["cfg_behind"] = False
    eff_branch = sc["cfg_branch"] if sc["cli_branch"] is None else sc["cli_branch"]
    if not (eff_branch or (sc["ignore_vcs_tag"] and sc["set_version"])):
        sc["unique_ok"] = True
    return sc


def model_op(sc):
    """the op line for the model: same scenario, abstract environment"""
    files = sorted(["bumpver.toml"] + ["f%d.txt" % i for i in range(1, sc["nfiles"])])
    uniq_checked_ok = sc["unique_ok"]
    return {
        "op": "plan", "kind": sc["kind"],
        "cfg_commit": sc["cfg_commit"], "cfg_tag": sc["cfg_tag"], "cfg_push": sc["cfg_push"],
        "cfg_pre": sc["pre"] != "absent" and not sc["pre_via_cli"], "cfg_post": sc["post"] != "absent" and not sc["post_via_cli"],
        "cli_pre": sc["pre"] != "absent" and sc["pre_via_cli"], "cli_post": sc["post"] != "absent" and sc["post_via_cli"],
        "cfg_branch": sc["cfg_branch"], "cli_branch": sc["cli_branch"], "tag_msg_empty": sc["tag_msg_empty"],
        "commit": sc["commit"], "tag_commit": sc["tag_commit"], "push": sc["push"],
        "dry": sc["dry"], "fetch": sc["fetch"], "ignore_vcs_tag": sc["ignore_vcs_tag"], "set_version": sc["set_version"],
        "vcs_present": sc["vcs_present"], "fail_at": sc["fail_at"],
        "branch_remote": sc["remote"] == "branch", "url_remote": sc["remote"] == "url",
        "dirty_abort": sc["dirty"] and (not sc["allow_dirty"] or bool(sc.get("dirty_pattern_file"))),
        "gate_ok": sc["gate_ok"], "unique_ok": uniq_checked_ok, "rewrite_ok": sc["rewrite_ok"],
        "pre_ok": sc["pre"] != "fail", "post_ok": sc["post"] != "fail", "files": files,
    }


def run_impl(sc):
    """the same scenario on the real `bumpver update`; returns {"trace": [...], "exit": n} plus observations"""
    files = ["bumpver.toml"] + ["f%d.txt" % i for i in range(1, sc["nfiles"])]
    with sandbox.Project("c10") as pr:
        cfg = ['[bumpver]', 'current_version = "%s"' % ("1.2.1" if sc.get("cfg_behind") else "1.2.3"), 'version_pattern = "MAJOR.MINOR.PATCH"',
               'commit = %s' % str(sc["cfg_commit"]).lower(), 'tag = %s' % str(sc["cfg_tag"]).lower(), 'push = %s' % str(sc["cfg_push"]).lower(),
               'tag_message = "%s"' % ("" if sc["tag_msg_empty"] else "release {new_version}"),
               'tag_scope = "%s"' % ("branch" if sc["cfg_branch"] else "default")]
        args = ["update"]
        for which in ("pre", "post"):
            if sc[which] != "absent":
                name = "%s_hook.sh" % which
                if sc[which + "_via_cli"]:
                    args += ["--%s-commit-hook" % which, name]
                else:
                    cfg.append('%s_commit_hook = "%s"' % (which, name))
        cfg.append("[bumpver.file_patterns]")
        cfg.append('"bumpver.toml" = [\'current_version = "{version}"\']')
        for f in files[1:]:
            cfg.append('"%s" = ["{version}"]' % f)
        pr.write_text("bumpver.toml", "\n".join(cfg) + "\n")
        for i, f in enumerate(files[1:]):
            bad = (not sc["rewrite_ok"]) and i == len(files) - 2
            pr.write_text(f, "nothing here\n" if bad else "v 1.2.3\n")
        if not sc["rewrite_ok"] and len(files) == 1:
            # only the config file is configured: make its own pattern fail by an extra non-matching pattern
            txt = pr.read_bytes("bumpver.toml").decode().replace('"bumpver.toml" = [\'current_version = "{version}"\']',
                                                                 '"bumpver.toml" = [\'current_version = "{version}"\', \'nomatch {version}\']')
            pr.write_text("bumpver.toml", txt)
        if sc["vcs_present"]:
            pr.add_fake_vcs(sc["kind"])
        else:
            pr.add_fake_vcs(sc["kind"])
            pr.drop_vcs_marker(sc["kind"])
        for which in ("pre", "post"):
            if sc[which] != "absent":
                pr.add_hook("%s_hook.sh" % which, fail=(sc[which] == "fail"), mode=sc.get("fail_mode", "exit7"))
        if sc["remote"] == "branch":
            pr.fake_set("branches", "* main 1a2b3c4 [origin/main] msg\n  other 99aa [up/other] x\n")
        else:
            pr.fake_set("branches", "* main 1a2b3c4 msg\n")
        if sc["remote"] == "url":
            pr.fake_set("remote_url", "default = https://example.invalid/x\n" if sc["kind"] == "hg" else "https://example.invalid/x.git\n")
        if sc["dirty"]:
            dirty_name = "bumpver.toml" if sc.get("dirty_pattern_file") else "unrelated.txt"
            pr.fake_set("status", (" M %s\n" if sc["kind"] == "git" else "M %s\n") % dirty_name)
        new = "1.2.4"
        if sc["set_version"]:
            args += ["--set-version", new if sc["gate_ok"] else "1.2.2"]
        elif sc["gate_ok"]:
            args += ["--patch"]
        # gate_ok false and no --set-version: no flag on a SemVer pattern -> "version did not change"
        tags = ["1.0.0", "1.2.3"]
        if not sc["unique_ok"]:
            tags.append(new)
        pr.fake_set("tags", "\n".join(tags) + "\n")
        pr.fake_set("tags_branch", "1.0.0\n1.2.3\n")
        if sc["fail_at"] is not None:
            pr.fake_set("fail_at", str(sc["fail_at"] + 1))
        for k in ("commit", "tag_commit", "push"):
            if sc[k] is not None:
                args.append("--%s%s" % ("" if sc[k] else "no-", k.replace("_", "-")))
        if sc["cli_branch"] is not None:
            args += ["--tag-scope", "branch" if sc["cli_branch"] else "default"]
        if sc["dry"]:
            args.append("--dry")
        if sc["allow_dirty"]:
            args.append("--allow-dirty")
        args.append("--fetch" if sc["fetch"] else "--no-fetch")
        if sc["ignore_vcs_tag"]:
            args.append("--ignore-vcs-tag")
        pr.fake_probe("bumpver.toml", 'current_version = "%s"' % new)
        before = pr.snapshot()
        env = pr.env()
        if sc.get("nested"):
            # the update runs inside ANOTHER project's hook (a nested run): the ambient BUMPVER_* variables are the outer run's
            env["BUMPVER_OLD_VERSION"], env["BUMPVER_NEW_VERSION"] = "7.0.0", "7.0.1"
        code, out, exc = sandbox.run_cli(args, pr.dir, env)
        after = pr.snapshot()
        log = pr.fake_log()
        wlog = pr.fake_wlog()
    evs = [classify(a) for a in log]
    hooks_env = [a[2:4] for a in log if a[0] == "HOOK"]
    written = before != after
    trace = []
    placed = False
    for ev, w in zip(evs, wlog):
        if w == "W" and not placed:
            trace.append("rewrite")
            placed = True
        trace.append(ev)
    if written and not placed:
        trace.append("rewrite")
    # `add` order is a set iteration order: canonicalise consecutive adds
    added = [ev[4:] for ev in trace if ev.startswith("add:")]
    canon = ["add" if ev.startswith("add:") else ev for ev in trace]
    return {"trace": canon, "exit": 0 if code == 0 else 1}, {"args": args, "added": added, "configured": files, "hooks_env": hooks_env, "exc": exc, "written": written, "raw_exit": code}


MUTATING = ("add", "commit", "tag", "tag_light", "push", "push_tag")


def oracle(sc, res, obs):
    """C10 stated directly on the observed trace of the implementation"""
    tr = [e.split(":")[0] if e.startswith(("pre_hook", "post_hook")) else e for e in res["trace"]]
    def idx(pred):
        return [i for i, e in enumerate(tr) if pred(e)]
    commit_i = idx(lambda e: e == "commit")
    muts = idx(lambda e: e.startswith(MUTATING) if False else any(e == m for m in MUTATING))
    eff_commit = sc["cfg_commit"] if sc["commit"] is None else sc["commit"]
    eff_tag = sc["cfg_tag"] if sc["tag_commit"] is None else sc["tag_commit"]
    eff_push = sc["cfg_push"] if sc["push"] is None else sc["push"]
    contradictory = (sc["commit"] is False and (sc["tag_commit"] or sc["push"])) or (not eff_commit and (sc["tag_commit"] or sc["push"]))
    if contradictory:
        if tr or res["exit"] == 0:
            return "contradictory flags were not rejected before anything happened: trace %r exit %s" % (tr, res["exit"])
        return None
    if sc["dry"] and (muts or "pre_hook" in tr or "post_hook" in tr or "rewrite" in tr):
        return "--dry issued %r" % tr
    if not sc["fetch"] and "fetch" in tr:
        return "--no-fetch fetched: %r" % tr
    tags_i = idx(lambda e: e in ("tag", "tag_light"))
    push_i = idx(lambda e: e in ("push", "push_tag"))
    if (tags_i or push_i) and not commit_i:
        return "tag/push without a commit: %r" % tr
    if tags_i and not eff_tag:
        return "tag although tagging is off: %r" % tr
    if push_i and not eff_push:
        return "push although push is off: %r" % tr
    if commit_i and not eff_commit:
        return "commit although commit is off: %r" % tr
    order = ["status", "rewrite", "pre_hook", "add", "commit", "post_hook", "tag", "push"]
    def rank(e):
        if e == "add":
            return 3
        if e in ("tag", "tag_light"):
            return 6
        if e in ("push", "push_tag"):
            return 7
        return order.index(e) if e in order else None
    seq = [(rank(e), e) for e in tr if rank(e) is not None]
    last_status = max([i for i, e in enumerate(tr) if e == "status"], default=-1)
    seq = [(r, e) for (r, e) in seq]
    ranks = [r for r, _ in seq]
    if ranks != sorted(ranks):
        return "steps out of the documented order: %r" % tr
    if sc["fail_at"] is not None and sc["fail_at"] < len([e for e in tr if e not in ("rewrite", "pre_hook", "post_hook")]):
        # the failing invocation: nothing mutating may follow it (probes swallowed by get_remote / is_usable excepted)
        vcs_events = [i for i, e in enumerate(tr) if e not in ("rewrite", "pre_hook", "post_hook")]
        k = vcs_events[sc["fail_at"]]
        failed = tr[k]
        if failed not in ("is_usable", "ls_branches", "show_remotes"):
            after = tr[k + 1:]
            if after or res["exit"] == 0:
                return "command %r failed but the run went on with %r (exit %s)" % (failed, after, res["exit"])
    tr = [e.split(":")[0] if e.startswith(("pre_hook", "post_hook")) else e for e in tr]
    if sc["pre"] == "fail" and "pre_hook" in tr:
        k = tr.index("pre_hook")
        if tr[k + 1:] or res["exit"] == 0:
            return "pre-commit hook failed but the run went on: %r" % tr
    if sc["post"] == "fail" and "post_hook" in tr:
        k = tr.index("post_hook")
        if tr[k + 1:] or res["exit"] == 0:
            return "post-commit hook failed but the run went on: %r" % tr
    if len(set(obs["added"])) != len(obs["added"]) or not set(obs["added"]) <= set(obs["configured"]):
        return "staged paths %r are not distinct configured files %r" % (obs["added"], obs["configured"])
    if commit_i and sorted(obs["added"]) != sorted(obs["configured"]):
        return "committed with staged paths %r, configured files are %r" % (obs["added"], obs["configured"])
    for old, new in obs["hooks_env"]:
        if (old, new) != ("1.2.3", "1.2.4"):
            return "hook saw BUMPVER_OLD_VERSION=%r BUMPVER_NEW_VERSION=%r" % (old, new)
    if ("pre_hook" in tr or "post_hook" in tr) and not commit_i and sc["pre"] != "fail" and sc["fail_at"] is None:
        return "hook ran without a commit: %r" % tr
    # (a run that COMMITS has a usable VCS and commit in force: the dirty check is a step it must have passed, whether or not the status
    #  command shows in the trace)
    if sc["dirty"] and (not sc["allow_dirty"] or sc.get("dirty_pattern_file")) and ((("rewrite" in tr or muts) and "status" in tr) or commit_i):
        return "dirty tree (%s, allow_dirty=%s) but the run went on: %r" % ("a file with a version pattern" if sc.get("dirty_pattern_file") else "another file", sc["allow_dirty"], tr)
    return None


def add_failure_case(fname):
    """`git add` of a configured file FAILS (whatever the file is called): the run must stop there — no commit, no tag, no push, exit non-zero"""
    with sandbox.Project("c10a") as pr:
        key = json.dumps(fname)
        pr.write_text("bumpver.toml", '[bumpver]\ncurrent_version = "1.2.3"\nversion_pattern = "MAJOR.MINOR.PATCH"\ncommit = true\ntag = true\npush = false\n'
                      '[bumpver.file_patterns]\n"bumpver.toml" = [\'current_version = "{version}"\']\n%s = ["{version}"]\n' % key)
        pr.write_text(fname, "v 1.2.3\n")
        pr.add_fake_vcs("git")
        pr.fake_set("branches", "* main 1a2b3c4 msg\n")
        pr.fake_set("tags", "1.2.3\n")
        pr.fake_set("tags_branch", "1.2.3\n")
        pr.fake_set("fail_cmd", fname)                  # only the `add` of THIS file fails
        code, out, exc = sandbox.run_cli(["update", "--patch", "--no-fetch"], pr.dir, pr.env())
        evs = [classify(a) for a in pr.fake_log()]
    case = {"kind": "add-fails", "file": fname, "trace": ["add" if e.startswith("add:") else e for e in evs], "exit": code}
    k = next((i for i, e in enumerate(evs) if e.startswith("add:")), None)
    if k is None:
        return case, None
    after = [e for e in evs[k + 1:] if not e.startswith("add:")]
    if after or code == 0:
        return case, "`git add` failed for the configured file %r but the run went on with %r (exit %s)" % (fname, after, code)
    return case, None


def _impl(op):
    res, _obs = run_impl(op["_sc"])
    return res


def run(chk, driver, tier):
    rng = chk.rng
    # the COMPOSED model of the whole command (Model/Update.lean, theorems Props/Update.lean) against the real CLI: exit code, event trace and
    # every configured file afterwards, on generated projects x the flag/config lattice x tag and status listings x faults x failure positions
    import props.updfull as updfull
    updfull.run(chk, driver, 1500 if tier == "thorough" else 40)
    n = 3000 if tier == "thorough" else 160
    chk.extra["rule"] = ("random points of the lattice config commit/tag/push x tri-state flags x hooks {absent, ok, fail} (config or CLI) x dirty x --allow-dirty x tag message x remote "
                         "{branch, url, none} x --dry x fetch x scope x --set-version x gate/uniqueness/rewrite outcomes x failure position {none, 0..15} x {git, hg}; "
                         "each run against the real CLI with fake git/hg and through the model; non-trivial = distinct scenario")
    scs = [gen_scenario(rng) for _ in range(n)]
    ops, impl_res = [], []
    for sc in scs:
        res, obs = run_impl(sc)
        impl_res.append(res)
        ops.append(model_op(sc))
        chk.count("exit:%s" % res["exit"])
        chk.count("kind:" + sc["kind"])
        chk.count("tracelen:%d" % min(len(res["trace"]), 12))
        chk.oracle_case({"scenario": sc, "trace": res["trace"], "exit": res["exit"], "args": obs["args"]}, oracle(sc, res, obs))
    it = iter(impl_res)
    chk.correspond(ops, lambda op: next(it), driver)
    # a failing `add` stops the run whatever the configured file is called (file names that echo VCS messages included)
    for fname in ["notes.txt", "already tracked!.txt", "docs/already tracked! (old).md", "error: pathspec.txt", "returned non-zero exit status 1.txt"]:
        case, verdict = add_failure_case(fname)
        chk.count("add_fails")
        chk.oracle_case(case, verdict)
    return []


def search(chk, driver, tier):
    rng = chk.rng
    for _ in range(1500):
        sc = gen_scenario(rng)
        res, obs = run_impl(sc)
        chk.oracle_case({"scenario": sc, "trace": res["trace"], "exit": res["exit"], "args": obs["args"]}, oracle(sc, res, obs))
        if chk.violations:
            return


def replay(payload):
    sc = payload["case"]["scenario"]
    res, obs = run_impl(sc)
    return oracle(sc, res, obs)
