"""C15 — {pep440_version} always denotes the same version as {version}."""
import re, datetime as dt
import impl_adapter as impl
import gen, refimpl, projgen, sandbox
from common import load_known_findings

NOTE = ("Theorems C15_* (Props/C15.lean): the tag tables are mutually consistent and agree with the PEP 440 parser's letter normalisation; every part substituted by the "
        "PEP 440 conversion renders without leading zeros; the conversion of every README example pattern is the documented one (kernel-evaluated on the GENERATED tables). "
        "Tie: ops to_pep440_pattern/normalize/format vs v2patterns; oracle on the implementation with `packaging` as the independent PEP 440 authority: the text written "
        "for {pep440_version} is valid, equal to the version, accepted by the derived pattern, equal to the `PEP440` line of `bumpver test`, and in normal form.")

README_PATTERNS = ["MAJOR.MINOR.PATCH[PYTAGNUM]", "MAJOR.MINOR[.PATCH[PYTAGNUM]]", "YYYY.BUILD[PYTAGNUM]", "YYYY.BUILD[-TAG]", "YYYY.INC0[PYTAGNUM]",
                   "YYYY0M.PATCH[-TAG]", "YYYY0M.BUILD[-TAG]", "YYYY.0M", "YYYY.MM", "YYYY.WW", "YYYY.MM.PATCH[PYTAGNUM]", "YYYY.0M.PATCH[PYTAGNUM]",
                   "YYYY.MM.INC0", "YYYY.MM.DD", "YYYY.0M.0D", "YY.0M.0D", "vYYYY0M.BUILD[-TAG]", "vYYYY.BUILD[-TAG]", "vMAJOR.MINOR.PATCH[-TAG]",
                   "vMAJOR.MINOR.PATCH[-TAGNUM]", "MAJOR.MINOR.PATCH[-TAG[NUM]]", "vYYYY.0M.0D.BUILD[-TAG]"]


def gen_shaped(rng):
    """patterns of the PEP 440-compatible shapes: v? numeric parts separated by dots (or adjacent fixed-width), optional tag tail"""
    if rng.random() < 0.35:
        return rng.choice(README_PATTERNS)
    for _ in range(100):
        vp = gen.gen_pattern(rng, True)
        if projgen.pep_shaped(vp):
            return vp
    return "vYYYY0M.BUILD[-TAG]"


def judge(vp, st, tree):
    import packaging.version as pv
    vtext = refimpl.render(tree, st)
    try:
        want = pv.Version(vtext)
    except pv.InvalidVersion:
        return None, "skip"
    n = impl.normalize(vp, "{pep440_version}")
    if "ok" not in n:
        return "normalize failed: %r" % (n,), None
    peppat = n["ok"]
    f = impl.format_vinfo(projgen.vinfo_of_state(st), peppat)
    if "ok" not in f:
        return "format through the PEP 440 pattern %r failed: %r" % (peppat, f), None
    ptext = f["ok"]
    try:
        got = pv.Version(ptext)
    except pv.InvalidVersion:
        return "version %r (pattern %r): the text written for {pep440_version} is %r, not a valid PEP 440 version" % (vtext, vp, ptext), None
    if got != want:
        return "version %r (pattern %r): {pep440_version} is written as %r which denotes %s, not %s" % (vtext, vp, ptext, got, want), None
    m = impl.compile_search(peppat, ptext, "match")
    if m.get("span") != [0, len(ptext)]:
        return "the derived pattern %r does not accept its own rendering %r" % (peppat, ptext), None
    from bumpver import version as bv
    if pv.Version(bv.to_pep440(vtext)) != got:
        return "PEP440 value %r and {pep440_version} text %r differ" % (bv.to_pep440(vtext), ptext), None
    # normal form of the README: no v prefix, no leading zeros after the first component, short tag followed by its number
    if ptext.startswith("v"):
        return "{pep440_version} text %r carries a v prefix" % ptext, None
    rel = re.match(r"[0-9]+((?:\.[0-9]+)*)", ptext)
    comps = [c for c in rel.group(1).split(".") if c]
    if any(len(c) > 1 and c.startswith("0") for c in comps):
        return "{pep440_version} text %r has a leading zero in a component after the first" % ptext, None
    tail = ptext[rel.end():]
    if tail and not re.fullmatch(r"\.?(a|b|rc|post|dev)[0-9]+", tail):
        return "{pep440_version} text %r does not end in a short tag followed by its number" % ptext, None
    return None, None


def run(chk, driver, tier):
    rng = chk.rng
    n = 30000 if tier == "thorough" else 2500
    known = {f["id"]: f for f in load_known_findings("C15") if f.get("status") == "open"}
    chk.extra["rule"] = ("PEP 440-shaped patterns (README examples and grammar patterns: optional v, dot-separated or adjacent fixed-width numeric parts, optional tag tail) x all part "
                         "values and tags (NUM present or absent); odd shapes as a separate stream (known finding region); non-trivial = distinct (pattern, version)")
    ops = []
    tie_ops = []
    for _ in range(n):
        vp = gen_shaped(rng)
        tree = refimpl.tokenize(vp)
        d = gen.gen_date(rng, dt.date(2001, 1, 8), dt.date(2095, 1, 1))
        st = refimpl.gen_state(rng, tree, d, gen)
        c = refimpl.cal_of(d)
        if 53 in (c["week_w"], c["week_u"]) or int(st["bid"]) == 0:
            continue
        verdict, skip = judge(vp, st, tree)
        if skip:
            chk.count("not-pep440-version")
            continue
        chk.count("tag:" + st["tag"])
        # a tail without NUM cannot carry a release number: `1.2.3b` is PEP 440 b0
        chk.oracle_case({"vp": vp, "state": {k: v for k, v in st.items()}}, verdict)
        ops.append({"op": "to_pep440_pattern", "version_pattern": vp})
        ops.append({"op": "normalize", "version_pattern": vp, "raw_pattern": 'x = "{pep440_version}" / {version}'})
        if len(tie_ops) < n // 2:
            tie_ops.append({"op": "pep_tie", "pattern": vp, "vinfo": projgen.vinfo_of_state(st), "today": [2026, 9, 29]})
    for vp in README_PATTERNS + gen.MALFORMED:
        ops.append({"op": "to_pep440_pattern", "version_pattern": vp})

    def f(o):
        if o["op"] == "to_pep440_pattern":
            return impl.to_pep440_pattern(o["version_pattern"])
        return impl.normalize(o["version_pattern"], o["raw_pattern"])
    chk.correspond(ops, f, driver)
    # model-internal tie: the TREE-level conversion (Model/PepTree.lean, where C15_derived_accepts_* and C15_normal_form_parts live) against
    # the string surgery (the faithful model of _convert_to_pep440), per generated pattern; how many (pattern, record) pairs lie inside the
    # theorems' domain; and the theorem's conclusion evaluated on each of those (a test of the statement, not part of the proof)
    for o, got in zip(tie_ops, driver.run(tie_ops)):
        chk.evaluations += 1
        if not got.get("tokenized"):
            chk.count("pep_tree:not_tokenized")
            continue
        if not (got.get("tie") and got.get("render_eq")):
            # the trees differ only where deleting a separator fuses two names (YY-YY -> YYYY); for PEP 440-shaped patterns this must not happen
            chk.disagreements.append({"op": o, "impl": {"tie": True, "render_eq": True}, "model": got})
            continue
        chk.count("agree:pep_tie")
        chk.count("pep_tree:normal" if got.get("normal") else "pep_tree:not_normal")
        if got.get("in_domain"):
            chk.count("pep_tree:in_theorem_domain")
            if not got.get("theorem_instance"):
                chk.disagreements.append({"op": o, "impl": "C15_derived_accepts_of_original holds on this instance", "model": got})
        else:
            chk.count("pep_tree:outside_theorem_domain")
        if got.get("shaped_domain"):
            chk.count("pep_tree:in_same_version_domain")
            if not got.get("same_version"):
                chk.disagreements.append({"op": o, "impl": "C15_version_parses_equal holds on this instance", "model": got})
    # the odd shapes (known finding F-C15-odd-shapes): replay the recorded witnesses
    lines = []
    if "F-C15-odd-shapes" in known:
        for vp, vtext in (("YYYY.MM-INC0", "2020.8-3"), ("MAJOR.MINOR.PATCH.NUM[PYTAG]", "1.2.3.4b")):
            p = impl.parse_version(vtext, vp, [2026, 9, 29])
            n2 = impl.normalize(vp, "{pep440_version}")["ok"]
            t = impl.format_vinfo(p["ok"], n2).get("ok") if "ok" in p else None
            import packaging.version as pv
            try:
                same = pv.Version(t) == pv.Version(vtext)
            except Exception:
                same = False
            if not same:
                lines.append("F-C15-odd-shapes: %s (witness: pattern %r version %r is written as %r)" % (known["F-C15-odd-shapes"]["summary"], vp, vtext, t))
                break
    return lines


def search(chk, driver, tier):
    rng = chk.rng
    for _ in range(40000):
        vp = gen_shaped(rng)
        tree = refimpl.tokenize(vp)
        d = gen.gen_date(rng, dt.date(2001, 1, 8), dt.date(2095, 1, 1))
        st = refimpl.gen_state(rng, tree, d, gen)
        verdict, skip = judge(vp, st, tree)
        if not skip:
            chk.oracle_case({"vp": vp, "state": {k: v for k, v in st.items()}}, verdict)
        if chk.violations:
            return


def replay(payload):
    c = payload["case"]
    tree = refimpl.tokenize(c["vp"])
    return judge(c["vp"], c["state"], tree)[0]
