"""C01 — a successful bump yields a valid, strictly greater version."""
import re, json, datetime as dt
import impl_adapter as impl
import gen, refimpl, projgen, sandbox, rwcommon
from common import load_known_findings

NOTE = ("Theorems C01_* (Props/C01.lean): whenever cliTest / cliUpdateVersion announce a version it matches the pattern in full and is strictly greater (PEP 440 order of C16) "
        "than the start version; every other outcome is a non-zero exit. Tie: op cli_test vs `bumpver test` (CliRunner); oracle on the implementation: reference regex full "
        "match + `packaging`/vendored order, over flags x dates x --set-version targets (greater, equal, lower, tag downgrade, malformed, PEP 440-equal respellings), "
        "`bumpver update` dry and real on generated projects (files untouched unless exit 0).")

LEGACY = {
    "{pycalver}": (r"v[1-9][0-9]{3}(?:1[0-2]|0[1-9])\.[0-9]{4,}(?:-(?:alpha|beta|dev|rc|post))?", ["v201712.0033-beta", "v202001.1001", "v201812.11000-rc"]),
    "{semver}": (r"[0-9]+\.[0-9]+\.[0-9]+", ["1.2.3", "0.9.10"]),
    "v{year}{build}{release}": (r"v[1-9][0-9]{3}\.[0-9]{4,}(?:-(?:alpha|beta|dev|rc|post))?", ["v2017.0033-beta", "v2020.1001"]),
}


def pep_lt(a, b):
    from bumpver import version
    return version.parse_version(a) < version.parse_version(b)


def set_version_targets(rng, tree, st, old_text):
    out = []
    fields = refimpl.observable_fields(tree)
    for f in fields:
        s2 = dict(st)
        if f in ("major", "minor", "patch", "num", "inc0", "inc1"):
            s2[f] = st[f] + 1
            out.append(refimpl.render(tree, s2))
            # the same greater version in a spelling the pattern accepts but does not produce (a leading zero): it has to be announced
            # the way the pattern renders it
            out.append(refimpl.render_respelled(tree, s2, rng))
            if st[f] > 1:
                s2[f] = st[f] - 1
                out.append(refimpl.render(tree, s2))
        elif f == "bid":
            s2[f] = str(int(st[f]) + 1).zfill(len(st[f]))
            out.append(refimpl.render(tree, s2))
        elif f in ("tag", "pytag"):
            for t in gen.TAGS:
                s2["tag"] = t
                s2["num"] = 0 if t == "final" else st["num"]
                out.append(refimpl.render(tree, s2))
    out += [old_text, old_text + ".post1", old_text + "x", "v" + old_text, old_text.lstrip("v"), "", "junk", old_text + " ", "0" + old_text,
            old_text.replace(".", ".0", 1), old_text + ".0"]
    return [t for t in out if t is not None]


def test_case(rng):
    pat = gen.gen_pattern(rng, True)
    tree = refimpl.tokenize(pat)
    d = gen.gen_date(rng, dt.date(2001, 1, 8), dt.date(2095, 1, 1))
    st = refimpl.gen_state(rng, tree, d, gen)
    old = refimpl.render(tree, st)
    today = [2026, 9, 29]
    fl = {"major": rng.random() < 0.2, "minor": rng.random() < 0.2, "patch": rng.random() < 0.2, "tag": rng.choice([None, None, None] + gen.TAGS + ["bogus"]),
          "tag_num": rng.random() < 0.15, "pin_increments": rng.random() < 0.15, "pin_date": rng.random() < 0.15}
    date_given = rng.random() < 0.7
    d2 = d + dt.timedelta(days=rng.choice([0, 1, 40, 400, -30]))
    sv = None
    if rng.random() < 0.45:
        sv = rng.choice(set_version_targets(rng, tree, st, old))
    op = {"op": "cli_test", "version": old, "pattern": pat, "date_given": date_given,
          "date": [d2.year, d2.month, d2.day] if date_given else today, "today": today, "set_version": sv}
    op.update(fl)
    return op, tree


def oracle(op, tree, res):
    """C01 on the implementation's answer"""
    if res.get("exit") != 0:
        return None
    new = res["new"]
    rx = re.compile(refimpl.ref_regex(tree))
    if new is None or not rx.fullmatch(new):
        return "`bumpver test %r %r` announced %r which does not match the pattern in full" % (op["version"], op["pattern"], new)
    if not pep_lt(op["version"], new):
        return "`bumpver test %r %r` announced %r which is not strictly greater under PEP 440" % (op["version"], op["pattern"], new)
    try:
        import packaging.version as pv
        a, b = pv.Version(op["version"]), pv.Version(new)
        if not a < b:
            return "announced %r is not greater than %r for packaging" % (new, op["version"])
    except Exception:
        pass
    return None


def legacy_case(rng):
    pat, (rxs, examples) = rng.choice(list(LEGACY.items()))
    old = rng.choice(examples)
    sv = None
    r = rng.random()
    args = ["test", old, pat, "--date", "2026-09-29"]
    if pat == "{semver}":
        args.append(rng.choice(["--patch", "--minor", "--major"]))
    if r < 0.6:
        base = impl_cli(args)
        target = base.get("new") or old
        sv = rng.choice([target + ".post1", target + "x", target, old, target + "-beta", "junk", target + " "])
        args += ["--set-version", sv]
    res = impl_cli(args)
    case = {"kind": "legacy", "args": args, "result": res}
    if res.get("exit") == 0:
        new = res["new"]
        if not re.fullmatch(rxs, new):
            return case, "`bumpver %s` announced %r which does not match the legacy pattern in full" % (" ".join(args), new)
        if not pep_lt(old, new):
            return case, "`bumpver %s` announced %r which is not strictly greater" % (" ".join(args), new)
    return case, None


def impl_cli(args):
    code, out, exc = sandbox.run_cli(args, "/", today=dt.date(2026, 9, 29))
    if code != 0:
        return {"exit": 1}
    new = None
    for line in out.split("\n"):
        if line.startswith("New Version: "):
            new = line[len("New Version: "):]
    return {"exit": 0, "new": new}


def update_case(rng, dry):
    """update on a generated project: exit 0 => announced is valid and greater; otherwise no file changed"""
    pr = rwcommon.gen_ok_project(rng, max_files=2, max_pats=2)
    tree = refimpl.tokenize(pr["vp"])
    targets = set_version_targets(rng, tree, pr["old_state"], pr["old"]) + [pr["new"]]
    sv = rng.choice(targets) if rng.random() < 0.6 else None
    args = ["update", "--no-fetch"] + (["--set-version", sv] if sv is not None else projgen.cli_flags(pr)) + (["--dry"] if dry else [])
    case = {"kind": "update", "vp": pr["vp"], "old": pr["old"], "args": args}
    with rwcommon.setup(pr) as p:
        before = p.snapshot()
        code, out, exc = sandbox.run_cli(args, p.dir)
        after = p.snapshot()
        txt = after["bumpver.toml"].decode("utf-8")
    m = re.search(r'current_version = "((?:[^"\\]|\\.)*)"', txt)
    announced = json.loads('"' + m.group(1) + '"') if m else None
    case.update(exit=code, announced=announced)
    if code != 0 or dry:
        if after != before:
            return case, "`bumpver %s` (exit %s) changed %r" % (" ".join(args), code, rwcommon.diff_files(before, after))
        return case, None
    rx = re.compile(refimpl.ref_regex(tree))
    if not rx.fullmatch(announced or ""):
        return case, "update set the version to %r which does not match %r in full" % (announced, pr["vp"])
    if not pep_lt(pr["old"], announced):
        return case, "update set the version to %r which is not greater than %r" % (announced, pr["old"])
    return case, None


def update_tags_case(rng):
    """update in a clone with version tags: exit 0 => the announced version is strictly greater than the version the run had to
    start from PER TAG SCOPE (the config value or the newest matching tag), not merely greater than the config value"""
    import props.c09 as c09
    vp, old, new, flags, d2 = projgen.gen_states(rng)
    tree = refimpl.tokenize(vp)
    cfgv = refimpl.render(tree, old)
    tags = [x for t in c09.gen_tagset(rng, vp, tree, old) for x in t.split()]
    tags_branch = sorted(rng.sample(tags, rng.randint(0, len(tags))))
    cfg_scope = rng.choice(["default", "default", "global", "branch"])
    cli_scope = rng.choice([None, None, "default", "global", "branch"])
    scope = cli_scope or cfg_scope                     # the scope in force: --tag-scope overrides the configured one
    rx = re.compile(refimpl.ref_regex(tree))
    valid = [t for t in (tags_branch if scope == "branch" else tags) if rx.fullmatch(t) and c09._date_ok(tree, t)]
    start = c09.expected_start(scope, cfgv, valid)
    # every fourth case: a remote is configured and `git fetch` FAILS (remote gone, offline): the run may fail, but it must not fall back
    # to the config value as if there were no tags
    fetch_fails = rng.random() < 0.25
    args = ["update"] + ([] if fetch_fails else ["--no-fetch"]) + projgen.cli_flags({"date": [d2.year, d2.month, d2.day], "flags": flags}) + (["--tag-scope", cli_scope] if cli_scope else [])
    case = {"kind": "update-tags", "fetch_fails": fetch_fails, "vp": vp, "config_version": cfgv, "tags": tags, "branch_tags": tags_branch, "scope": scope, "cfg_scope": cfg_scope,
            "cli_scope": cli_scope, "start": start, "args": args}
    with sandbox.Project("c01t") as p:
        p.write_text("bumpver.toml", '[bumpver]\ncurrent_version = %s\nversion_pattern = %s\ntag_scope = "%s"\ncommit = false\n[bumpver.file_patterns]\n"bumpver.toml" = [\'current_version = "{version}"\']\n' % (
            json.dumps(cfgv), json.dumps(vp), cfg_scope))
        p.add_fake_vcs("git")
        p.fake_set("tags", "".join(t + "\n" for t in tags))
        p.fake_set("tags_branch", "".join(t + "\n" for t in tags_branch))
        if fetch_fails:
            p.fake_set("branches", "* main 1a2b3c4 [origin/main] msg\n")
            p.fake_set("remote_url", "https://example.invalid/x.git\n")
            p.fake_set("fail_cmd", "fetch")
        before = p.snapshot()
        code, out, exc = sandbox.run_cli(args, p.dir, p.env(), today=dt.date(2026, 9, 29))
        after = p.snapshot()
        txt = after["bumpver.toml"].decode("utf-8")
    m = re.search(r'current_version = "((?:[^"\\]|\\.)*)"', txt)
    announced = json.loads('"' + m.group(1) + '"') if m else None
    case.update(exit=code, announced=announced)
    if code != 0:
        if after != before:
            return case, "`bumpver %s` (exit %s) changed %r" % (" ".join(args), code, rwcommon.diff_files(before, after))
        return case, None
    if not rx.fullmatch(announced or ""):
        return case, "update set the version to %r which does not match %r in full" % (announced, vp)
    if not pep_lt(start, announced):
        return case, ("update (tag scope %s) set the version to %r, which is not strictly greater than the version it had to start from, %r "
                      "(config %r, matching tags in scope %r)" % (scope, announced, start, cfgv, valid))
    return case, None


def run(chk, driver, tier):
    rng = chk.rng
    # the COMPOSED model of `bumpver update` for LEGACY patterns (Model/UpdateV1.lean, theorems Props/UpdateV1.lean) against the real CLI
    import props.updfull_v1 as updfull_v1
    updfull_v1.run(chk, driver, 250 if tier == "thorough" else 25)
    # the COMPOSED model of the whole command (Model/Update.lean, theorems Props/Update.lean) against the real CLI: exit code, event trace and
    # every configured file afterwards, on generated projects x the flag/config lattice x tag and status listings x faults x failure positions
    import props.updfull as updfull
    updfull.run(chk, driver, 1500 if tier == "thorough" else 40)
    n = 12000 if tier == "thorough" else 700
    chk.extra["rule"] = ("uniquely readable grammar patterns x states x 2^7 flag sets (plus an invalid --tag) x date offsets x --set-version targets derived from the current version "
                         "(+1/-1 on each field, every tag incl. downgrades, equal, malformed, PEP 440-equal respellings); legacy composites with trailing junk; update dry/real on projects; "
                         "non-trivial = distinct case")
    ops, trees = [], []
    for _ in range(n):
        op, tree = test_case(rng)
        ops.append(op)
        trees.append(tree)
    results = []

    def f(o):
        r = impl.cli_test(o["version"], o["pattern"], o, o["date_given"], o["date"], o["today"], o["set_version"])
        results.append(r)
        return r
    chk.correspond(ops, f, driver)
    chk.disagreements = [b for b in chk.disagreements if "unsupported" not in b["impl"]]
    for op, tree, res in zip(ops, trees, results):
        chk.count("exit:%s" % res.get("exit"))
        chk.count("set_version:%s" % (op["set_version"] is not None))
        chk.oracle_case({"kind": "test", "op": op, "result": res}, oracle(op, tree, res))
    for _ in range(n // 10):
        case, verdict = legacy_case(rng)
        chk.count("legacy")
        chk.oracle_case(case, verdict)
    for i in range(n // 12):
        case, verdict = update_case(rng, dry=(i % 3 == 0))
        chk.count("update")
        chk.oracle_case(case, verdict)
    for i in range(n // 6):
        case, verdict = update_tags_case(rng)
        chk.count("update-tags:%s:exit%s" % (case["scope"], case["exit"]))
        chk.oracle_case(case, verdict)
    return []


def search(chk, driver, tier):
    rng = chk.rng
    for _ in range(8000):
        op, tree = test_case(rng)
        res = impl.cli_test(op["version"], op["pattern"], op, op["date_given"], op["date"], op["today"], op["set_version"])
        chk.oracle_case({"kind": "test", "op": op, "result": res}, oracle(op, tree, res))
        if chk.violations:
            return


def replay(payload):
    c = payload["case"]
    if c.get("kind") == "test":
        op = c["op"]
        res = impl.cli_test(op["version"], op["pattern"], op, op["date_given"], op["date"], op["today"], op["set_version"])
        return oracle(op, refimpl.tokenize(op["pattern"]), res)
    if c.get("kind") == "legacy":
        res = impl_cli(c["args"])
        return None if res.get("exit") != 0 else "re-run ./check C01"
    return "re-run ./check C01 (seed %s)" % payload.get("seed")
