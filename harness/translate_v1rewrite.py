#!/venv/bin/python
"""Python -> Lean translator, group `v1rewrite`: the LEGACY rewrite path src/bumpver/v1rewrite.py
(`rewrite_lines`, `rfd_from_content`, `iter_rewritten`, `rewrite_files`, `diff`); documented in
harness/TRANSLATE_V1REWRITE.md.

`V1RewriteTranslator` subclasses `translate_rewrite.RewriteTranslator` (which subclasses
`translate_funcs.FuncTranslator`); neither module is edited.  Everything translate_rewrite.py supports
(effect levels, generators run to exhaustion / inlined, `pyForE` / `pyForFS`, sets, `sorted(key=…)`,
slices, `xs[i] = e`, `with open(…)`, `try/except`, dead logging code) is inherited.  New here:

  * its own signature table `FUNCS` (five functions of v1rewrite.py, Lean names `v1RewriteLines`,
    `v1RfdFromContent`, `v1IterRewritten`, `v1RewriteFiles`, `v1Diff`, namespace BV.GenF);
  * the record `version.V1VersionInfo` as the OPAQUE model type `V1Info` (v1rewrite.py never looks inside a
    version record: it only hands it to `v1version.format_version`);
  * the callee `v1version.format_version` ↦ the MODEL function `BV.v1FormatVersion : V1Info → Str →
    Except V1Err Str` (tied to the Python source by `tie_v1FormatVersion`, harness/translate_v1.py); an
    exception `e` of it becomes `RwErr.crash (BV.v1ErrToPErr e)` (hoist kind `v1err`);
  * callees of the other rewrite modules (`parse.iter_matches`, `rewrite.detect_line_sep`,
    `rewrite.iter_path_patterns_items`) resolve to the definitions translate_rewrite.py / translate_funcs.py
    generate (they are shared by both engines in Python as well).

Generated files: lean/BumpverVerif/Gen/F_v1RewriteLines.lean … F_v1Diff.lean.  Nothing is imported from
bumpver; only its source text is read ($VERIF_REPO/src/bumpver, default /repo).
Stand-alone: /venv/bin/python harness/translate_v1rewrite.py [--write] [--show]
"""
import ast
import os
import sys

HERE = os.path.dirname(os.path.abspath(__file__))
sys.path.insert(0, HERE)

import translate_funcs as TF                                      # noqa: E402
import translate_rewrite as TR                                    # noqa: E402
from translate_funcs import LIST, REC, STR, Untranslatable, _arm, sha256   # noqa: E402
from translate_rewrite import DICT, FUNC, GEN, UNIT                # noqa: E402

V1INFO = REC("V1Info")
MODEL_MODULE = "BumpverVerif.Model.V1Rewrite"
SOURCE_FILE = "v1rewrite.py"

# ----------------------------------------------------------------------------------
# callees that are not translated here
# ----------------------------------------------------------------------------------
CALLEES = {
    # MODEL function (tied to the Python source by tie_v1FormatVersion, harness/translate_v1.py)
    ("v1version.py", "format_version"): dict(
        lean="BV.v1FormatVersion", params=[("vinfo", V1INFO), ("raw_pattern", STR)], ret=STR, level=1,
        err="v1err", imports=[MODEL_MODULE]),
}

# ----------------------------------------------------------------------------------
# the signature table
# ----------------------------------------------------------------------------------
PATTERNS = LIST(REC("Pattern"))
FILE_PATTERNS = DICT(STR, PATTERNS)

FUNCS = [
    dict(name="v1RewriteLines", file=SOURCE_FILE, func="rewrite_lines", level=1,
         params=[("patterns", PATTERNS), ("new_vinfo", V1INFO), ("old_lines", LIST(STR))],
         ret=LIST(STR)),
    dict(name="v1RfdFromContent", file=SOURCE_FILE, func="rfd_from_content", level=1,
         params=[("patterns", PATTERNS), ("new_vinfo", V1INFO), ("content", STR), ("path", STR)],
         ret=REC("RFD")),
    dict(name="v1IterRewritten", file=SOURCE_FILE, func="iter_rewritten", level=2, generator=True,
         params=[("file_patterns", FILE_PATTERNS), ("new_vinfo", V1INFO)], ret=LIST(REC("RFD"))),
    dict(name="v1RewriteFiles", file=SOURCE_FILE, func="rewrite_files", level=2,
         params=[("file_patterns", FILE_PATTERNS), ("new_vinfo", V1INFO)], ret=UNIT),
    dict(name="v1Diff", file=SOURCE_FILE, func="diff", level=2,
         params=[("old_vinfo", V1INFO), ("new_vinfo", V1INFO), ("file_patterns", FILE_PATTERNS)],
         ret=STR,
         # `difflib` stays a parameter: rewrite.diff_lines is not translated
         fparams={("rewrite.py", "diff_lines"): ("diff_lines", FUNC([REC("RFD")], LIST(STR)))}),
]
FUNC_BY_KEY = {(s["file"], s["func"]): s for s in FUNCS}


class V1RewriteTranslator(TR.RewriteTranslator):
    def __init__(self, spec, sources):
        TR.RewriteTranslator.__init__(self, spec, sources)
        if MODEL_MODULE not in self.imports:
            self.imports.append(MODEL_MODULE)

    # -- the opaque version record ----------------------------------------------------------
    def record(self, name):
        if name == "V1Info":
            if name not in self.records:
                # no fields: v1rewrite.py only passes the record on (an attribute access is Untranslatable)
                self.records[name] = dict(lean="V1Info", builtin=True, fields=[])
            return self.records[name]
        return TR.RewriteTranslator.record(self, name)

    def lean_type(self, t):
        if t == V1INFO:
            return "V1Info"
        return TR.RewriteTranslator.lean_type(self, t)

    # -- callees ------------------------------------------------------------------------------
    def callee(self, func):
        key = self.resolve(func)
        if key is None:
            return None
        fp = self.spec.get("fparams", {})
        if key in fp:
            return TR.RewriteTranslator.callee(self, func)
        if key in FUNC_BY_KEY:
            s = FUNC_BY_KEY[key]
            return dict(lean=s["name"], params=s["params"], ret=s["ret"], level=s["level"],
                        generator=s.get("generator", False), imports=[GEN + "F_" + s["name"]], key=key)
        if key in CALLEES:
            d = dict(CALLEES[key])
            d["key"] = key
            return d
        if key[0] == "v2rewrite.py" or key[0] == "v2version.py" or key[0] == "v2patterns.py":
            # the legacy path must not fall into the other engine silently
            self.bad(func, "call of `%s.%s` from v1rewrite.py: the v2 engine is not a callee of the legacy path"
                     % (key[0][:-3], key[1]))
        return TR.RewriteTranslator.callee(self, func)

    # -- hoisting: the error of the legacy renderer -----------------------------------------
    def with_hoists(self, compute, cont):
        env = self.henv
        saved = self.hoists
        self.hoists = []
        try:
            val = compute()
            hs = self.hoists
        finally:
            self.hoists = saved
        body = cont(val)
        for name, e, kind in reversed(hs):
            ex = self.fresh("ex")
            if kind == "except":
                err = ex
            elif kind == "v1err":
                err = "(RwErr.crash (BV.v1ErrToPErr %s))" % ex
            else:
                err = "(RwErr.crash %s)" % ex
            body = "(match %s with\n  | Except.error %s => %s\n  | Except.ok %s => %s)" % (
                e, ex, _arm(self.wrap_err(err, env)), name, _arm(body))
        return body


# ----------------------------------------------------------------------------------
# rendering
# ----------------------------------------------------------------------------------
def header(spec, text, extra):
    where = "src/bumpver/%s" % spec["file"]
    return [
        "/- GENERATED by harness/translate_v1rewrite.py from the Python AST. Do not edit.",
        "   source   : %s" % where,
        "   function : %s" % spec["func"],
        "   sha256   : %s" % (sha256(text) if text else "(function not found)"),
    ] + extra


def render(spec, sources):
    fname = "F_%s.lean" % spec["name"]
    tr = V1RewriteTranslator(spec, sources)
    try:
        _, body = tr.translate()
    except Untranslatable as ex:
        lines = header(spec, getattr(tr, "source_text", None), [
            "",
            "   UNTRANSLATABLE: %s" % str(ex).replace("-/", "- /"),
            "   (no definition is generated; BV.tie_%s cannot compile until this is resolved) -/" % spec["name"],
            "",
        ])
        return fname, "\n".join(lines), ex
    except Exception as ex:  # noqa: BLE001  never a silent success
        lines = header(spec, getattr(tr, "source_text", None), [
            "",
            "   UNTRANSLATABLE: the source could not be read/parsed/translated: %s: %s -/"
            % (type(ex).__name__, str(ex).replace("-/", "- /")),
            "",
        ])
        return fname, "\n".join(lines), ex
    lines = header(spec, tr.source_text, [])
    lines[-1] += "  (of the function's source text)"
    kinds = {0: "pure", 1: "can raise: Except RwErr", 2: "file system + can raise: FS → FS × Except RwErr"}
    lines.append("   effects  : level %d (%s)%s -/" % (spec["level"], kinds[spec["level"]],
                                                      ", generator run to exhaustion" if spec.get("generator") else ""))
    for imp in tr.imports:
        lines.append("import %s" % imp)
    lines.append("set_option linter.unusedVariables false")
    lines.append("namespace BV.GenF")
    lines.append("")
    lines.append("/-- `%s.%s` -/" % (spec["file"][:-3], spec["func"]))
    lines.append(body)
    lines.append("end BV.GenF")
    lines.append("")
    return fname, "\n".join(lines), None


def generate(report=None):
    """{filename: content} for lean/BumpverVerif/Gen/"""
    sources = TF.Sources()
    out = {}
    for spec in FUNCS:
        fname, content, err = render(spec, sources)
        out[fname] = content
        if report is not None:
            report.append((spec["func"], fname, err))
    return out


def main():
    rep = []
    files = generate(rep)
    gen = os.path.join(os.path.dirname(HERE), "lean", "BumpverVerif", "Gen")
    if "--write" in sys.argv:
        for name, content in files.items():
            path = os.path.join(gen, name)
            old = open(path, encoding="utf-8").read() if os.path.exists(path) else None
            if old != content:
                with open(path, "w", encoding="utf-8") as f:
                    f.write(content)
                print("wrote", name)
    for func, fname, err in rep:
        print("%-28s %-32s %s" % (func, fname, "ok" if err is None else "UNTRANSLATABLE: %s" % err))
    if "--show" in sys.argv:
        for name, content in files.items():
            print("=" * 20, name)
            print(content)
    return 0


if __name__ == "__main__":
    sys.exit(main())
