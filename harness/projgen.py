"""Generated project layouts: a version pattern, a consistent old state, a new state, 1..5 files
with 1..4 search patterns each, occurrences on distinct or shared lines, line-ending regimes.
A layout is independent of the version state, so the SAME layout materialised with the new
state is the independent expectation for the files after an update (C03, C04)."""
import datetime as dt, json, re
import gen, refimpl

RAW_TEMPLATES = [
    "{version}", "{pep440_version}", '__version__ = "{version}"', "version = '{version}'", 'pkg=={pep440_version}',
    "badge/{version}-blue", "Copyright (c) YYYY", "tag: {version} end", 'download/{pep440_version}.tar.gz', "(c) YYYY-0M",
    'release="{version}"', "v: {version};", "\\[{version}\\]",
]
NOISE = ["", "", "# a comment", "import os", "plain text without numbers", "é日本 ✓ text", "tab\tseparated", "regex chars .*+?()[]{}|^$ \\",
         "  indented", "trailing blanks   ", "﻿bom inside", "x = one", "\x0c form feed", "name = 'demo'"]
SEPS = ["\n", "\n", "\r\n", "\r"]
PRE = ["", "", "see ", "item ", "  ", "\t", "(at) ", "é→ ", "xx ", "- "]
POST = ["", "", " and more", " )", " # trailing", "\t", " ✓", " ."]
JOIN = ["  ", " and ", "\t", " | "]


def pep_shaped(vp):
    """v? PART(.PART)* then optionally [sep?(TAG|PYTAG)[NUM]?] — the README's PEP 440-compatible shapes.
    0Y / 0G have no unpadded substitute (a year is the FIRST component, where PEP 440 and the README allow the leading zero: '06'
    is written, packaging prints '6'), so the fixtures, which expect the normal form literally, stay away from them."""
    if "0Y" in vp or "0G" in vp:
        return False
    return re.match(r"^v?(YYYY|YY|0Y|MM|0M|DD|0D|MAJOR|MINOR|PATCH|BUILD|BLD|INC0|INC1|Q|WW|0W|UU|0U|VV|0V|JJJ|00J|GGGG|GG|0G)"
                    r"(\.?(?:MM|0M|DD|0D|MAJOR|MINOR|PATCH|BUILD|BLD|INC0|INC1|Q|WW|0W|UU|0U|VV|0V|JJJ|00J))*"
                    r"(\[?-?(TAG|PYTAG)(\[?NUM\]?)?\]?)?$", vp) is not None   # ('.' before the tag is kept by the conversion: 2025.1.b0, an odd shape)


def pep440_text(version_text):
    try:
        from packaging.version import Version
        return str(Version(version_text))
    except Exception:
        return None


def ref_render_raw(raw, vp, st):
    """independent expectation of what an occurrence of `raw` looks like for state `st`"""
    out = raw.replace("{version}", vp)
    if "{pep440_version}" in out:
        vt = refimpl.render(refimpl.tokenize(vp), st)
        pt = pep440_text(vt)
        if pt is None:
            return None
        out = out.replace("{pep440_version}", "\0")
        return refimpl.render(refimpl.tokenize(out), st).replace("\0", pt)
    return refimpl.render(refimpl.tokenize(out), st)


def gen_states(rng, vp=None, wf=True):
    for _ in range(200):
        vpat = vp or gen.gen_pattern(rng, wf)
        tree = refimpl.tokenize(vpat)
        d = gen.gen_date(rng, dt.date(2001, 1, 1), dt.date(2090, 12, 31))
        if not (dt.date(2001, 1, 8) <= d <= dt.date(2096, 1, 1)):
            continue            # two-digit-year parts are only meaningful inside 2001..2099
        old = refimpl.gen_state(rng, tree, d, gen)
        flags = {"major": False, "minor": False, "patch": False, "tag": None, "tag_num": False, "pin_increments": False, "pin_date": False}
        for k in ("major", "minor", "patch"):
            if k.upper() in vpat and rng.random() < 0.5:
                flags[k] = True
        d2 = d + dt.timedelta(days=rng.choice([0, 1, 40, 400]))
        new = refimpl.bump(tree, old, flags, d2)
        nb = refimpl.next_bid(old["bid"])
        if nb is None:
            continue
        new["bid"] = nb
        old_s, new_s = refimpl.render(tree, old), refimpl.render(tree, new)
        if not old_s or old_s == new_s:
            continue
        c1, c2 = refimpl.cal_of(d), refimpl.cal_of(d2)
        if 53 in (c1["week_w"], c1["week_u"], c2["week_w"], c2["week_u"]):
            continue            # known finding F-C02-week53
        return vpat, old, new, flags, d2
    raise RuntimeError("no state")


def gen_project(rng, max_files=5, max_pats=4, shared_lines=True, mixed_endings=True, vp=None, ascii_names=False, license_file=False):
    vpat, old, new, flags, d2 = gen_states(rng, vp)
    tree = refimpl.tokenize(vpat)
    templates = [t for t in RAW_TEMPLATES if "{pep440_version}" not in t or
                 (pep_shaped(vpat) and pep440_text(refimpl.render(tree, old)) and pep440_text(refimpl.render(tree, new))
                  and old["tag"] not in ("dev", "post") and new["tag"] not in ("dev", "post")
                  # BUILD becomes BLD ([1-9][0-9]*) in the derived pattern: a build id of value 0 has no PEP 440 spelling there
                  and not (("BUILD" in vpat or "BLD" in vpat) and (int(old["bid"]) == 0 or int(new["bid"]) == 0)))]
    # partial calendar patterns only make sense if the version pattern is a calendar pattern
    if "YYYY" not in vpat:
        templates = [t for t in templates if "YYYY" not in t]
    if "MM" not in vpat and "0M" not in vpat:
        templates = [t for t in templates if "0M" not in t]
    nfiles = rng.randint(1, max_files)
    # (one candidate shares the config file's NAME in another directory: the config file's own entry is a different file)
    pool = ["README.md", "setup.py", "src/pkg/__init__.py", "docs/conf.py", "VERSION", "a b.txt", "Änderungen.txt", "pyproject.txt", "packages/core/bumpver.toml"]
    if ascii_names:
        pool = [n for n in pool if n.isascii()]       # file NAME encoding under an ASCII locale is the OS's business, not bumpver's
    names = rng.sample(pool, min(nfiles, len(pool)))
    layout = []
    for name in names:
        raws = rng.sample(templates, min(len(templates), rng.randint(1, max_pats)))
        sep = rng.choice(SEPS)
        lines = []   # each: ("noise", text) | ("occ", [(raw, pre, post), ...], joiner)
        i = 0
        while i < len(raws):
            if shared_lines and i + 1 < len(raws) and rng.random() < 0.3:
                lines.append(("occ", [(raws[i], rng.choice(PRE), ""), (raws[i + 1], "", rng.choice(POST))], rng.choice(JOIN)))
                i += 2
            else:
                lines.append(("occ", [(raws[i], rng.choice(PRE), rng.choice(POST))], ""))
                i += 1
        # a pattern may occur on several lines of its file (each line at most once)
        for raw in raws:
            if rng.random() < 0.3:
                for _ in range(rng.randint(1, 2)):
                    lines.insert(rng.randint(0, len(lines)), ("occ", [(raw, rng.choice(PRE), rng.choice(POST))], ""))
        for _ in range(rng.randint(0, 5)):
            lines.insert(rng.randint(0, len(lines)), ("noise", rng.choice(NOISE)))
        # the order in which the patterns are configured is independent of where their occurrences sit
        raws = list(raws)
        rng.shuffle(raws)
        layout.append({"name": name, "raws": raws, "sep": sep, "lines": lines,
                       "mixed": mixed_endings and rng.random() < 0.15 and len(lines) > 2,
                       "final_newline": rng.random() < 0.6, "bom": rng.random() < 0.1})
    if rng.random() < 0.2 and "pkg.txt" not in names:
        # overlapping configured patterns: an enclosing pattern and the bare version in one file.  Every pattern is the
        # first claimant somewhere, and replacing the inner or the enclosing match gives the same text, so the
        # expectation is still the re-materialised layout; this exercises the overlap suppression of iter_matches.
        raws = ["{version}", "pkg-{version}.tar.gz"]
        rng.shuffle(raws)
        lines = [("occ", [("{version}", rng.choice(["see ", "", "v: "]), ""), ("pkg-{version}.tar.gz", "", rng.choice(["", " here"]))], " and "),
                 ("occ", [("pkg-{version}.tar.gz", "latest = ", rng.choice(["", " # x"]))], "")]
        if rng.random() < 0.5:
            lines.append(("occ", [("{version}", "again ", "")], ""))
        for _ in range(rng.randint(0, 2)):
            lines.insert(rng.randint(0, len(lines)), ("noise", rng.choice(NOISE)))
        layout.append({"name": "pkg.txt", "raws": raws, "sep": rng.choice(SEPS), "lines": lines, "mixed": False,
                       "final_newline": rng.random() < 0.6, "bom": False, "overlap": True})
    if "YYYY" in vpat and (license_file or rng.random() < 0.3) and "LICENSE" not in names:
        # a file whose only pattern is a partial one that most bumps leave unchanged (a copyright year)
        layout.append({"name": "LICENSE", "raws": ["Copyright (c) YYYY"], "sep": "\n",
                       "lines": [("noise", "MIT License"), ("occ", [("Copyright (c) YYYY", "", " The Authors")], ""), ("noise", "Permission is hereby granted")],
                       "mixed": False, "final_newline": True, "bom": False})
    glob_groups = {}
    if rng.random() < 0.2:
        # one GLOB key covering an ordinary file and hidden ones (a dot-directory, a dot-file): `**/*.yml` (pathlib's glob, which bumpver
        # uses, matches hidden files like any other; the README's examples configure `.github/...` style files)
        gnames = ["deploy/app.yml"] + rng.sample([".github/workflows/release.yml", ".ci.yml", "tools/.hidden/x.yml"], rng.randint(1, 3))
        graws = rng.sample([t for t in templates if t in ("{version}", "image: app:{version}", "ver={version}")] or ["{version}"], 1)
        for gname in gnames:
            glines = [("noise", "# yaml"), ("occ", [(graws[0], rng.choice(["image: app:", "tag: ", "  - "]), rng.choice(["", " # pinned"]))], ""), ("noise", "done: true")]
            layout.append({"name": gname, "raws": list(graws), "sep": "\n", "lines": glines, "mixed": False, "final_newline": True, "bom": False})
        glob_groups["**/*.yml"] = gnames
    pr = {"vp": vpat, "old_state": old, "new_state": new, "flags": flags, "date": [d2.year, d2.month, d2.day], "layout": layout,
          "old": refimpl.render(tree, old), "new": refimpl.render(tree, new),
          "old_vinfo": vinfo_of_state(old), "new_vinfo": vinfo_of_state(new)}
    pr["files"] = materialize(pr, old)
    pr["expected_files"] = materialize(pr, new)
    pr["file_patterns"] = [[f["name"], [[vpat, raw] for raw in f["raws"]]] for f in layout]
    # spelling variants of the configuration that mean the same thing (used by the checks that opt in with pr["variants"] = True):
    # the config file's own current_version line left to the IMPLICIT pattern, and file keys written as valid but
    # non-normalised paths (./x, a//b)
    pr["implicit_self"] = rng.random() < 0.35
    # a GLOB key that also matches the config file itself (`"*.toml" = ['^version = "{version}"$']`, with a [project] table holding
    # such a line): its patterns are merged with the implicit current_version pattern of the config file
    pr["glob_self"] = pr["implicit_self"] and rng.random() < 0.4
    pr["glob_groups"] = glob_groups
    # ONE file reachable through TWO differently spelled keys that carry different patterns: a literal non-normalised path and a glob
    # over its directory (bumpver merges the entries of one file; every pattern must be applied and the file written once)
    pr["two_keys"] = None
    cands = [f for f in layout if "/" in f["name"] and len(f["raws"]) >= 2 and not any(f["name"] in g for g in glob_groups.values())]
    if cands and rng.random() < 0.5:
        f = rng.choice(cands)
        d, base = f["name"].rsplit("/", 1)
        ext = base.rsplit(".", 1)[-1] if "." in base else None
        g = d + "/*." + ext if ext else d + "/*"
        import fnmatch
        others = [x["name"] for x in layout if x is not f and "/" in x["name"] and x["name"].rsplit("/", 1)[0] == d and fnmatch.fnmatch(x["name"].rsplit("/", 1)[1], g.rsplit("/", 1)[1])]
        if not others:
            pr["two_keys"] = {"name": f["name"], "literal": "./" + f["name"], "glob": g, "split": rng.randint(1, len(f["raws"]) - 1)}
    pr["key_alias"] = {}
    for f in layout:
        r = rng.random()
        if r < 0.12:
            pr["key_alias"][f["name"]] = "./" + f["name"]
        elif r < 0.2 and "/" in f["name"]:
            pr["key_alias"][f["name"]] = f["name"].replace("/", "//", 1)
    return pr


def materialize(pr, st):
    files = {}
    for f in pr["layout"]:
        body = []
        for ln in f["lines"]:
            if ln[0] == "noise":
                body.append(ln[1])
            else:
                body.append(ln[2].join(pre + ref_render_raw(raw, pr["vp"], st) + post for raw, pre, post in ln[1]))
        sep = f["sep"]
        text = sep.join(body)
        if f["mixed"]:
            text = body[0] + "\r\n" + "\n".join(body[1:])          # CRLF decides; the lone LFs stay inside one "line"
            sep = "\r\n"
        if f["final_newline"]:
            text += sep
        if f["bom"]:
            text = "﻿" + text
        files[f["name"]] = text
    return files


def vinfo_of_state(st):
    cal = [st[f] for f in refimpl.CAL_ORDER]
    return {"cal": cal, "major": st["major"], "minor": st["minor"], "patch": st["patch"], "bid": st["bid"], "tag": st["tag"],
            "pytag": refimpl.PYTAG[st["tag"]], "num": st["num"], "inc0": st["inc0"], "inc1": st["inc1"]}


def ref_regex_for(raw, vp):
    """independent (over-approximating for {pep440_version}) regex of a configured search pattern"""
    src = raw.replace("{version}", vp)
    if "{pep440_version}" in src:
        src = src.replace("{pep440_version}", "\0")
        return re.compile(refimpl.ref_regex(refimpl.tokenize(src)).replace("\\\0", "v?[0-9][0-9a-z.!+]*").replace("\0", "v?[0-9][0-9a-z.!+]*"))
    return re.compile(refimpl.ref_regex(refimpl.tokenize(src)))


def order_lt(a, b):
    """is b a strictly greater version than a?  `packaging` decides for PEP 440-valid strings (independent of bumpver); when one of
    them is not PEP 440 the vendored comparison is used (its agreement with PEP 440 and the legacy rule is C16's subject)"""
    try:
        import packaging.version as pv
        return pv.Version(a) < pv.Version(b)
    except Exception:
        from bumpver import version
        return version.parse_version(a) < version.parse_version(b)


def fixture_ok(pr):
    """fixture sanity (not a verification step) — the property's own restrictions: on every line each
    configured pattern has at most one occurrence, and occurrences of different patterns do not overlap
    (surrounding text matches no configured pattern).  Checked with an independent regex built from the
    reference tokenisation and the README part table."""
    if not order_lt(pr["old"], pr["new"]):
        return False            # e.g. a '+' separator starts a PEP 440 local version: the bump is then not an increase and update must refuse
    for f in pr["layout"]:
        if f.get("overlap"):
            continue            # deliberately overlapping patterns (see gen_project)
        text = pr["files"][f["name"]]
        lines = re.split(r"\r\n|\r|\n", text) if not f["mixed"] else text.split("\r\n")
        rxs = []
        for raw in f["raws"]:
            src = raw.replace("{version}", pr["vp"])
            if "{pep440_version}" in src:
                src = src.replace("{pep440_version}", "v?[0-9][0-9a-z.!+]*")   # any PEP 440-looking text
                src = src.replace("v?[0-9][0-9a-z.!+]*", "\0")
                rx = refimpl.ref_regex(refimpl.tokenize(src)).replace("\\\0", "v?[0-9][0-9a-z.!+]*").replace("\0", "v?[0-9][0-9a-z.!+]*")
            else:
                rx = refimpl.ref_regex(refimpl.tokenize(src))
            rxs.append(re.compile(rx))
        for l in lines:
            spans = []
            for rx in rxs:
                ms = list(rx.finditer(l))
                ms = [m for m in ms if m.end() > m.start()]
                if len(ms) > 1:
                    return False
                spans += [m.span() for m in ms]
            spans.sort()
            for (a0, a1), (b0, b1) in zip(spans, spans[1:]):
                if b0 <= a1:
                    return False
    return True


def cli_flags(pr):
    args = ["--date", "%04d-%02d-%02d" % tuple(pr["date"])]
    for k in ("major", "minor", "patch"):
        if pr["flags"][k]:
            args.append("--" + k)
    return args


def toml_config(pr, extra=""):
    def q(s):
        return json.dumps(s, ensure_ascii=False)
    variants = bool(pr.get("variants"))
    glob_self = variants and pr.get("glob_self")
    out = (["[project]", "version = %s" % q(pr["old"])] if glob_self else []) + \
          ["[bumpver]", "current_version = %s" % q(pr["old"]), "version_pattern = %s" % q(pr["vp"]), extra, "[bumpver.file_patterns]"]
    if not (variants and pr.get("implicit_self")):
        out.append('"bumpver.toml" = [\'current_version = "{version}"\']')
    if glob_self:
        out.append('"*.toml" = [\'^version = "{version}"$\']')
    done_groups = set()
    for path, pairs in pr["file_patterns"]:
        group = [g for g, names in (pr.get("glob_groups") or {}).items() if path in names] if variants else []
        if group:
            if group[0] not in done_groups:
                done_groups.add(group[0])
                out.append("%s = [%s]" % (q(group[0]), ", ".join(q(raw) for _vp, raw in pairs)))
            continue
        tk = pr.get("two_keys") if variants else None
        if tk and tk["name"] == path:
            out.append("%s = [%s]" % (q(tk["literal"]), ", ".join(q(raw) for _vp, raw in pairs[:tk["split"]])))
            out.append("%s = [%s]" % (q(tk["glob"]), ", ".join(q(raw) for _vp, raw in pairs[tk["split"]:])))
            continue
        key = pr.get("key_alias", {}).get(path, path) if variants else path
        out.append("%s = [%s]" % (q(key), ", ".join(q(raw) for _vp, raw in pairs)))
    return "\n".join(x for x in out if x) + "\n"
