#!/venv/bin/python
"""Python -> Lean FUNCTION translator, group `filepatterns`: how the configured `file_patterns` become
the map (file -> compiled patterns) in src/bumpver/config.py (properties C18, C03, C13, C08, C04):

    _iter_glob_expanded_file_patterns   (a generator)
    _compile_v1_file_patterns           (a generator)
    _compile_v2_file_patterns           (a generator, `try/except re.error: ...; raise`)
    _compile_file_patterns              (the merge by path)
    _validate_version_with_pattern
    _parse_raw_config                   (the own-entry rule)

Extends harness/translate_config.py (class `CfgTranslator`, which extends `translate_funcs.FuncTranslator`).
New here (harness/TRANSLATE_FILEPATTERNS.md has the details and every trusted primitive):

  * GENERATORS WITH EXCEPTIONS: a generator is translated to `Py.PyGen T` = (the items it yields, the
    exception class that ends it), not to a plain list: `yield e` is `Py.PyGen.yield e <rest>`, the end of
    the body `Py.PyGen.done`, every exception inside the body `Py.PyGen.raise cls`.  A `for` over such a
    value runs over `.items` and re-raises `.exc` afterwards, so the ORDER of errors of the lazily
    interleaved producer / consumer is kept.
  * CLOSED LOOPS: every `for` becomes an auxiliary structurally recursive definition `<f>.loopN` whose `[]`
    case RETURNS (`Except.ok <carried variables>` / `Py.PyGen.done`) instead of containing the rest of the
    function; loops therefore nest.
  * `try: BODY except C [as x]: HANDLER` with a bare `raise` in the handler.
  * `d[k].extend(xs)`, `d[k1][k2] = v`, `d[k] = v` on a `Dict[str, List[T]]`, `list(xs)`, `str(path)`,
    `re.search(r"([\\s]+)", s)`, callees of other groups (`v2version.is_valid_week_pattern`).

Output: lean/BumpverVerif/Gen/F_<name>.lean (namespace BV.GenF).  Ties: lean/BumpverVerif/Proofs/Tie_<name>.lean,
audit: lean/BumpverVerif/Audit/TiesP.lean.

Usage: /venv/bin/python harness/translate_filepatterns.py [--write] [--show [name...]]
"""
import ast
import os
import sys

HERE = os.path.dirname(os.path.abspath(__file__))
sys.path.insert(0, HERE)

import translate_funcs as tf  # noqa: E402
import translate_config as tc  # noqa: E402
from translate_funcs import (  # noqa: E402
    Untranslatable, BOOL, INT, LIT, STR, NONE, OPT, LIST, TUP, REC, OPAQUE,
    Var, lean_ident, indent, _nl, _arm,
)
from translate_config import (  # noqa: E402
    RAWVAL, FPS, EMPTYDICT, INI, MSG, DROPPED, DREC, DICTOF, lean_str,
)

# ----------------------------------------------------------------------------------
# additional static types
# ----------------------------------------------------------------------------------
PATHOBJ = ("pathobj",)      # a `pathlib.Path` produced by `Path().glob`: represented by its `str()`   (Lean `Str`)
REMATCH = ("rematch",)      # a match object of `re.search(r"([\s]+)", s)`: the matched text              (Lean `Str`)


def GEN(t):                 # a generator yielding values of type t                                      (Lean `Py.PyGen T`)
    return ("gen", t)


PI = OPAQUE("π")            # a compiled pattern (`patterns.Pattern`): never looked into
PI2 = OPAQUE("π2")          # the result of `v2version.parse_version_info` (discarded)
PI1 = OPAQUE("π1")          # the result of `v1version.parse_version_info` (discarded)

RAW = DREC("RawDict")
ITEM = TUP(STR, LIST(STR))          # FileRawPatternsItem
CITEM = TUP(STR, LIST(PI))          # FilePatternsItem

# annotations `name: T = {}` that fix the type of a local
MY_DECLARED = {"PatternsByFile": DICTOF(LIST(PI))}

# exception classes: how the class expression of `raise C(...)` / `except C:` is named in the `Except Str`
# results.  (`re.error` prints itself with its module; bumpver's own classes by their last component.)
RAISE_CLASSES = {"ValueError", "TypeError", "KeyError", "RuntimeError", "AttributeError", "IndexError"}


def exc_class_name(node, tr):
    text = ast.unparse(node)
    if text == "re.error":
        return "re.error"
    if isinstance(node, ast.Name):
        return node.id
    if isinstance(node, ast.Attribute) and isinstance(node.value, ast.Name):
        return node.attr            # version.PatternError -> PatternError
    tr.bad(node, "exception class `%s`" % text)


# callees that stay PARAMETERS: python call text -> (lean parameter, argument types, result type, can raise)
X_GLOB = ("glob", [STR], LIST(PATHOBJ), True)
X_CP2 = ("compile_pattern", [RAWVAL, STR], PI, True)
X_CPS2 = ("compile_patterns", [RAWVAL, LIST(STR)], LIST(PI), True)
X_CPS1 = ("compile_patterns_v1", [RAWVAL, LIST(STR)], LIST(PI), True)
X_PVI2 = ("parse_version_info", [STR, STR], PI2, True)
X_PVI1 = ("parse_version_info_v1", [STR, STR], PI1, True)

# callees translated by ANOTHER group: python call text -> (Lean function, argument types, result type, import)
OTHER_GROUP = {
    "v2version.is_valid_week_pattern": ("GenF.isValidWeekPattern", [STR], BOOL, "BumpverVerif.Gen.F_isValidWeekPattern"),
}

FUNCS = [
    dict(name="iterGlobExpandedFilePatterns", file="config.py", func="_iter_glob_expanded_file_patterns",
         params=[("raw_patterns_by_file", FPS)], ret=ITEM, pygen=True,
         extern_funcs={"pl.Path().glob": X_GLOB}),
    dict(name="compileV1FilePatterns", file="config.py", func="_compile_v1_file_patterns",
         params=[("raw_cfg", RAW)], ret=CITEM, pygen=True, implicit="{π : Type}",
         extern_funcs={"pl.Path().glob": X_GLOB, "v1patterns.compile_patterns": X_CPS1}),
    dict(name="compileV2FilePatterns", file="config.py", func="_compile_v2_file_patterns",
         params=[("raw_cfg", RAW)], ret=CITEM, pygen=True, implicit="{π : Type}",
         extern_funcs={"pl.Path().glob": X_GLOB, "v2patterns.compile_pattern": X_CP2,
                       "v2patterns.compile_patterns": X_CPS2}),
    dict(name="compileFilePatterns", file="config.py", func="_compile_file_patterns",
         params=[("raw_cfg", RAW), ("is_new_pattern", BOOL)], ret=DICTOF(LIST(PI)), implicit="{π : Type}",
         extern_funcs={"pl.Path().glob": X_GLOB, "v2patterns.compile_pattern": X_CP2,
                       "v2patterns.compile_patterns": X_CPS2, "v1patterns.compile_patterns": X_CPS1}),
    dict(name="validateVersionWithPattern", file="config.py", func="_validate_version_with_pattern",
         params=[("current_version", STR), ("version_pattern", STR), ("is_new_pattern", BOOL)], ret=NONE,
         implicit="{π2 π1 : Type}",
         extern_funcs={"v2version.parse_version_info": X_PVI2, "v1version.parse_version_info": X_PVI1}),
    dict(name="parseRawConfig", file="config.py", func="_parse_raw_config",
         params=[("ctx", REC("ProjectContext"))], ret=RAW, fs=True,
         externs={"_ConfigParser()": ("parser", INI), "toml.load(cfg_buffer)": ("loaded", DREC("TomlFull"))}),
]

MODEL_MODULE = "BumpverVerif.Model.FilePatterns"


def has_yield(stmts):
    return any(isinstance(n, (ast.Yield, ast.YieldFrom)) for s in stmts for n in ast.walk(s))


# ----------------------------------------------------------------------------------
# the translator
# ----------------------------------------------------------------------------------
class FpTranslator(tc.CfgTranslator):
    def __init__(self, spec, sources, group):
        tc.CfgTranslator.__init__(self, spec, sources, group)
        self.mode = "gen" if spec.get("pygen") else "exc"     # what an error / the end of a block looks like
        self.reraise = []           # Lean names of the exceptions caught by the enclosing handlers
        self.other_imports = []

    # -- types -----------------------------------------------------------------------------------
    def lean_type(self, t):
        k = t[0]
        if k == "gen":
            return "Py.PyGen %s" % self.paren_type(t[1])
        if k in ("pathobj", "rematch"):
            return "Str"
        return tc.CfgTranslator.lean_type(self, t)

    def unify(self, a, b):
        if a == b:
            return a
        for x, y in ((a, b), (b, a)):
            if x == PATHOBJ and y == STR:
                return None         # a Path is not a str: `str(p)` is needed
        return tc.CfgTranslator.unify(self, a, b)

    def truthy_of(self, lean, t, node):
        if t == REMATCH:
            return "true"           # a match object is always truthy
        if t[0] == "gen" or t == PATHOBJ:
            self.bad(node, "truthiness of a value of type %r is not defined in the subset" % (t,))
        return tc.CfgTranslator.truthy_of(self, lean, t, node)

    # -- errors: `Except.error` in a function / try body, `Py.PyGen.raise` in a generator body ---------
    def err_term(self, cls_lean):
        self.errs += 1
        if self.mode == "gen":
            return "(Py.PyGen.raise %s)" % cls_lean
        return "(Except.error %s)" % cls_lean

    def err(self, cls):
        return self.err_term(lean_str(cls))

    def with_hoists(self, compute, cont):
        saved = self.hoists
        self.hoists = []
        try:
            val = compute()
            hs = self.hoists
        finally:
            self.hoists = saved
        body = cont(val)
        for h in reversed(hs):
            if len(h) == 2:
                h = (h[0], h[1], "opt", "ValueError")
            name, e, kind, cls = h
            if kind == "opt":
                body = "(match %s with\n  | none => %s\n  | some %s => %s)" % (e, self.err_term(lean_str(cls)), name, _arm(body))
            else:
                body = "(match %s with\n  | Except.error err => %s\n  | Except.ok %s => %s)" % (
                    e, self.err_term("err"), name, _arm(body))
        return body

    def in_mode(self, mode, thunk):
        saved, self.mode = self.mode, mode
        try:
            return thunk()
        finally:
            self.mode = saved

    # -- dicts ----------------------------------------------------------------------------------------
    def dict_set_item(self, d, dt, knode, v, vt, env, node):
        if dt[0] == "dictof":
            k, kt = self.expr(knode, env)
            if kt != STR:
                self.bad(knode, "dict key of type %r" % (kt,))
            return "(setOpt %s %s %s)" % (k, self.coerce(v, vt, dt[1], node), d)
        return tc.CfgTranslator.dict_set_item(self, d, dt, knode, v, vt, env, node)

    # -- expressions ----------------------------------------------------------------------------------
    def call(self, node, env):
        f = node.func
        fname = ast.unparse(f)
        if fname == "list" and len(node.args) == 1 and not node.keywords and "list" not in env \
                and not (isinstance(node.args[0], ast.Name) and node.args[0].id in tf.ENUMS and node.args[0].id not in env):
            # list(xs) of something that already is a list (the value of a callee parameter): a copy
            a, ta = self.expr(node.args[0], env)
            if ta[0] == "list" and ta[1] is not None:
                return a, ta
            self.bad(node, "list() of a value of type %r" % (ta,))
        if fname == "str" and len(node.args) == 1 and not node.keywords and "str" not in env:
            saved_c = self.counter
            try:
                a, ta = self.expr(node.args[0], env)
            except Untranslatable:
                self.counter = saved_c
                return tc.CfgTranslator.call(self, node, env)
            if ta == PATHOBJ:
                return a, STR           # ASSUMPTION: a Path of a glob result is represented by its str()
            self.counter = saved_c
            return tc.CfgTranslator.call(self, node, env)
        if fname == "re.search" and len(node.args) == 2 and not node.keywords and "re" not in env:
            p = node.args[0]
            if not (isinstance(p, ast.Constant) and p.value == "([\\s]+)"):
                self.bad(node, "re.search with a pattern other than r\"([\\s]+)\"")
            a, ta = self.expr(node.args[1], env)
            if ta != STR:
                self.bad(node, "re.search on a value of type %r" % (ta,))
            return "(Py.reSearchWs %s)" % a, OPT(REMATCH)
        if fname in OTHER_GROUP and not self.shadowed(f, env):
            ln, pts, rt, imp = OTHER_GROUP[fname]
            if node.keywords or len(node.args) != len(pts):
                self.bad(node, "call of `%s` does not fit its declared signature" % fname)
            args = []
            for an, pt in zip(node.args, pts):
                a, ta = self.expr(an, env)
                args.append(self.coerce(a, ta, pt, an))
            if imp not in self.other_imports:
                self.other_imports.append(imp)
            return "(%s %s)" % (ln, " ".join(args)), rt
        return tc.CfgTranslator.call(self, node, env)

    def call_translated(self, node, fname, env):
        cs = self.group[fname]
        # arguments for parameters the callee's translation drops (`cfg_buffer`) are not evaluated
        dropped = [i for i, (p, t) in enumerate(cs["params"]) if t == DROPPED]
        if dropped and len(node.args) == len(cs["params"]) and not node.keywords:
            for i in dropped:
                a = node.args[i]
                if not (isinstance(a, ast.Name) and a.id in env and env[a.id].type[0] == "file"):
                    self.bad(node, "the dropped argument of `%s` must be the open file" % fname)
            node = ast.copy_location(ast.Call(func=node.func, args=[a for i, a in enumerate(node.args) if i not in dropped],
                                              keywords=[]), node)
        if cs.get("pygen"):
            # calling a generator function runs nothing: the value is the generator
            if node.keywords or len(node.args) != len(cs["params"]):
                self.bad(node, "call of `%s` does not fit its signature" % fname)
            head = [cs["name"]]
            for key, xfd in cs.get("extern_funcs", {}).items():
                if self.spec.get("extern_funcs", {}).get(key) != xfd:
                    self.bad(node, "callee `%s` needs the callee parameter `%s`" % (fname, xfd[0]))
                head.append(xfd[0])
            for an, (p, pt) in zip(node.args, cs["params"]):
                a, ta = self.expr(an, env)
                head.append(self.coerce(a, ta, pt, an))
            return "(%s)" % " ".join(head), GEN(cs["ret"])
        return tc.CfgTranslator.call_translated(self, node, fname, env)

    # -- statements -----------------------------------------------------------------------------------
    def ret(self, node, env, at):
        if self.spec.get("pygen"):
            if self.mode != "gen":
                self.bad(at, "`return` inside a try body / an inner loop of a generator")
            if node is not None:
                self.bad(at, "`return value` in a generator")
            return "Py.PyGen.done"
        return tc.CfgTranslator.ret(self, node, env, at)

    def block(self, stmts, env, k):
        if not stmts:
            return k(env)
        st, rest = stmts[0], stmts[1:]

        def kr(e):
            return self.block(rest, e, k)
        if self.is_dropped(st):
            return kr(env)
        if isinstance(st, ast.Raise):
            if st.cause is not None:
                self.bad(st, "`raise ... from ...`")
            if st.exc is None:
                if not self.reraise:
                    self.bad(st, "a bare `raise` outside an `except` handler")
                return self.err_term(self.reraise[-1])
            exc = st.exc
            cnode = exc.func if isinstance(exc, ast.Call) else exc
            name = exc_class_name(cnode, self)
            if name not in RAISE_CLASSES:
                self.bad(st, "`raise` of something that is not one of %s" % sorted(RAISE_CLASSES))
            return self.err(name)
        if isinstance(st, ast.Try):
            return self.try_stmt(st, rest, env, k)
        if isinstance(st, ast.AnnAssign) and st.value is not None and isinstance(st.target, ast.Name):
            key = ast.unparse(st.annotation)
            if key in MY_DECLARED:
                self.declared[st.target.id] = MY_DECLARED[key]
        if isinstance(st, ast.Assign) and len(st.targets) == 1 and self.is_nested_item(st.targets[0], env):
            return self.assign_nested_item(st, env, kr)
        return tc.CfgTranslator.block(self, stmts, env, k)

    def is_nested_item(self, tg, env):
        return (isinstance(tg, ast.Subscript) and isinstance(tg.value, ast.Subscript)
                and isinstance(tg.value.value, ast.Name) and tg.value.value.id in env)

    def assign_nested_item(self, st, env, kr):
        """`d[k1][k2] = v`: the inner dict is read (KeyError), updated, and stored back"""
        tg = st.targets[0]
        dname = tg.value.value.id
        d = env[dname]
        box = {}

        def compute():
            inner, it = self.dict_get_item(d.lean, d.type, tg.value.slice, env, st)
            if not (it == FPS or it[0] == "dictof"):
                self.bad(st, "`d[k1][k2] = v` where d[k1] has type %r" % (it,))
            v, vt = self.expr(st.value, env)
            new_inner = self.dict_set_item(inner, it, tg.slice, v, vt, env, st)
            return self.dict_set_item(d.lean, d.type, tg.value.slice, new_inner, it, env, st)

        def cont(new):
            env2 = dict(env)
            env2[dname] = Var(d.lean, d.type)
            return "let %s := %s;\n%s" % (d.lean, new, kr(env2))
        return self.with_hoists(compute, cont)

    def expr_stmt(self, st, env, kr):
        v = st.value
        if isinstance(v, ast.Yield):
            if not self.spec.get("pygen") or v.value is None:
                self.bad(st, "`yield` outside a declared generator / without a value")
            if self.mode != "gen":
                self.bad(st, "`yield` inside a try body / a loop translated as a plain loop")

            def compute():
                e, t = self.expr(v.value, env)
                return self.coerce(e, t, self.spec["ret"], st)

            def cont(item):
                return "(Py.PyGen.yield %s\n%s)" % (item, indent(kr(env), 2))
            return self.with_hoists(compute, cont)
        if isinstance(v, ast.Call) and isinstance(v.func, ast.Attribute) and v.func.attr == "extend" \
                and isinstance(v.func.value, ast.Subscript) and isinstance(v.func.value.value, ast.Name) \
                and v.func.value.value.id in env and len(v.args) == 1 and not v.keywords:
            # d[k].extend(xs): the list stored under k is replaced by its extension.
            # ASSUMPTION: that list object is not aliased elsewhere (it is the fresh list a `compile_patterns`
            # call returned and `d[k] = patterns` stored)
            dname = v.func.value.value.id
            d = env[dname]
            if not (d.type[0] == "dictof" and d.type[1][0] == "list"):
                self.bad(st, "`.extend` on an item of a value of type %r" % (d.type,))

            def compute():
                old, ot = self.dict_get_item(d.lean, d.type, v.func.value.slice, env, st)
                xs, xt = self.expr(v.args[0], env)
                if self.unify(ot, xt) != ot:
                    self.bad(st, "extend of a %r by a %r" % (ot, xt))
                k_, _ = self.expr(v.func.value.slice, env)
                return "(setOpt %s (%s ++ %s) %s)" % (k_, old, self.coerce(xs, xt, ot, st), d.lean)

            def cont(new):
                env2 = dict(env)
                env2[dname] = Var(d.lean, d.type)
                return "let %s := %s;\n%s" % (d.lean, new, kr(env2))
            return self.with_hoists(compute, cont)
        return tc.CfgTranslator.expr_stmt(self, st, env, kr)

    def if_stmt(self, st, rest, env, k):
        if self.mode == "gen":
            # in a generator body the rest of the block is continued inside both branches (no join: a branch
            # may yield)
            def kr(e):
                return self.block(rest, e, k)
            return self.cond(st.test, env, lambda e: self.block(st.body, e, kr), lambda e: self.block(st.orelse, e, kr))
        return tc.CfgTranslator.if_stmt(self, st, rest, env, k)

    # -- try / except ------------------------------------------------------------------------------------
    def try_stmt(self, st, rest, env, k):
        """try: BODY / except C [as x]: HANDLER.  BODY (no yield, no return, no assignment that is used
        later) is translated to an `Except Str Unit`; the handler of C runs when the class is C — a bare
        `raise` in it re-raises what was caught — every other exception passes through."""
        if st.orelse or st.finalbody:
            self.bad(st, "try/else and try/finally")
        body = [s for s in st.body if not self.is_dropped(s)]
        if has_yield(body) or any(isinstance(n, (ast.Return, ast.Break, ast.Continue)) for s in body for n in ast.walk(s)):
            self.bad(st, "yield/return/break/continue inside a `try` body")
        probes = []
        saved_c, saved_e, saved_a, saved_n = self.counter, self.errs, len(self.aux), self.nloops

        def probe():
            self.block(body, env, lambda e: (probes.append(e), "?")[1])
        self.in_mode("exc", probe)
        self.counter, self.errs, self.nloops = saved_c, saved_e, saved_n
        del self.aux[saved_a:]
        names = self.changed_vars(env, probes)
        names = [n for n in names if probes and probes[0][n].type not in (MSG,)]
        if names:
            self.bad(st, "a `try` body that assigns variables (%s)" % ", ".join(names))
        t = self.in_mode("exc", lambda: self.block(body, env, lambda e: "(Except.ok ())"))
        ev = self.fresh("ex")

        def kr(e):
            return self.block(rest, e, k)
        arms = []
        for h in st.handlers:
            if h.type is None:
                self.bad(h, "a bare `except:`")
            if isinstance(h.type, ast.Tuple):
                classes = [exc_class_name(x, self) for x in h.type.elts]
            else:
                classes = [exc_class_name(h.type, self)]
            # `as x` binds nothing here: x may only occur in dropped logger calls / erased messages
            self.reraise.append(ev)
            try:
                hb = self.block(list(h.body), env, kr)
            finally:
                self.reraise.pop()
            test = " || ".join("%s == %s" % (ev, lean_str(c)) for c in classes)
            arms.append((test, hb))
        other = self.err_term(ev)
        chain = other
        for test, hb in reversed(arms):
            chain = "(if %s then %s else %s)" % (test, _nl(hb), _nl(chain))
        return "(match (%s : Except Str Unit) with\n  | Except.ok _ => %s\n  | Except.error %s => %s)" % (
            t, _arm(kr(env)), ev, _arm(chain))

    # -- loops: closed auxiliary definitions -----------------------------------------------------------------
    def for_stmt(self, st, rest, env, k):
        if st.orelse:
            self.bad(st, "`for ... else`")
        box = {}

        def compute():
            xs, t = self.expr(st.iter, env)
            if t[0] == "gen":
                box["gen"] = (xs, t[1])
            elif t[0] == "list" and t[1] is not None:
                box["list"] = (xs, t[1])
            else:
                self.bad(st.iter, "loop over a value of type %r" % (t,))
            return None

        def cont(_):
            if "gen" in box:
                g, et = box["gen"]
                if self.is_stable_atom(g):
                    return self.for_closed(st, rest, env, k, "%s.items" % g, et, "%s.exc" % g)
                gv = self.fresh("g")
                return "let %s := %s;\n%s" % (gv, g, self.for_closed(st, rest, env, k, "%s.items" % gv, et, "%s.exc" % gv))
            xs, et = box["list"]
            return self.for_closed(st, rest, env, k, xs, et, None)
        return self.with_hoists(compute, cont)

    def for_closed(self, st, rest, env, k, xs, et, tail):
        """`for x in xs: BODY` as `<f>.loopN externs fixed carried : List T -> R` with
           R = `Py.PyGen T'` (BODY yields; nothing is carried; `[]` => `Py.PyGen.done`) or
           R = `Except Str S` (S = the loop-carried variables; `[]` => `Except.ok carried`).
        `tail` (the `.exc` of the generator iterated over) is re-raised after the loop."""
        body = [s for s in st.body if not self.is_dropped(s)]
        if any(isinstance(n, (ast.Return, ast.Break)) for s in body for n in ast.walk(s)):
            self.bad(st, "return/break inside a loop")
        yields = has_yield(body)
        if yields and self.mode != "gen":
            self.bad(st, "a yielding loop inside a try body / plain loop")
        loop_mode = "gen" if yields else "exc"
        x, env_in = self.loop_target(st, et, env)

        def run_body(e, kk):
            self.loop_k.append(kk)
            try:
                return self.block(body, e, kk)
            finally:
                self.loop_k.pop()

        # loop-carried variables (assigned in the body, defined before the loop)
        saved_a, saved_n = len(self.aux), self.nloops
        names, st_types = self.in_mode(loop_mode, lambda: self.carried_vars(body, env_in, env, run_body))
        del self.aux[saved_a:]
        self.nloops = saved_n
        if yields and names:
            self.bad(st, "a yielding loop that carries variables (%s)" % ", ".join(names))
        self.nloops += 1
        name = "%s.loop%d" % (self.spec["name"], self.nloops)
        used = {n.id for s in body for n in ast.walk(s) if isinstance(n, ast.Name)}
        fixed = []
        for n, v in env.items():
            if n in names or n not in used or n.startswith("$"):
                continue
            if v.type[0] in ("msg", "file", "emptydict", "dropped", "none") or (v.type[0] == "list" and v.type[1] is None):
                continue
            fixed.append(n)
        params, head_args = [], []
        for ln, ty in self.extern_params():
            params.append("(%s : %s)" % (ln, ty))
            head_args.append(ln)
        env_aux = {}
        for n in fixed:
            v = env[n]
            env_aux[n] = Var(lean_ident(n), v.type)
            params.append("(%s : %s)" % (lean_ident(n), self.lean_type(v.type)))
        for n in names:
            env_aux[n] = Var(lean_ident(n), st_types[n])
            params.append("(%s : %s)" % (lean_ident(n), self.lean_type(st_types[n])))
        rest_var = self.fresh("rest")

        def tup(e):
            vals = [self.coerce(e[n].lean, e[n].type, st_types[n], st) for n in names]
            return "()" if not vals else (vals[0] if len(vals) == 1 else "(" + ", ".join(vals) + ")")

        def call_with(e, carried_from, lst):
            args = list(head_args)
            for n in fixed:
                args.append(e[n].lean)
            for n in names:
                args.append(self.coerce(carried_from[n].lean, carried_from[n].type, st_types[n], st))
            return "(%s %s)" % (name, " ".join(args + [lst]))

        x2, env_body = self.loop_target(st, et, env_aux)
        cons = self.in_mode(loop_mode, lambda: run_body(env_body, lambda e: call_with(env_aux, e, rest_var)))
        if yields:
            rty = self.result_type()
            nil = "Py.PyGen.done"
        else:
            tys = [self.lean_type(st_types[n]) for n in names]
            sty = "Unit" if not tys else (tys[0] if len(tys) == 1 else "(" + " × ".join(tys) + ")")
            rty = "Except Str %s" % (("(%s)" % sty) if (" " in sty and not sty.startswith("(")) else sty)
            nil = "(Except.ok %s)" % tup(env_aux)
        implicit = (self.spec["implicit"] + " ") if self.spec.get("implicit") else ""
        text = "def %s %s%s : List %s → %s\n  | [] => %s\n  | %s :: %s =>\n%s\n" % (
            name, implicit, " ".join(params), self.paren_type(et), rty, nil, x2, rest_var, indent(cons, 6))
        self.aux.append(text)

        # the statement itself
        call = call_with(env, env, xs)
        env2 = dict(env)
        for n in names:
            env2[n] = Var(lean_ident(n), st_types[n])
        if yields:
            after = self.block(rest, env2, k)
            if tail is not None:
                after = "(Py.PyGen.andThen (Py.PyGen.ofExc %s)\n%s)" % (tail, indent(after, 2))
            return "(Py.PyGen.andThen %s\n%s)" % (call, indent(after, 2))
        lns = [lean_ident(n) for n in names]
        pat = "_" if not lns else (lns[0] if len(lns) == 1 else "(" + ", ".join(lns) + ")")
        after = self.block(rest, env2, k)
        if tail is not None:
            after = "(match %s with\n  | some err => %s\n  | none => %s)" % (tail, self.err_term("err"), _arm(after))
        return "(match %s with\n  | Except.error err => %s\n  | Except.ok %s => %s)" % (
            call, self.err_term("err"), pat, _arm(after))

    # -- the whole function ----------------------------------------------------------------------------------
    def result_type(self):
        if self.spec.get("pygen"):
            return "Py.PyGen %s" % self.paren_type(self.spec["ret"])
        return tc.CfgTranslator.result_type(self)

    def translate(self):
        spec = self.spec
        src, node = self.src.find(spec["file"], ast.FunctionDef, spec["func"])
        if node is None:
            raise Untranslatable(self.fn, None, "function not found in %s" % spec["file"])
        self.source_text = ast.get_source_segment(src, node)
        a = node.args
        if a.vararg or a.kwarg or a.kwonlyargs or a.posonlyargs:
            self.bad(node, "only plain positional parameters")
        pynames = [x_.arg for x_ in a.args]
        if pynames != [p for p, _ in spec["params"]]:
            self.bad(node, "parameters are %s, the signature table expects %s" % (pynames, [p for p, _ in spec["params"]]))
        is_gen = has_yield(node.body)
        if is_gen != bool(spec.get("pygen")):
            self.bad(node, "the function %s a generator, the signature table says otherwise" % ("is" if is_gen else "is not"))
        self.parser_vars = set()
        bound = set()
        for n in ast.walk(node):
            if isinstance(n, ast.Name) and isinstance(n.ctx, (ast.Store, ast.Del)):
                bound.add(n.id)
            if isinstance(n, ast.Call) and ast.unparse(n.func) in self.group:
                for a_ in n.args:
                    if isinstance(a_, ast.Name):
                        bound.add(a_.id)
            if isinstance(n, ast.Subscript) and isinstance(n.ctx, ast.Store):
                b = n.value
                while isinstance(b, ast.Subscript):
                    b = b.value
                if isinstance(b, ast.Name):
                    bound.add(b.id)
            if isinstance(n, ast.Call) and isinstance(n.func, ast.Attribute) and n.func.attr in ("append", "write", "extend"):
                b = n.func.value
                while isinstance(b, ast.Subscript):
                    b = b.value
                if isinstance(b, ast.Name):
                    bound.add(b.id)
        self.py_names = {n.id for n in ast.walk(node) if isinstance(n, ast.Name)} | {x_.arg for x_ in a.args}
        self.stable_roots = {lean_ident(p) for p, t in spec["params"] if t != DROPPED and p not in bound}
        self.stable_roots |= {ln for ln, _ in self.extern_params()}
        env = {}
        params = []
        for ln, ty in self.extern_params():
            params.append("(%s : %s)" % (ln, ty))
        if spec.get("fs"):
            env["$fs"] = Var("fs", ("fs",))
            params.append("(fs : ProjFS)")
        for p, t in spec["params"]:
            if t == DROPPED:
                continue
            if t[0] == "rec":
                self.record(t[1])
            if p == "fs" and spec.get("fs"):
                self.bad(node, "a parameter named `fs` clashes with the file system parameter")
            env[p] = Var(lean_ident(p), t)
            params.append("(%s : %s)" % (lean_ident(p), self.lean_type(t)))
        for key, (ln, t) in spec.get("externs", {}).items():
            if t == INI:
                for n in ast.walk(node):
                    if isinstance(n, ast.Assign) and ast.unparse(n.value) == key:
                        for tg in n.targets:
                            if isinstance(tg, ast.Name):
                                self.parser_vars.add(tg.id)

        def fall_off(e):
            return self.ret(None, e, node)
        body = self.block(list(node.body), env, fall_off)
        texts = [body] + list(self.aux)
        for key, (ln, _) in spec.get("externs", {}).items():
            if not any(ln in t_ for t_ in texts):
                self.bad(node, "the expression `%s` (abstracted as parameter `%s`) does not occur" % (key, ln))
        for key, (ln, _, _, _) in spec.get("extern_funcs", {}).items():
            if not any(("(%s " % ln) in t_ for t_ in texts):
                self.bad(node, "the callee `%s` (parameter `%s`) is never called" % (key, ln))
        head = "def %s %s%s : %s :=" % (spec["name"], (spec["implicit"] + " ") if spec.get("implicit") else "",
                                       " ".join(params), self.result_type())
        return [self.const_defs[k_] for k_ in sorted(self.const_defs)] + list(self.aux), head + "\n" + indent(body, 2) + "\n"


# ----------------------------------------------------------------------------------
# rendering
# ----------------------------------------------------------------------------------
def full_group():
    """python function name -> spec, for the functions of this group and of group `config` (callees)"""
    g = {s["func"]: s for s in tc.FUNCS}
    g.update({s["func"]: s for s in FUNCS})
    return g


def render(spec, sources, group):
    fname = "F_%s.lean" % spec["name"]
    tr = FpTranslator(spec, sources, group)
    where = "src/bumpver/%s" % spec["file"]
    try:
        aux, body = tr.translate()
    except Untranslatable as ex:
        text = getattr(tr, "source_text", None)
        lines = [
            "/- GENERATED by harness/translate_filepatterns.py. Do not edit.",
            "   source   : %s" % where,
            "   function : %s" % spec["func"],
            "   sha256   : %s" % (tf.sha256(text) if text else "(function not found)"),
            "",
            "   UNTRANSLATABLE: %s" % str(ex).replace("-/", "- /"),
            "   (no definition is generated; BV.tie_%s cannot compile until this is resolved) -/" % spec["name"],
            "",
        ]
        return fname, "\n".join(lines), ex
    except Exception as ex:  # never a silent success
        lines = [
            "/- GENERATED by harness/translate_filepatterns.py. Do not edit.",
            "   source   : %s" % where,
            "   function : %s" % spec["func"],
            "",
            "   UNTRANSLATABLE: the source could not be read/parsed/translated: %s: %s -/"
            % (type(ex).__name__, str(ex).replace("-/", "- /")),
            "",
        ]
        return fname, "\n".join(lines), ex
    lines = [
        "/- GENERATED by harness/translate_filepatterns.py from the Python AST. Do not edit.",
        "   source   : %s" % where,
        "   function : %s" % spec["func"],
        "   sha256   : %s  (of the function's source text) -/" % tf.sha256(tr.source_text),
        "import %s" % tc.TYPES_MODULE,
        "import %s" % MODEL_MODULE,
    ]
    for imp in tr.other_imports:
        lines.append("import %s" % imp)
    called = set()
    _, node = sources.find(spec["file"], ast.FunctionDef, spec["func"])
    for n in ast.walk(node):
        if isinstance(n, ast.Call) and ast.unparse(n.func) in group and ast.unparse(n.func) != spec["func"]:
            called.add(group[ast.unparse(n.func)]["name"])
    for c in sorted(called):
        lines.append("import BumpverVerif.Gen.F_%s" % c)
    lines.append("set_option linter.unusedVariables false")
    lines.append("namespace BV.GenF")
    lines.append("")
    for d in aux:
        if not d.startswith("/--"):
            lines.append("/-- a loop of `%s.%s` -/" % (spec["file"][:-3], spec["func"]))
        lines.append(d)
    lines.append("/-- `%s.%s` -/" % (spec["file"][:-3], spec["func"]))
    lines.append(body)
    lines.append("end BV.GenF")
    lines.append("")
    return fname, "\n".join(lines), None


def generate(report=None):
    """{filename: content} for lean/BumpverVerif/Gen/"""
    sources = tf.Sources()
    group = full_group()
    out = {}
    for spec in FUNCS:
        fname, content, err = render(spec, sources, group)
        out[fname] = content
        if report is not None:
            report.append((spec["func"], fname, err))
    return out


def main():
    rep = []
    files = generate(rep)
    gen = os.path.join(os.path.dirname(HERE), "lean", "BumpverVerif", "Gen")
    only = [a for a in sys.argv[1:] if not a.startswith("--")]
    if "--write" in sys.argv:
        for name, content in files.items():
            path = os.path.join(gen, name)
            old = open(path, encoding="utf-8").read() if os.path.exists(path) else None
            if old != content:
                with open(path, "w", encoding="utf-8") as f:
                    f.write(content)
                print("wrote", name)
    for func, fname, err in rep:
        print("%-42s %-42s %s" % (func, fname, "ok" if err is None else "UNTRANSLATABLE: %s" % err))
    if "--show" in sys.argv:
        for name, content in files.items():
            if only and not any(o in name for o in only):
                continue
            print("=" * 20, name)
            print(content)
    return 0


if __name__ == "__main__":
    sys.exit(main())
