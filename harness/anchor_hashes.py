#!/usr/bin/env python3
"""SHA-256 of the normalised AST of every source file a property is anchored in (properties.jsonl -> anchors.files).
`/venv/bin/python harness/anchor_hashes.py --write` (the interpreter the checks run under: ast.dump differs between versions) records the baseline (harness/anchor_hashes.json, committed);
check.py compares: a changed hash is NOT an alarm, it triples the exploration budget of that property's check
(the place where model and code are most likely to have drifted gets the deepest run)."""
import ast, hashlib, json, os, sys

VERIF = os.path.dirname(os.path.dirname(os.path.abspath(__file__)))
REPO = os.environ.get("VERIF_REPO", "/repo")
BASE = os.path.join(VERIF, "harness", "anchor_hashes.json")


def file_hash(path):
    try:
        tree = ast.parse(open(path, encoding="utf-8").read())
    except (OSError, SyntaxError):
        return None
    for node in ast.walk(tree):      # drop docstrings
        if isinstance(node, (ast.FunctionDef, ast.ClassDef, ast.Module, ast.AsyncFunctionDef)) and node.body and \
                isinstance(node.body[0], ast.Expr) and isinstance(getattr(node.body[0], "value", None), ast.Constant) and \
                isinstance(node.body[0].value.value, str):
            node.body = node.body[1:] or [ast.Pass()]
    return hashlib.sha256(ast.dump(tree).encode()).hexdigest()


def current():
    out = {}
    for line in open(os.path.join(VERIF, "properties.jsonl")):
        d = json.loads(line)
        out[d["id"]] = {f: file_hash(os.path.join(REPO, f)) for f in d["anchors"]["files"]}
    return out


def changed_files(pid):
    if not os.path.exists(BASE):
        return []
    base = json.load(open(BASE)).get(pid, {})
    cur = current().get(pid, {})
    return sorted(f for f in cur if base.get(f) != cur[f])


if __name__ == "__main__":
    if "--write" in sys.argv:
        json.dump(current(), open(BASE, "w"), indent=1, sort_keys=True)
        print("baseline written")
    else:
        for pid in sorted(current()):
            print(pid, changed_files(pid))
