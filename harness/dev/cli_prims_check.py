#!/venv/bin/python
"""Sanity check of the SPECIFICATIONS of the list primitives of lean/BumpverVerif/Model/CliPrims.lean against CPython:
the insertion-sort specification of `pySortedRev` / `pySorted` and the fold specification of `pyMaxBy` / `pyMinBy` are
re-implemented here literally (same recursion as the Lean text) and compared with `sorted(.., key=, reverse=)`,
`max(.., key=)`, `min(.., key=)` on random lists with many equal keys, with bumpver's own `parse_version` as key
on version-like strings (equal keys with different texts: `1.0` / `1.0.0` / `v1.0`).
Usage: /venv/bin/python harness/dev/cli_prims_check.py [n_cases]"""
import random
import sys

from bumpver import version


def py_insert_desc(lt, key, x, l):
    if not l:
        return [x]
    y, ys = l[0], l[1:]
    return [y] + py_insert_desc(lt, key, x, ys) if lt(key(x), key(y)) else [x] + l


def py_sorted_rev(lt, key, xs):
    return [] if not xs else py_insert_desc(lt, key, xs[0], py_sorted_rev(lt, key, xs[1:]))


def py_insert_asc(lt, key, x, l):
    if not l:
        return [x]
    y, ys = l[0], l[1:]
    return [y] + py_insert_asc(lt, key, x, ys) if lt(key(y), key(x)) else [x] + l


def py_sorted(lt, key, xs):
    return [] if not xs else py_insert_asc(lt, key, xs[0], py_sorted(lt, key, xs[1:]))


def py_max_by(lt, key, xs):
    best = xs[0]
    for x in xs[1:]:
        if lt(key(best), key(x)):
            best = x
    return best


def py_min_by(lt, key, xs):
    best = xs[0]
    for x in xs[1:]:
        if lt(key(x), key(best)):
            best = x
    return best


def main():
    n = int(sys.argv[1]) if len(sys.argv) > 1 else 3000
    rnd = random.Random(20260930)
    pool = ["1.0", "1.0.0", "v1.0", "1.0a1", "1.0.dev3", "1.0.post1", "1.0rc1", "2.0", "0.9", "1", "01.0", "1.0+x",
            "1.0+1", "junk", "JUNK", "v2024.1001-beta", "2024.1001b0", "1.0-1", "1!0.1", "1.0.dev3+a"]
    lt = lambda a, b: a < b
    bad = 0
    for _ in range(n):
        xs = [rnd.choice(pool) for _ in range(rnd.randint(1, 9))]
        # tag every element with its position so that equal texts are distinguishable
        items = list(enumerate(xs))
        key = lambda it: version.parse_version(it[1])
        checks = [
            (py_sorted_rev(lt, key, items), sorted(items, key=key, reverse=True), "sorted reverse"),
            (py_sorted(lt, key, items), sorted(items, key=key), "sorted"),
            (py_max_by(lt, key, items), max(items, key=key), "max"),
            (py_min_by(lt, key, items), min(items, key=key), "min"),
            (py_sorted_rev(lt, key, items)[0], max(items, key=key), "sorted(reverse)[0] == max"),
        ]
        l2 = list(items)
        l2.sort(key=key, reverse=True)
        checks.append((py_sorted_rev(lt, key, items), l2, "list.sort reverse"))
        for mine, theirs, what in checks:
            if mine != theirs:
                bad += 1
                print("DIFFERENCE (%s): %r -> spec %r, CPython %r" % (what, xs, mine, theirs))
    print("%d cases, %d differences" % (n, bad))
    return 1 if bad else 0


if __name__ == "__main__":
    sys.exit(main())
