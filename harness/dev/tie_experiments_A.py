#!/venv/bin/python
"""Robustness demonstration for the bump core of v2version.py (the four functions added to
harness/translate_funcs.py in session 3: `_iter_reset_field_items`, `_reset_rollover_fields`,
`_incr_numeric`, `incr`).  Same protocol and machinery as harness/dev/tie_experiments.py:

  kind 'break'   : a plausible one-token semantic edit  -> Tie_<name>.lean must NO LONGER compile
                   (or the function becomes UNTRANSLATABLE)
  kind 'harmless': a behaviour-preserving rewrite        -> the function must still translate and
                   Tie_<name>.lean must still compile UNCHANGED

The last block repeats, one by one, the rewrite kinds that three independent behaviour-preserving refactorings
of bumpver (harmless1..3.diff) used in the functions of this translator module.

Usage: /venv/bin/python harness/dev/tie_experiments_A.py [name ...]
Output of the last full run: harness/dev/tie_experiments_A.out.txt
"""
import os
import sys

HERE = os.path.dirname(os.path.abspath(__file__))
sys.path.insert(0, HERE)
import tie_experiments as T   # noqa: E402

T.E[:] = []
exp = T.exp
F = "v2version.py"

# ---- _iter_reset_field_items -------------------------------------------------------------------------
N = "iterResetFieldItems"
exp(N, F, "break", "`has_reset and initial_val is not None` -> `or`",
    "        if has_reset and initial_val is not None:", "        if has_reset or initial_val is not None:")
exp(N, F, "break", "`!=` -> `==` between the two getattr",
    "        elif getattr(old_vinfo, field) != getattr(cur_vinfo, field):",
    "        elif getattr(old_vinfo, field) == getattr(cur_vinfo, field):")
exp(N, F, "break", "`has_reset = True` -> `has_reset = False`",
    "            has_reset = True\n", "            has_reset = False\n")
exp(N, F, "break", "initial `has_reset = False` -> `True`",
    "    has_reset = False\n    for field in fields:", "    has_reset = True\n    for field in fields:")
exp(N, F, "break", "`yield field, initial_val` -> `yield initial_val, field`",
    "            yield field, initial_val", "            yield initial_val, field")
exp(N, F, "break", "`getattr(cur_vinfo, field)` -> `getattr(old_vinfo, field)`",
    "        elif getattr(old_vinfo, field) != getattr(cur_vinfo, field):",
    "        elif getattr(old_vinfo, field) != getattr(old_vinfo, field):")
exp(N, F, "break", "`V2_FIELD_INITIAL_VALUES` -> `PART_ZERO_VALUES` (another generated table)",
    "        initial_val = version.V2_FIELD_INITIAL_VALUES.get(field)",
    "        initial_val = version.PART_ZERO_VALUES.get(field)")
exp(N, F, "break", "`is not None` -> `is None`",
    "        if has_reset and initial_val is not None:", "        if has_reset and initial_val is None:")
exp(N, F, "harmless", "local renamed, conjuncts commuted, docstring added",
    "    # Any field to the left of another can reset all to the right\n    has_reset = False\n    for field in fields:\n"
    "        initial_val = version.V2_FIELD_INITIAL_VALUES.get(field)\n        if has_reset and initial_val is not None:\n"
    "            yield field, initial_val",
    "    \"\"\"Fields to reset, with their initial values.\"\"\"\n    has_reset = False\n    for field in fields:\n"
    "        init = version.V2_FIELD_INITIAL_VALUES.get(field)\n        if init is not None and has_reset:\n"
    "            yield field, init")
exp(N, F, "harmless", "`elif a != b` -> `elif not (a == b)`",
    "        elif getattr(old_vinfo, field) != getattr(cur_vinfo, field):",
    "        elif not (getattr(old_vinfo, field) == getattr(cur_vinfo, field)):")
exp(N, F, "harmless", "elif -> else with two locals and a nested if",
    "        elif getattr(old_vinfo, field) != getattr(cur_vinfo, field):\n            has_reset = True\n",
    "        else:\n            old_val = getattr(old_vinfo, field)\n            cur_val = getattr(cur_vinfo, field)\n"
    "            if old_val != cur_val:\n                has_reset = True\n")
exp(N, F, "harmless", "nested ifs instead of `and`; the else part duplicated",
    "        if has_reset and initial_val is not None:\n            yield field, initial_val\n"
    "        elif getattr(old_vinfo, field) != getattr(cur_vinfo, field):\n            has_reset = True\n",
    "        if has_reset:\n            if initial_val is None:\n"
    "                if getattr(old_vinfo, field) != getattr(cur_vinfo, field):\n                    has_reset = True\n"
    "            else:\n                yield field, initial_val\n"
    "        elif getattr(old_vinfo, field) != getattr(cur_vinfo, field):\n            has_reset = True\n")

# ---- _reset_rollover_fields ----------------------------------------------------------------------------
N = "resetRolloverFields"
exp(N, F, "break", "`_replace(inc1=1)` -> `_replace(inc1=0)`",
    "        cur_vinfo = cur_vinfo._replace(inc1=1)", "        cur_vinfo = cur_vinfo._replace(inc1=0)")
exp(N, F, "break", "`'minor' in reset_fields` -> `not in`",
    "    if 'minor' in reset_fields:", "    if 'minor' not in reset_fields:")
exp(N, F, "break", "`int(value)` -> `int(value) + 1`",
    "            cur_kwargs[field] = int(value)", "            cur_kwargs[field] = int(value) + 1")
exp(N, F, "break", "`_replace(major=0)` -> `_replace(minor=0)` under 'major'",
    "        cur_vinfo = cur_vinfo._replace(major=0)", "        cur_vinfo = cur_vinfo._replace(minor=0)")
exp(N, F, "break", "`if 'tag' in reset_fields` -> `if 'major' in reset_fields` (tag reset by a major bump)",
    "    if 'tag' in reset_fields:", "    if 'major' in reset_fields and True:")
exp(N, F, "break", "`value.isdigit()` -> `not value.isdigit()` (digits stored as str)",
    "        if value.isdigit():", "        if not value.isdigit():")
exp(N, F, "break", "`cur_vinfo._asdict()` -> `old_vinfo._asdict()`",
    "    cur_kwargs = cur_vinfo._asdict()", "    cur_kwargs = old_vinfo._asdict()")
exp(N, F, "break", "`cur_kwargs[field]` -> `cur_kwargs['major']`",
    "            cur_kwargs[field] = int(value)", "            cur_kwargs['major'] = int(value)")
exp(N, F, "harmless", "independent `if 'major'` / `if 'minor'` / `if 'patch'` blocks reordered",
    "    if 'major' in reset_fields:\n        cur_vinfo = cur_vinfo._replace(major=0)\n"
    "    if 'minor' in reset_fields:\n        cur_vinfo = cur_vinfo._replace(minor=0)\n"
    "    if 'patch' in reset_fields:\n        cur_vinfo = cur_vinfo._replace(patch=0)\n",
    "    if 'patch' in reset_fields:\n        cur_vinfo = cur_vinfo._replace(patch=0)\n"
    "    if 'major' in reset_fields:\n        cur_vinfo = cur_vinfo._replace(major=0)\n"
    "    if 'minor' in reset_fields:\n        cur_vinfo = cur_vinfo._replace(minor=0)\n")
exp(N, F, "harmless", "the dead `if 'tag_num' in reset_fields` block removed; 'tag'/'pytag' blocks merged with `or`",
    "    if 'tag' in reset_fields:\n        cur_vinfo = cur_vinfo._replace(tag=\"final\", pytag=\"\")\n"
    "    if 'pytag' in reset_fields:\n        cur_vinfo = cur_vinfo._replace(tag=\"final\", pytag=\"\")\n"
    "    if 'tag_num' in reset_fields:\n        cur_vinfo = cur_vinfo._replace(num=0)\n",
    "    if 'tag' in reset_fields or 'pytag' in reset_fields:\n        cur_vinfo = cur_vinfo._replace(tag=\"final\", pytag=\"\")\n")
exp(N, F, "harmless", "loop variables renamed, negated test with exchanged branches",
    "    for field, value in reset_fields.items():\n        if value.isdigit():\n            cur_kwargs[field] = int(value)\n"
    "        else:\n            cur_kwargs[field] = value\n",
    "    for key, val in reset_fields.items():\n        if not val.isdigit():\n            cur_kwargs[key] = val\n"
    "        else:\n            cur_kwargs[key] = int(val)\n")
exp(N, F, "harmless", "generator materialised in a local first; result variable renamed",
    "    reset_fields = dict(_iter_reset_field_items(fields, old_vinfo, cur_vinfo))\n",
    "    items = _iter_reset_field_items(fields, old_vinfo, cur_vinfo)\n    reset_fields = dict(items)\n")

# ---- _incr_numeric -----------------------------------------------------------------------------------------
N = "incrNumeric"
exp(N, F, "break", "`cur_vinfo.major + 1` -> `+ 2`",
    "        cur_vinfo = cur_vinfo._replace(major=cur_vinfo.major + 1)", "        cur_vinfo = cur_vinfo._replace(major=cur_vinfo.major + 2)")
exp(N, F, "break", "`tag != cur_vinfo.tag` -> `==` (num reset when the tag is UNCHANGED)",
    "        if tag != cur_vinfo.tag:", "        if tag == cur_vinfo.tag:")
exp(N, F, "break", "`< 1000` -> `<= 1000`",
    "    if int(cur_vinfo.bid) < 1000:", "    if int(cur_vinfo.bid) <= 1000:")
exp(N, F, "break", "`+ 1000` -> `+ 100`",
    "        cur_vinfo = cur_vinfo._replace(bid=str(int(cur_vinfo.bid) + 1000))",
    "        cur_vinfo = cur_vinfo._replace(bid=str(int(cur_vinfo.bid) + 100))")
exp(N, F, "break", "`if not pin_increments` -> `if pin_increments`",
    "    if not pin_increments:", "    if pin_increments:")
exp(N, F, "break", "`cur_vinfo.tag == \"final\"` -> `!=` (the C05 defect: num kept on a final release)",
    "    if cur_vinfo.tag == \"final\":", "    if cur_vinfo.tag != \"final\":")
exp(N, F, "break", "`_replace(tag=tag)` -> `_replace(tag=cur_vinfo.tag)` (the new tag is dropped)",
    "        cur_vinfo = cur_vinfo._replace(tag=tag)", "        cur_vinfo = cur_vinfo._replace(tag=cur_vinfo.tag)")
exp(N, F, "break", "`_reset_rollover_fields(raw_pattern, old_vinfo, cur_vinfo)` -> `(raw_pattern, cur_vinfo, cur_vinfo)`",
    "    return _reset_rollover_fields(raw_pattern, old_vinfo, cur_vinfo)", "    return _reset_rollover_fields(raw_pattern, cur_vinfo, cur_vinfo)")
exp(N, F, "break", "`inc1=cur_vinfo.inc1 + 1` -> `inc1=cur_vinfo.inc0 + 1`",
    "        cur_vinfo = cur_vinfo._replace(inc1=cur_vinfo.inc1 + 1)", "        cur_vinfo = cur_vinfo._replace(inc1=cur_vinfo.inc0 + 1)")
exp(N, F, "break", "`if tag_num:` -> `if tag_num and tag:`",
    "    if tag_num:\n        cur_vinfo = cur_vinfo._replace(num=cur_vinfo.num + 1)", "    if tag_num and tag:\n        cur_vinfo = cur_vinfo._replace(num=cur_vinfo.num + 1)")
exp(N, F, "harmless", "independent `if major` / `if minor` / `if patch` blocks reordered",
    "    if major:\n        cur_vinfo = cur_vinfo._replace(major=cur_vinfo.major + 1)\n"
    "    if minor:\n        cur_vinfo = cur_vinfo._replace(minor=cur_vinfo.minor + 1)\n"
    "    if patch:\n        cur_vinfo = cur_vinfo._replace(patch=cur_vinfo.patch + 1)\n",
    "    if patch:\n        cur_vinfo = cur_vinfo._replace(patch=cur_vinfo.patch + 1)\n"
    "    if minor:\n        cur_vinfo = cur_vinfo._replace(minor=cur_vinfo.minor + 1)\n"
    "    if major:\n        cur_vinfo = cur_vinfo._replace(major=cur_vinfo.major + 1)\n")
exp(N, F, "harmless", "`int(cur_vinfo.bid)` computed once into a local",
    "    if int(cur_vinfo.bid) < 1000:\n        cur_vinfo = cur_vinfo._replace(bid=str(int(cur_vinfo.bid) + 1000))\n",
    "    bid_num = int(cur_vinfo.bid)\n    if bid_num < 1000:\n        cur_vinfo = cur_vinfo._replace(bid=str(bid_num + 1000))\n")
exp(N, F, "harmless", "the two `_replace` of inc0/inc1 merged; `if not p:` -> `if p: pass / else:`",
    "    if not pin_increments:\n        cur_vinfo = cur_vinfo._replace(inc0=cur_vinfo.inc0 + 1)\n"
    "        cur_vinfo = cur_vinfo._replace(inc1=cur_vinfo.inc1 + 1)\n",
    "    if pin_increments:\n        pass\n    else:\n"
    "        cur_vinfo = cur_vinfo._replace(inc0=cur_vinfo.inc0 + 1, inc1=cur_vinfo.inc1 + 1)\n")
exp(N, F, "harmless", "table lookup moved before `_replace(tag=tag)`, both fields set in one `_replace`",
    "        cur_vinfo = cur_vinfo._replace(tag=tag)\n        pytag     = version.PEP440_TAG_BY_TAG[tag]\n"
    "        cur_vinfo = cur_vinfo._replace(pytag=pytag)\n",
    "        pep_tag   = version.PEP440_TAG_BY_TAG[tag]\n        cur_vinfo = cur_vinfo._replace(tag=tag, pytag=pep_tag)\n")

# ---- incr -------------------------------------------------------------------------------------------------------
N = "incr"
exp(N, F, "break", "`if not is_valid_week_pattern(...)` -> `if is_valid_week_pattern(...)`",
    "    if not is_valid_week_pattern(raw_pattern):\n        return None\n\n    date =", "    if is_valid_week_pattern(raw_pattern):\n        return None\n\n    date =")
exp(N, F, "break", "`if pin_date` -> `if not pin_date` (calendar sources exchanged)",
    "    cur_cinfo = _ver_to_cal_info(old_vinfo) if pin_date else cal_info(date)",
    "    cur_cinfo = _ver_to_cal_info(old_vinfo) if not pin_date else cal_info(date)")
exp(N, F, "break", "`if _is_cal_gt(old_vinfo, cur_cinfo)` -> `if _is_cal_gt(cur_cinfo, old_vinfo)` (guard reversed)",
    "    if _is_cal_gt(old_vinfo, cur_cinfo):", "    if _is_cal_gt(cur_cinfo, old_vinfo):")
exp(N, F, "break", "`and not has_tag_part` -> `and has_tag_part`",
    "    if tag_num and not tag and not has_tag_part:", "    if tag_num and not tag and has_tag_part:")
exp(N, F, "break", "`new_version == old_version` -> `!=`",
    "    elif new_version == old_version:", "    elif new_version != old_version:")
exp(N, F, "break", "`maybe_date is None` -> `is not None`",
    "    date = version.TODAY if maybe_date is None else maybe_date", "    date = version.TODAY if maybe_date is not None else maybe_date")
exp(N, F, "break", "`major=major` -> `major=minor` in the call of `_incr_numeric`",
    "        cur_vinfo,\n        major=major,\n        minor=minor,", "        cur_vinfo,\n        major=minor,\n        minor=minor,")
exp(N, F, "break", "`except version.PatternError` -> `except ValueError`",
    "    except version.PatternError as ex:\n        logger.error(f\"Invalid version '{old_version}' and/or pattern '{raw_pattern}'\")",
    "    except ValueError as ex:\n        logger.error(f\"Invalid version '{old_version}' and/or pattern '{raw_pattern}'\")")
exp(N, F, "break", "`format_version(cur_vinfo, raw_pattern)` -> `format_version(old_vinfo, raw_pattern)`",
    "    new_version = format_version(cur_vinfo, raw_pattern)\n\n    if new_version == \"\":", "    new_version = format_version(old_vinfo, raw_pattern)\n\n    if new_version == \"\":")
exp(N, F, "break", "`tag_num=tag_num` -> `tag_num=pin_increments`",
    "        tag_num=tag_num,\n        pin_increments=pin_increments,\n    )\n\n    new_version", "        tag_num=pin_increments,\n        pin_increments=pin_increments,\n    )\n\n    new_version")
exp(N, F, "harmless", "the three-way result test merged with `or`, fall-through return",
    "    if new_version == \"\":\n        return None\n    elif new_version == old_version:\n"
    "        logger.error(\"Invalid arguments or pattern, version did not change.\")\n        return None\n    else:\n        return new_version\n",
    "    if new_version == \"\" or new_version == old_version:\n        return None\n    return new_version\n")
exp(N, F, "harmless", "`is not None` with exchanged branches; conditional expression -> if/else statement",
    "    date = version.TODAY if maybe_date is None else maybe_date",
    "    date = maybe_date if maybe_date is not None else version.TODAY")
T.E[-1]["also"] = [("    cur_cinfo = _ver_to_cal_info(old_vinfo) if pin_date else cal_info(date)\n",
                    "    if pin_date:\n        cur_cinfo = _ver_to_cal_info(old_vinfo)\n    else:\n        cur_cinfo = cal_info(date)\n")]
exp(N, F, "harmless", "keyword arguments of `_incr_numeric` permuted / passed positionally",
    "    cur_vinfo = _incr_numeric(\n        raw_pattern,\n        old_vinfo,\n        cur_vinfo,\n        major=major,\n        minor=minor,\n"
    "        patch=patch,\n        tag=tag,\n        tag_num=tag_num,\n        pin_increments=pin_increments,\n    )\n\n    new_version",
    "    cur_vinfo = _incr_numeric(\n        raw_pattern,\n        old_vinfo,\n        cur_vinfo,\n        major,\n        minor,\n"
    "        pin_increments=pin_increments,\n        tag_num=tag_num,\n        tag=tag,\n        patch=patch,\n    )\n\n    new_version")
exp(N, F, "harmless", "`has_tag_part` inlined, negation pushed inside; branches of the future-guard exchanged",
    "    has_tag_part = cur_vinfo.tag != \"final\"\n    if tag_num and not tag and not has_tag_part:",
    "    if tag_num and not tag and cur_vinfo.tag == \"final\":")
T.E[-1]["also"] = [("    if _is_cal_gt(old_vinfo, cur_cinfo):\n        logger.warning(f\"Old version appears to be from the future '{old_version}'\")\n"
                    "        cur_vinfo = old_vinfo\n    else:\n        cur_vinfo = old_vinfo._replace(**cur_cinfo._asdict())\n",
                    "    if not _is_cal_gt(old_vinfo, cur_cinfo):\n        cur_vinfo = old_vinfo._replace(**cur_cinfo._asdict())\n"
                    "    else:\n        cur_vinfo = old_vinfo\n")]

# ---- rewrite kinds met in the three independent behaviour-preserving refactorings (harmless1..3.diff) ----------------
exp("isValidWeekPattern", F, "harmless", "generator over TUPLE literals, conjuncts commuted, elif/else -> separate ifs + fall-through",
    "    has_yy_part = any(part in raw_pattern for part in [\"YYYY\", \"YY\", \"0Y\"])",
    "    has_yy_part = any(part in raw_pattern for part in (\"YYYY\", \"YY\", \"0Y\"))")
T.E[-1]["also"] = [
    ("    has_vv_part = any(part in raw_pattern for part in [\"VV\"  , \"0V\"])", "    has_vv_part = any(part in raw_pattern for part in (\"VV\"  , \"0V\"))"),
    ("    if has_yy_part and has_vv_part:", "    if has_vv_part and has_yy_part:"),
]
exp("parseLetterVersion", "setuptools_v65_version.py", "harmless", "`in` on TUPLE literals",
    "        elif letter in [\"c\", \"pre\", \"preview\"]:", "        elif letter in (\"c\", \"pre\", \"preview\"):")
T.E[-1]["also"] = [("        elif letter in [\"rev\", \"r\"]:", "        elif letter in (\"rev\", \"r\"):")]
exp("hasOverlap", "parse.py", "harmless", "searching loop with an early `continue` and the test split in two ifs",
    "        has_overlap = (\n            span.lineno == needle.lineno\n            # needle starts before (or at) span end\n"
    "            and needle.start <= span.end\n            # needle ends after (or at) span start\n            and needle.end >= span.start\n"
    "        )\n        if has_overlap:\n            return True\n",
    "        if needle.lineno != span.lineno:\n            continue\n\n"
    "        if needle.start <= span.end and needle.end >= span.start:\n            return True\n")
exp("hasOverlap", "parse.py", "break", "the same `continue` form with `!=` -> `==`",
    "        has_overlap = (\n            span.lineno == needle.lineno\n            # needle starts before (or at) span end\n"
    "            and needle.start <= span.end\n            # needle ends after (or at) span start\n            and needle.end >= span.start\n"
    "        )\n        if has_overlap:\n            return True\n",
    "        if needle.lineno == span.lineno:\n            continue\n\n"
    "        if needle.start <= span.end and needle.end >= span.start:\n            return True\n")
exp("hasOverlap", "parse.py", "break", "`needle.start <= span.end` -> `<` (proof now compares propositions: still caught)",
    "            and needle.start <= span.end", "            and needle.start < span.end")
exp("resetRolloverFields", F, "harmless", "if/else assignment into the kwargs dict -> ONE conditional expression with branches of different types",
    "        if value.isdigit():\n            cur_kwargs[field] = int(value)\n        else:\n            cur_kwargs[field] = value\n",
    "        cur_kwargs[field] = int(value) if value.isdigit() else value\n")
exp("resetRolloverFields", F, "break", "the same conditional expression with the test negated",
    "        if value.isdigit():\n            cur_kwargs[field] = int(value)\n        else:\n            cur_kwargs[field] = value\n",
    "        cur_kwargs[field] = value if value.isdigit() else int(value)\n")
exp("incrNumeric", F, "harmless", "table subscript inlined into `_replace(pytag=…)`; `int(bid)` bound once",
    "        pytag     = version.PEP440_TAG_BY_TAG[tag]\n        cur_vinfo = cur_vinfo._replace(pytag=pytag)\n",
    "        cur_vinfo = cur_vinfo._replace(pytag=version.PEP440_TAG_BY_TAG[tag])\n")
T.E[-1]["also"] = [("    if int(cur_vinfo.bid) < 1000:\n        cur_vinfo = cur_vinfo._replace(bid=str(int(cur_vinfo.bid) + 1000))\n",
                    "    bid_num = int(cur_vinfo.bid)\n    if bid_num < 1000:\n        cur_vinfo = cur_vinfo._replace(bid=str(bid_num + 1000))\n")]

def main():
    """as tie_experiments.main, but EVERY file of this translator module is written for every experiment (the scratch
    tree differs from /repo in one function only), so that a callee left untranslatable by the previous experiment
    cannot make the next one fail for the wrong reason"""
    import shutil
    import translate_funcs
    only = set(sys.argv[1:])
    results = []
    for e in T.E:
        if only and e["name"] not in only:
            continue
        if os.path.exists(T.SCRATCH):
            shutil.rmtree(T.SCRATCH)
        shutil.copytree("/repo/src", os.path.join(T.SCRATCH, "src"))
        path = os.path.join(T.SCRATCH, "src", "bumpver", e["file"])
        src = open(path, encoding="utf-8").read()
        for old, new in [(e["old"], e["new"])] + e.get("also", []):
            if src.count(old) != 1:
                print("!! edit text occurs %d times: %r" % (src.count(old), old))
                return 2
            src = src.replace(old, new)
        open(path, "w", encoding="utf-8").write(src)
        os.environ["VERIF_REPO"] = T.SCRATCH
        rep = []
        files = translate_funcs.generate(rep)
        del os.environ["VERIF_REPO"]
        fname = "F_%s.lean" % e["name"]
        err = [x for x in rep if x[1] == fname][0][2]
        for name, content in files.items():
            fp = os.path.join(T.GEN, name)
            if not os.path.exists(fp) or open(fp, encoding="utf-8").read() != content:
                open(fp, "w", encoding="utf-8").write(content)
        b = T.run(["timeout", "600", "lake", "build", "BumpverVerif.Gen.F_%s" % e["name"]], cwd=T.LEAN)
        if b.returncode != 0:
            outcome, ok = "generated file does not compile", False
        else:
            t = T.run(["timeout", "300", "lake", "env", "lean", "BumpverVerif/Proofs/Tie_%s.lean" % e["name"]], cwd=T.LEAN)
            ok = t.returncode == 0 and "error" not in t.stdout
            if ok:
                outcome = "Tie_%s.lean compiles" % e["name"]
            else:
                first = [ln for ln in t.stdout.splitlines() if "error" in ln][:1]
                outcome = "Tie_%s.lean FAILS: %s" % (e["name"], (first[0] if first else "rc=%d" % t.returncode)[:110])
        if err is not None:
            outcome = "UNTRANSLATABLE (%s); %s" % (err.reason, outcome[:60])
        verdict = "as intended" if ok == (e["kind"] == "harmless") else "** NOT as intended **"
        results.append((e, outcome, verdict))
        print("%-20s %-9s %-70s -> %s [%s]" % (e["name"], e["kind"], e["label"], outcome, verdict), flush=True)
    shutil.rmtree(T.SCRATCH, ignore_errors=True)
    r = T.run(["/venv/bin/python", os.path.join(T.HARNESS, "translate.py")])
    print(r.stdout.strip())
    mods = sorted({"BumpverVerif.Proofs.Tie_%s" % e["name"] for e, _, _ in results})
    if mods:
        b = T.run(["timeout", "1200", "lake", "build"] + mods, cwd=T.LEAN)
        print("restore build:", "ok" if b.returncode == 0 else b.stdout[-2000:])
    return 0


if __name__ == "__main__":
    sys.exit(main())
