#!/venv/bin/python
"""Robustness demonstration for harness/translate_argv.py + the argv-level ties (Proofs/Tie_argv*.lean).

For every experiment: copy /repo/src to a scratch tree, apply ONE textual edit to the Python source, run the
translator with VERIF_REPO pointing at the scratch tree, write the regenerated Gen/F_argv*.lean and rebuild the
tie modules.

  kind 'break'   : a plausible one-token / one-statement SEMANTIC edit -> a tie must NO LONGER build (or the
                   function becomes UNTRANSLATABLE)
  kind 'harmless': a behaviour-preserving rewrite                      -> every tie must still build

Afterwards the generated files are restored from the unmodified /repo and the scratch tree is removed.
Usage: /venv/bin/python harness/dev/argv_tie_experiments.py [group ...]
       (groups: init call submsg update commit tag push_tag add hooks seeded external)
Output table: harness/dev/argv_tie_experiments.out.txt
"""
import os
import re
import shutil
import subprocess
import sys
import time

HERE = os.path.dirname(os.path.abspath(__file__))
HARNESS = os.path.dirname(HERE)
VERIF = os.path.dirname(HARNESS)
LEAN = os.path.join(VERIF, "lean")
GEN = os.path.join(LEAN, "BumpverVerif", "Gen")
SCRATCH = os.path.join(VERIF, "scratch_repo_argv")
sys.path.insert(0, HARNESS)

TIES = ["BumpverVerif.Proofs.Tie_argv%s" % n for n in
        ("Call", "SubMsgTemplate", "UpdateMessages", "Commit", "Tag", "PushTag", "Add", "EndToEnd", "HooksRun")]

E = []


def exp(group, func, file, kind, label, old, new, also=()):
    E.append(dict(group=group, func=func, file=file, kind=kind, label=label, edits=[(old, new)] + list(also)))


V, C, H = "vcs.py", "cli.py", "hooks.py"

# ---------------------------------------------------------------------------------------------------
# VCSAPI.__init__
# ---------------------------------------------------------------------------------------------------
INIT = ("        if subcommands is None:\n            self.subcommands = VCS_SUBCOMMANDS_BY_NAME[name]\n"
        "        else:\n            self.subcommands = subcommands\n")
exp("init", "VCSAPI.__init__", V, "break", "`is None` -> truthiness (an empty custom table selects the default one)",
    "        if subcommands is None:\n", "        if not subcommands:\n")
exp("init", "VCSAPI.__init__", V, "break", "table of a fixed name: VCS_SUBCOMMANDS_BY_NAME['git']",
    "VCS_SUBCOMMANDS_BY_NAME[name]\n        else:", "VCS_SUBCOMMANDS_BY_NAME['git']\n        else:")
exp("init", "VCSAPI.__init__", V, "break", "branches exchanged", INIT,
    "        if subcommands is not None:\n            self.subcommands = VCS_SUBCOMMANDS_BY_NAME[name]\n"
    "        else:\n            self.subcommands = subcommands\n")
exp("init", "VCSAPI.__init__", V, "break", "`.get(name, {})` instead of a KeyError",
    "VCS_SUBCOMMANDS_BY_NAME[name]\n        else:", "VCS_SUBCOMMANDS_BY_NAME.get(name, {})\n        else:")
exp("init", "VCSAPI.__init__", V, "break", "the custom table is ignored", "            self.subcommands = subcommands\n",
    "            self.subcommands = VCS_SUBCOMMANDS_BY_NAME[name]\n")
exp("init", "VCSAPI.__init__", V, "harmless", "test negated, branches flipped", INIT,
    "        if subcommands is not None:\n            self.subcommands = subcommands\n"
    "        else:\n            self.subcommands = VCS_SUBCOMMANDS_BY_NAME[name]\n")
exp("init", "VCSAPI.__init__", V, "harmless", "conditional expression", INIT,
    "        self.subcommands = VCS_SUBCOMMANDS_BY_NAME[name] if subcommands is None else subcommands\n")
exp("init", "VCSAPI.__init__", V, "harmless", "local variable for the table", INIT,
    "        if subcommands is None:\n            table = VCS_SUBCOMMANDS_BY_NAME[name]\n"
    "        else:\n            table = subcommands\n        self.subcommands = table\n")

# ---------------------------------------------------------------------------------------------------
# VCSAPI.__call__
# ---------------------------------------------------------------------------------------------------
PARTS = "        cmd_parts = [part.format(**kwargs) for part in shlex.split(cmd_tmpl)]\n"
LOG = ("        if cmd_name in (\"commit\", \"tag\", \"push_tag\"):\n            logger.info(cmd_str)\n"
       "        else:\n            logger.debug(cmd_str)\n")
RUN = ("        output_data: bytes = sp.check_output(cmd_parts, env=env, stderr=sp.PIPE)\n\n"
       "        return output_data.decode(\"utf-8\")\n")
exp("call", "VCSAPI.__call__", V, "break", "the FORMATTED string is split (seeded C12 change)",
    "for part in shlex.split(cmd_tmpl)]", "for part in shlex.split(cmd_str)]")
exp("call", "VCSAPI.__call__", V, "break", "pre-repair order: shlex.split(cmd_str), nothing formatted afterwards (D10)",
    PARTS, "        cmd_parts = shlex.split(cmd_str)\n")
exp("call", "VCSAPI.__call__", V, "break", "tokens are not formatted", "[part.format(**kwargs) for part in", "[part for part in")
exp("call", "VCSAPI.__call__", V, "break", "template always taken from the global table (custom table ignored)",
    "        cmd_tmpl = self.subcommands[cmd_name]\n", "        cmd_tmpl = VCS_SUBCOMMANDS_BY_NAME[self.name][cmd_name]\n")
exp("call", "VCSAPI.__call__", V, "break", "the environment is not passed on", "sp.check_output(cmd_parts, env=env, stderr=sp.PIPE)",
    "sp.check_output(cmd_parts, env=None, stderr=sp.PIPE)")
exp("call", "VCSAPI.__call__", V, "break", "stderr is not captured (VCSAPI.add reads ex.stderr)",
    "sp.check_output(cmd_parts, env=env, stderr=sp.PIPE)", "sp.check_output(cmd_parts, env=env)")
exp("call", "VCSAPI.__call__", V, "break", "str.split instead of shlex.split", "for part in shlex.split(cmd_tmpl)]", "for part in cmd_tmpl.split()]")
exp("call", "VCSAPI.__call__", V, "break", "command run through a shell",
    "sp.check_output(cmd_parts, env=env, stderr=sp.PIPE)", "sp.check_output(\" \".join(cmd_parts), shell=True, env=env, stderr=sp.PIPE)")
exp("call", "VCSAPI.__call__", V, "break", "the first token (the program) is dropped", "sp.check_output(cmd_parts, env=env",
    "sp.check_output(cmd_parts[1:], env=env")
exp("call", "VCSAPI.__call__", V, "harmless", "local renamed: cmd_parts -> argv_", PARTS.replace("cmd_parts", "cmd_parts"),
    PARTS.replace("cmd_parts", "argv_"), also=[("sp.check_output(cmd_parts,", "sp.check_output(argv_,")])
exp("call", "VCSAPI.__call__", V, "harmless", "split in a statement of its own, loop variable renamed", PARTS,
    "        tokens = shlex.split(cmd_tmpl)\n        cmd_parts = [tok.format(**kwargs) for tok in tokens]\n")
exp("call", "VCSAPI.__call__", V, "harmless", "logging test negated, branches flipped", LOG,
    "        if cmd_name not in (\"commit\", \"tag\", \"push_tag\"):\n            logger.debug(cmd_str)\n"
    "        else:\n            logger.info(cmd_str)\n")
exp("call", "VCSAPI.__call__", V, "harmless", "output decoded without a local", RUN,
    "        return sp.check_output(cmd_parts, env=env, stderr=sp.PIPE).decode(\"utf-8\")\n")
exp("call", "VCSAPI.__call__", V, "harmless", "keyword order of check_output", "sp.check_output(cmd_parts, env=env, stderr=sp.PIPE)",
    "sp.check_output(cmd_parts, stderr=sp.PIPE, env=env)")

exp("call", "VCSAPI.__call__", V, "harmless", "comprehension -> explicit loop with .append (harmless2)", PARTS,
    "        argv = []\n        for part in shlex.split(cmd_tmpl):\n            argv.append(part.format(**kwargs))\n",
    also=[("sp.check_output(cmd_parts,", "sp.check_output(argv,")])

# ---------------------------------------------------------------------------------------------------
# cli._sub_msg_template
# ---------------------------------------------------------------------------------------------------
SUB = "    return re.sub(r\"\\b(OLD|NEW)\\b\", r\"{\\1_VERSION}\", message)\n"
exp("submsg", "cli._sub_msg_template", C, "break", "trailing \\b dropped (NEWS is rewritten)", SUB, SUB.replace("(OLD|NEW)\\b", "(OLD|NEW)"))
exp("submsg", "cli._sub_msg_template", C, "break", "leading \\b dropped (HOLD is rewritten)", SUB, SUB.replace("\\b(OLD|NEW)", "(OLD|NEW)"))
exp("submsg", "cli._sub_msg_template", C, "break", "trailing \\b -> \\B", SUB, SUB.replace("(OLD|NEW)\\b", "(OLD|NEW)\\B"))
exp("submsg", "cli._sub_msg_template", C, "break", "replacement {\\1_VERSIONS}", SUB, SUB.replace("_VERSION}", "_VERSIONS}"))
exp("submsg", "cli._sub_msg_template", C, "break", "replacement without braces", SUB, SUB.replace("{\\1_VERSION}", "\\1_VERSION"))
exp("submsg", "cli._sub_msg_template", C, "break", "lower-case words", SUB, SUB.replace("(OLD|NEW)", "(old|new)"))
exp("submsg", "cli._sub_msg_template", C, "break", "non-capturing group (\\1 is invalid)", SUB, SUB.replace("(OLD|NEW)", "(?:OLD|NEW)"))
exp("submsg", "cli._sub_msg_template", C, "break", "only the first occurrence (count=1)", SUB, SUB.replace("message)", "message, count=1)"))
exp("submsg", "cli._sub_msg_template", C, "break", "third word CUR added", SUB, SUB.replace("(OLD|NEW)", "(OLD|NEW|CUR)"))
exp("submsg", "cli._sub_msg_template", C, "harmless", "pattern in a local variable", SUB,
    "    pattern = r\"\\b(OLD|NEW)\\b\"\n    return re.sub(pattern, r\"{\\1_VERSION}\", message)\n")
exp("submsg", "cli._sub_msg_template", C, "harmless", "non-raw string literals with doubled backslashes", SUB,
    "    return re.sub(\"\\\\b(OLD|NEW)\\\\b\", \"{\\\\1_VERSION}\", message)\n")
exp("submsg", "cli._sub_msg_template", C, "harmless", "result in a local, count=0 spelled out", SUB,
    "    result = re.sub(r\"\\b(OLD|NEW)\\b\", r\"{\\1_VERSION}\", message, count=0)\n    return result\n")

exp("submsg", "cli._sub_msg_template", C, "harmless", "both literals in local variables (harmless2)", SUB,
    "    word_re     = r\"\\b(OLD|NEW)\\b\"\n    replacement = r\"{\\1_VERSION}\"\n    return re.sub(word_re, replacement, message)\n")

# ---------------------------------------------------------------------------------------------------
# the message part of cli.update
# ---------------------------------------------------------------------------------------------------
CM = ("    if commit_message is None:\n        commit_msg_template = cfg.commit_message\n"
      "    else:\n        commit_msg_template = _sub_msg_template(commit_message)\n")
TM = "    tag_msg_template = cfg.tag_message if tag_message is None else _sub_msg_template(tag_message)\n"
exp("update", "cli.update (messages)", C, "break", "`is None` -> truthiness (an empty --commit-message falls back to the config)",
    "    if commit_message is None:\n", "    if not commit_message:\n")
exp("update", "cli.update (messages)", C, "break", "`is None` -> truthiness for the tag message (empty CLI text no longer means lightweight)",
    "if tag_message is None else", "if not tag_message else")
exp("update", "cli.update (messages)", C, "break", "'new_version' bound to the OLD version", "        'new_version'       : new_version,",
    "        'new_version'       : old_version,")
exp("update", "cli.update (messages)", C, "break", "'OLD_VERSION' bound to the NEW version", "        'OLD_VERSION'       : old_version,",
    "        'OLD_VERSION'       : new_version,")
exp("update", "cli.update (messages)", C, "break", "pep440 form not normalised", "'new_version_pep440': version.to_pep440(new_version),",
    "'new_version_pep440': new_version,")
exp("update", "cli.update (messages)", C, "break", "tag message rendered from the COMMIT template",
    "    try_tag_message    = tag_msg_template.format(", "    try_tag_message    = commit_msg_template.format(")
exp("update", "cli.update (messages)", C, "break", "CLI commit message used without the OLD/NEW rewrite",
    "        commit_msg_template = _sub_msg_template(commit_message)\n", "        commit_msg_template = commit_message\n")
exp("update", "cli.update (messages)", C, "break", "the UNFORMATTED template is handed on",
    "    _try_update(cfg, new_version, try_commit_message, try_tag_message, allow_dirty)",
    "    _try_update(cfg, new_version, commit_msg_template, try_tag_message, allow_dirty)")
exp("update", "cli.update (messages)", C, "break", "configured tag template replaced by the commit template",
    "    tag_msg_template = cfg.tag_message if", "    tag_msg_template = cfg.commit_message if")
exp("update", "cli.update (messages)", C, "break", "the two messages exchanged in the call",
    "    _try_update(cfg, new_version, try_commit_message, try_tag_message, allow_dirty)",
    "    _try_update(cfg, new_version, try_tag_message, try_commit_message, allow_dirty)")
exp("update", "cli.update (messages)", C, "harmless", "if/else <-> conditional expression (both ways)", CM,
    "    commit_msg_template = cfg.commit_message if commit_message is None else _sub_msg_template(commit_message)\n",
    also=[(TM, "    if tag_message is None:\n        tag_msg_template = cfg.tag_message\n"
               "    else:\n        tag_msg_template = _sub_msg_template(tag_message)\n")])
exp("update", "cli.update (messages)", C, "harmless", "test negated, branches flipped", CM,
    "    if commit_message is not None:\n        commit_msg_template = _sub_msg_template(commit_message)\n"
    "    else:\n        commit_msg_template = cfg.commit_message\n")
exp("update", "cli.update (messages)", C, "harmless", "kwargs dict renamed", "    tag_and_commit_message_kwargs = {", "    msg_kw = {",
    also=[("    try_commit_message = commit_msg_template.format(**tag_and_commit_message_kwargs)",
           "    try_commit_message = commit_msg_template.format(**msg_kw)"),
          ("    try_tag_message    = tag_msg_template.format(**tag_and_commit_message_kwargs)",
           "    try_tag_message    = tag_msg_template.format(**msg_kw)")])
exp("update", "cli.update (messages)", C, "harmless", "messages passed by keyword",
    "    _try_update(cfg, new_version, try_commit_message, try_tag_message, allow_dirty)",
    "    _try_update(cfg, new_version, tag_message=try_tag_message, commit_message=try_commit_message, allow_dirty=allow_dirty)")

# ---------------------------------------------------------------------------------------------------
# VCSAPI.commit
# ---------------------------------------------------------------------------------------------------
WITH = "                with tmp_file as fobj:\n                    fobj.write(message_data)\n\n"
HGCALL = "                env['HGENCODING'] = \"utf-8\"\n                self('commit', env=env, path=tmp_file.name)\n"
exp("commit", "VCSAPI.commit", V, "break", "message stripped", "            self('commit', env=env, message=message)", "            self('commit', env=env, message=message.strip())")
exp("commit", "VCSAPI.commit", V, "break", "hg: environment not passed", "self('commit', env=env, path=tmp_file.name)", "self('commit', path=tmp_file.name)")
exp("commit", "VCSAPI.commit", V, "break", "hg: HGENCODING latin-1", "env['HGENCODING'] = \"utf-8\"", "env['HGENCODING'] = \"latin-1\"")
exp("commit", "VCSAPI.commit", V, "break", "hg: the message is never written", "                    fobj.write(message_data)\n", "                    pass\n")
exp("commit", "VCSAPI.commit", V, "break", "`== 'git'` -> `!= 'hg'` (differs for other names)", "        if self.name == 'git':\n            self('commit'", "        if self.name != 'hg':\n            self('commit'")
exp("commit", "VCSAPI.commit", V, "break", "hg: the temporary file is not removed", "                os.unlink(tmp_file.name)\n", "                pass\n")
exp("commit", "VCSAPI.commit", V, "break", "hg: file written AFTER the command ran", WITH + HGCALL, HGCALL + WITH)
exp("commit", "VCSAPI.commit", V, "break", "hg: ascii codec", "message.encode(\"utf-8\")", "message.encode(\"ascii\")")
exp("commit", "VCSAPI.commit", V, "break", "hg: the message itself passed as `path`", "path=tmp_file.name)", "path=message)")
exp("commit", "VCSAPI.commit", V, "break", "git: message passed under the key `path`", "self('commit', env=env, message=message)", "self('commit', env=env, path=message)")
exp("commit", "VCSAPI.commit", V, "harmless", "test negated, branches flipped (hg first)",
    "        if self.name == 'git':\n            self('commit', env=env, message=message)\n        else:\n",
    "        if self.name != 'git':\n", also=[
        ("                os.unlink(tmp_file.name)\n", "                os.unlink(tmp_file.name)\n        else:\n            self('commit', env=env, message=message)\n")])
exp("commit", "VCSAPI.commit", V, "harmless", "message_data inlined", "                    fobj.write(message_data)\n",
    "                    fobj.write(message.encode(\"utf-8\"))\n", also=[("            message_data = message.encode(\"utf-8\")\n", "")])
exp("commit", "VCSAPI.commit", V, "harmless", "annotation dropped, HGENCODING set before the file is written",
    "        env: Env = os.environ.copy()\n", "        env = os.environ.copy()\n",
    also=[(WITH + "                env['HGENCODING'] = \"utf-8\"\n", "                env['HGENCODING'] = \"utf-8\"\n" + WITH)])

# ---------------------------------------------------------------------------------------------------
# VCSAPI.tag
# ---------------------------------------------------------------------------------------------------
TAG = ("        if tag_message:\n            # Annotated\n            self('tag', tag=tag_name, message=tag_message)\n"
       "        else:\n            # Lightweight\n            self('tag_light', tag=tag_name)\n")
exp("tag", "VCSAPI.tag", V, "break", "truthiness -> `is not None` (an empty message gives an annotated tag)", "        if tag_message:\n", "        if tag_message is not None:\n")
exp("tag", "VCSAPI.tag", V, "break", "name and message exchanged", "self('tag', tag=tag_name, message=tag_message)", "self('tag', tag=tag_message, message=tag_name)")
exp("tag", "VCSAPI.tag", V, "break", "branches exchanged", "        if tag_message:\n", "        if not tag_message:\n")
exp("tag", "VCSAPI.tag", V, "break", "lightweight tags become annotated with an empty message", "            self('tag_light', tag=tag_name)\n", "            self('tag', tag=tag_name, message=\"\")\n")
exp("tag", "VCSAPI.tag", V, "break", "tag name stripped", "self('tag', tag=tag_name, message", "self('tag', tag=tag_name.strip(), message")
exp("tag", "VCSAPI.tag", V, "break", "annotated branch uses `tag_light` (the message is silently dropped)", "self('tag', tag=tag_name, message=tag_message)", "self('tag_light', tag=tag_name, message=tag_message)")
exp("tag", "VCSAPI.tag", V, "harmless", "test negated, branches flipped", TAG,
    "        if not tag_message:\n            self('tag_light', tag=tag_name)\n        else:\n            self('tag', tag=tag_name, message=tag_message)\n")
exp("tag", "VCSAPI.tag", V, "harmless", "early return", TAG,
    "        if tag_message:\n            self('tag', tag=tag_name, message=tag_message)\n            return\n        self('tag_light', tag=tag_name)\n")
exp("tag", "VCSAPI.tag", V, "harmless", "local alias for the name", TAG,
    "        name = tag_name\n        if tag_message:\n            self('tag', tag=name, message=tag_message)\n"
    "        else:\n            self('tag_light', tag=name)\n")

exp("tag", "VCSAPI.tag", V, "harmless", "keyword arguments written in the other order", "self('tag', tag=tag_name, message=tag_message)",
    "self('tag', message=tag_message, tag=tag_name)")

# ---------------------------------------------------------------------------------------------------
# VCSAPI.push_tag
# ---------------------------------------------------------------------------------------------------
PT = "        remote = self.get_remote()\n        if remote:\n            self('push_tag', tag=tag_name, remote=remote)\n"
exp("push_tag", "VCSAPI.push_tag", V, "break", "truthiness -> `is not None` (pushes to an empty remote)", "        if remote:\n            self('push_tag'", "        if remote is not None:\n            self('push_tag'")
exp("push_tag", "VCSAPI.push_tag", V, "break", "remote hard-wired", "self('push_tag', tag=tag_name, remote=remote)", "self('push_tag', tag=tag_name, remote=\"origin\")")
exp("push_tag", "VCSAPI.push_tag", V, "break", "the remote is pushed as the tag", "self('push_tag', tag=tag_name, remote=remote)", "self('push_tag', tag=remote, remote=remote)")
exp("push_tag", "VCSAPI.push_tag", V, "break", "plain `push` (the tag stays local)", "self('push_tag', tag=tag_name, remote=remote)", "self('push', tag=tag_name, remote=remote)")
exp("push_tag", "VCSAPI.push_tag", V, "break", "guard inverted", "        if remote:\n            self('push_tag'", "        if not remote:\n            self('push_tag'")
exp("push_tag", "VCSAPI.push_tag", V, "break", "tag name lower-cased", "self('push_tag', tag=tag_name, remote=remote)", "self('push_tag', tag=tag_name.lower(), remote=remote)")
exp("push_tag", "VCSAPI.push_tag", V, "harmless", "early return", PT,
    "        remote = self.get_remote()\n        if not remote:\n            return\n        self('push_tag', tag=tag_name, remote=remote)\n")
exp("push_tag", "VCSAPI.push_tag", V, "harmless", "local renamed", PT,
    "        origin = self.get_remote()\n        if origin:\n            self('push_tag', tag=tag_name, remote=origin)\n")
exp("push_tag", "VCSAPI.push_tag", V, "harmless", "explicit empty else branch", PT, PT + "        else:\n            pass\n")

exp("push_tag", "VCSAPI.push_tag", V, "harmless", "keyword arguments written in the other order", "self('push_tag', tag=tag_name, remote=remote)",
    "self('push_tag', remote=remote, tag=tag_name)")

# ---------------------------------------------------------------------------------------------------
# VCSAPI.add
# ---------------------------------------------------------------------------------------------------
ADDH = ("            if self.name == 'hg' and b\"already tracked!\" in (ex.stderr or b\"\"):\n"
        "                # mercurial\n                return\n            else:\n                raise\n")
exp("add", "VCSAPI.add", V, "break", "the hg-only conjunct dropped", "if self.name == 'hg' and b\"already", "if b\"already")
exp("add", "VCSAPI.add", V, "break", "stdout instead of stderr", "(ex.stderr or b\"\")", "(ex.stdout or b\"\")")
exp("add", "VCSAPI.add", V, "break", "needle without the `!`", "b\"already tracked!\" in", "b\"already tracked\" in")
exp("add", "VCSAPI.add", V, "break", "path stripped", "self('add_path', path=path)", "self('add_path', path=path.strip())")
exp("add", "VCSAPI.add", V, "break", "return / raise exchanged", "                return\n            else:\n                raise\n", "                raise\n            else:\n                return\n")
exp("add", "VCSAPI.add", V, "break", "`and` -> `or`", "if self.name == 'hg' and b\"already", "if self.name == 'hg' or b\"already")
exp("add", "VCSAPI.add", V, "break", "every failing add is ignored", "            else:\n                raise\n\n    def commit(self", "            else:\n                return\n\n    def commit(self")
exp("add", "VCSAPI.add", V, "harmless", "exception variable renamed", "        except sp.CalledProcessError as ex:\n            if self.name == 'hg' and b\"already tracked!\" in (ex.stderr or b\"\"):",
    "        except sp.CalledProcessError as err:\n            if self.name == 'hg' and b\"already tracked!\" in (err.stderr or b\"\"):")
exp("add", "VCSAPI.add", V, "harmless", "test negated, branches flipped", ADDH,
    "            if not (self.name == 'hg' and b\"already tracked!\" in (ex.stderr or b\"\")):\n"
    "                raise\n            else:\n                return\n")
exp("add", "VCSAPI.add", V, "harmless", "conjuncts commuted", "if self.name == 'hg' and b\"already tracked!\" in (ex.stderr or b\"\"):",
    "if b\"already tracked!\" in (ex.stderr or b\"\") and self.name == 'hg':")
exp("add", "VCSAPI.add", V, "harmless", "no else after return", ADDH,
    "            if self.name == 'hg' and b\"already tracked!\" in (ex.stderr or b\"\"):\n                return\n            raise\n")

exp("add", "VCSAPI.add", V, "harmless", "`if not (...): raise` followed by `return` (harmless2)", ADDH,
    "            if not (self.name == 'hg' and b\"already tracked!\" in (ex.stderr or b\"\")):\n"
    "                raise\n            # mercurial\n            return\n")

# ---------------------------------------------------------------------------------------------------
# hooks.run
# ---------------------------------------------------------------------------------------------------
ENV = "    env = dict(os.environ, BUMPVER_OLD_VERSION=old_version, BUMPVER_NEW_VERSION=new_version)\n"
RC = "    if proc.returncode != 0:\n        logger.error(\"Script exited with an error. Stopping\")\n        sys.exit(1)"
exp("hooks", "hooks.run", H, "break", "`!= 0` -> `> 0` (a hook killed by a signal counts as success; seeded change)", "    if proc.returncode != 0:", "    if proc.returncode > 0:")
exp("hooks", "hooks.run", H, "break", "old / new version exchanged in the environment", "BUMPVER_OLD_VERSION=old_version, BUMPVER_NEW_VERSION=new_version", "BUMPVER_OLD_VERSION=new_version, BUMPVER_NEW_VERSION=old_version")
exp("hooks", "hooks.run", H, "break", "path not made absolute", "str(pl.Path(path).absolute())", "str(pl.Path(path))")
exp("hooks", "hooks.run", H, "break", "environment not passed", "absolute()), env=env, stdout", "absolute()), stdout")
exp("hooks", "hooks.run", H, "break", "the process is not waited for", "        proc.wait()\n", "")
exp("hooks", "hooks.run", H, "break", "IOError exits 0", "        logger.error(\"Script exited with an error. Stopping\")\n        sys.exit(1)\n\n    if proc", "        logger.error(\"Script exited with an error. Stopping\")\n        sys.exit(0)\n\n    if proc")
exp("hooks", "hooks.run", H, "break", "non-zero exit only logged", RC, "    if proc.returncode != 0:\n        logger.error(\"Script exited with an error. Stopping\")")
exp("hooks", "hooks.run", H, "break", "os.environ not inherited", "dict(os.environ, BUMPVER_OLD_VERSION", "dict(BUMPVER_OLD_VERSION")
exp("hooks", "hooks.run", H, "break", "`!= 0` -> `== 1`", "    if proc.returncode != 0:", "    if proc.returncode == 1:")
exp("hooks", "hooks.run", H, "break", "run through a shell", "env=env, stdout=sp.PIPE, stderr=sp.PIPE)", "env=env, shell=True, stdout=sp.PIPE, stderr=sp.PIPE)")
exp("hooks", "hooks.run", H, "harmless", "environment built in steps", ENV,
    "    env = dict(os.environ)\n    env['BUMPVER_OLD_VERSION'] = old_version\n    env['BUMPVER_NEW_VERSION'] = new_version\n")
exp("hooks", "hooks.run", H, "harmless", "test flipped: success returns early", RC,
    "    if proc.returncode == 0:\n        return\n    logger.error(\"Script exited with an error. Stopping\")\n    sys.exit(1)")
exp("hooks", "hooks.run", H, "harmless", "command in a local variable, keyword order", "        proc = sp.Popen(str(pl.Path(path).absolute()), env=env, stdout=sp.PIPE, stderr=sp.PIPE)\n",
    "        script = str(pl.Path(path).absolute())\n        proc = sp.Popen(script, stdout=sp.PIPE, stderr=sp.PIPE, env=env)\n")
exp("hooks", "hooks.run", H, "harmless", "draining loops restructured: `if not (x is None)`, line post-processed into a local (harmless2)",
    "        if proc.stdout is not None:\n            with proc.stdout as out:\n                for line in iter(out.readline, b''):\n"
    "                    logger.info(f\"\\t{line.decode('utf8').strip()}\")\n",
    "        if not (proc.stdout is None):\n            with proc.stdout as out_stream:\n                for out_line in iter(out_stream.readline, b''):\n"
    "                    out_text = out_line.decode('utf8').strip()\n                    logger.info(f\"\\t{out_text}\")\n")
exp("hooks", "hooks.run", H, "harmless", "OSError spelled out instead of IOError", "    except IOError as err:", "    except OSError as err:")

def run(cmd, **kw):
    return subprocess.run(cmd, stdout=subprocess.PIPE, stderr=subprocess.STDOUT, text=True, **kw)


def write_gen(files):
    changed = []
    for name, content in files.items():
        path = os.path.join(GEN, name)
        old = open(path, encoding="utf-8").read() if os.path.exists(path) else None
        if old != content:
            with open(path, "w", encoding="utf-8") as f:
                f.write(content)
            changed.append(name)
    return changed


# seeded changes of /verif/seeded that touch the translated functions
SEEDED = [
    ("C12-split-formatted-command-string", "break"), ("C12-annotated-tag-falls-back", "break"),
    ("_harmless-refactor", "harmless"),
]
# three independent behaviour-preserving refactorings of the whole package (patch files, when present)
EXTERNAL = [("/tmp/proofwork/harmless%d.diff" % n, "harmless") for n in (1, 2, 3)]


def main():
    only = set(sys.argv[1:])
    import translate_argv
    results = []
    out_lines = []
    todo = list(E)
    if "seeded" in only or not only:
        for name, kind in SEEDED:
            pf = os.path.join(VERIF, "seeded", name, "patch.diff")
            if os.path.exists(pf):
                todo.append(dict(group="seeded", func="seeded/" + name, file=None, kind=kind,
                                 label="patch.diff of the seeded change", patch=pf, edits=[]))
    if "external" in only or not only:
        for pf, kind in EXTERNAL:
            if os.path.exists(pf):
                todo.append(dict(group="external", func="patch/" + os.path.basename(pf), file=None, kind=kind,
                                 label="independent behaviour-preserving refactoring of the package", patch=pf, edits=[]))
    for e in todo:
        if only and e["group"] not in only and e["func"] not in only:
            continue
        t0 = time.time()
        if os.path.exists(SCRATCH):
            shutil.rmtree(SCRATCH)
        shutil.copytree("/repo/src", os.path.join(SCRATCH, "src"))
        if e.get("patch"):
            pr = run(["patch", "-p1", "--no-backup-if-mismatch", "-d", SCRATCH, "-i", e["patch"]])
            if pr.returncode != 0:
                line = "%-24s %-9s the patch does not apply to the current tree: skipped" % (e["func"], e["kind"])
                print(line, flush=True)
                out_lines.append(line)
                continue
        else:
            path = os.path.join(SCRATCH, "src", "bumpver", e["file"])
            src = open(path, encoding="utf-8").read()
            bad = False
            for old, new in e["edits"]:
                if src.count(old) != 1:
                    print("!! edit text occurs %d times in %s: %r" % (src.count(old), e["file"], old[:80]))
                    bad = True
                    break
                src = src.replace(old, new)
            if bad:
                continue
            open(path, "w", encoding="utf-8").write(src)
            c = run(["/venv/bin/python", "-m", "py_compile", path])
            if c.returncode != 0:
                print("!! edited source does not compile: %s\n%s" % (e["label"], c.stdout))
                continue
        os.environ["VERIF_REPO"] = SCRATCH
        rep = []
        files = translate_argv.generate(rep)
        del os.environ["VERIF_REPO"]
        errs = [(f, x) for f, _n, x in rep if x is not None]
        changed = write_gen(files)
        b = run(["timeout", "900", "lake", "build"] + TIES, cwd=LEAN)
        ok = b.returncode == 0
        if ok:
            outcome = "all ties build"
        else:
            failed = re.findall(r"^✖ \[\d+/\d+\] Building (\S+)", b.stdout, re.M)
            first = [ln for ln in b.stdout.splitlines() if "error" in ln][:1]
            outcome = "BREAKS %s" % ", ".join(m.replace("BumpverVerif.Proofs.", "") for m in failed) if failed else \
                "build fails: %s" % (first[0][:100] if first else "rc=%d" % b.returncode)
        if errs:
            outcome = "UNTRANSLATABLE %s (%s); %s" % (errs[0][0], getattr(errs[0][1], "reason", str(errs[0][1]))[:80], outcome[:60])
        verdict = "as intended" if ok == (e["kind"] == "harmless") else "** NOT as intended **"
        results.append((e, outcome, verdict))
        line = "%-24s %-9s %-86s -> %s [%s] (%.0fs; regenerated: %s)" % (
            e["func"], e["kind"], e["label"], outcome, verdict, time.time() - t0, ",".join(n[2:-5] for n in changed) or "-")
        print(line, flush=True)
        out_lines.append(line)
    # restore
    shutil.rmtree(SCRATCH, ignore_errors=True)
    rep = []
    files = translate_argv.generate(rep)
    write_gen(files)
    b = run(["timeout", "1800", "lake", "build"] + TIES, cwd=LEAN)
    print("restore build:", "ok" if b.returncode == 0 else b.stdout[-2000:])
    nb = sum(1 for e, _, _ in results if e["kind"] == "break")
    nh = sum(1 for e, _, _ in results if e["kind"] == "harmless")
    okb = sum(1 for e, _, v in results if e["kind"] == "break" and v == "as intended")
    okh = sum(1 for e, _, v in results if e["kind"] == "harmless" and v == "as intended")
    summary = "SUMMARY: %d/%d breaking edits break a tie or leave the subset; %d/%d harmless rewrites still prove" % (okb, nb, okh, nh)
    print(summary)
    out_lines.append(summary)
    if not only:
        with open(os.path.join(HERE, "argv_tie_experiments.out.txt"), "w", encoding="utf-8") as f:
            f.write("\n".join(out_lines) + "\n")
    return 0


if __name__ == "__main__":
    sys.exit(main())
