#!/venv/bin/python
"""The ties of harness/translate_cli.py under whole-file behaviour-preserving refactorings.

For every directory given on the command line (a scratch copy of the source: <dir>/src/bumpver/*.py, e.g. /repo with a
refactoring patch applied) the Gen files of translate_cli.py are regenerated from it (VERIF_REPO=<dir>), written, and every
tie module of the group is built.  Everything must translate and prove.  Afterwards the files are restored from /repo.
Usage: /venv/bin/python harness/dev/cli_harmless_patches.py DIR [DIR ...]"""
import os
import subprocess
import sys

HERE = os.path.dirname(os.path.abspath(__file__))
HARNESS = os.path.dirname(HERE)
VERIF = os.path.dirname(HARNESS)
LEAN = os.path.join(VERIF, "lean")
GEN = os.path.join(LEAN, "BumpverVerif", "Gen")
sys.path.insert(0, HARNESS)

NAMES = ["isValidVersion", "parseVersionTags", "getLatestVcsVersionTag", "updateCfgFromVcs", "validateReleaseTag",
         "validateFlags", "validateDate", "incrDispatch", "cmpkey", "pickConfigFilepath"]
MODULES = ["BumpverVerif.Proofs.Tie_%s" % n for n in NAMES] + ["BumpverVerif.Proofs.TieD_Source", "BumpverVerif.Audit.TiesD"]


def run(cmd, **kw):
    return subprocess.run(cmd, stdout=subprocess.PIPE, stderr=subprocess.STDOUT, text=True, **kw)


def write(files):
    for name, content in files.items():
        p = os.path.join(GEN, name)
        if not os.path.exists(p) or open(p, encoding="utf-8").read() != content:
            open(p, "w", encoding="utf-8").write(content)


def main():
    import translate_cli
    os.environ.pop("VERIF_REPO", None)
    baseline = translate_cli.generate([])
    rc = 0
    for d in sys.argv[1:]:
        os.environ["VERIF_REPO"] = d
        rep = []
        files = translate_cli.generate(rep)
        del os.environ["VERIF_REPO"]
        changed = [n for n in files if "\n".join(files[n].split("\n")[4:]) != "\n".join(baseline[n].split("\n")[4:])]
        bad = [(f, str(e)[:160]) for f, _, e in rep if e is not None]
        write(files)
        failed = []
        for m in MODULES:
            b = run(["timeout", "900", "lake", "build", m], cwd=LEAN)
            if b.returncode != 0:
                err = [ln for ln in b.stdout.splitlines() if "error" in ln][:2]
                failed.append((m, err))
        print("%s: %d generated definitions differ from the original's (%s); untranslatable: %s; failing modules: %s"
              % (d, len(changed), ", ".join(n[2:-5] for n in changed), bad or "none", failed or "none"), flush=True)
        if bad or failed:
            rc = 1
    write(baseline)
    b = run(["timeout", "1800", "lake", "build"] + MODULES, cwd=LEAN)
    print("restore build:", "ok" if b.returncode == 0 else b.stdout[-1500:])
    return rc


if __name__ == "__main__":
    sys.exit(main())
