#!/venv/bin/python
"""Robustness demonstration for harness/translate_parse.py + Proofs/Tie_<name>.lean (group `parse`).

For every experiment: copy /repo/src to a scratch tree, apply ONE textual edit to the Python source, run the function
translator with VERIF_REPO pointing at the scratch tree, write the regenerated Gen/F_*.lean of the group, rebuild
Gen/F_<name> and type-check Proofs/Tie_<name>.lean.

  kind 'break'   : a plausible semantic one-token edit  -> the tie must NO LONGER compile (or UNTRANSLATABLE)
  kind 'harmless': a semantics-preserving rewrite        -> the tie must still compile

Afterwards the generated files are restored from the unmodified /repo and the scratch tree is removed.
Usage: /venv/bin/python harness/dev/parse_tie_experiments.py [name ...]     (names: dateFromDoy calInfo parseCinfo
parseVinfo parseVersionInfo isValid); results are appended to harness/dev/parse_tie_experiments.out.txt by the caller.
"""
import os
import shutil
import subprocess
import sys
import time

HERE = os.path.dirname(os.path.abspath(__file__))
HARNESS = os.path.dirname(HERE)
VERIF = os.path.dirname(HARNESS)
LEAN = os.path.join(VERIF, "lean")
GEN = os.path.join(LEAN, "BumpverVerif", "Gen")
SCRATCH = os.path.join(VERIF, "scratch_repo_parse")
sys.path.insert(0, HARNESS)

E = []


def exp(name, file, kind, label, old, new, also=()):
    E.append(dict(name=name, file=file, kind=kind, label=label, old=old, new=new, also=list(also)))


V2 = "v2version.py"

# ---- version.date_from_doy -------------------------------------------------------------------------------------
R = "    return dt.date(year, 1, 1) + dt.timedelta(days=doy - 1)"
exp("dateFromDoy", "version.py", "break", "`doy - 1` -> `doy` (off by one)", R, R.replace("doy - 1", "doy"))
exp("dateFromDoy", "version.py", "break", "`doy - 1` -> `doy + 1`", R, R.replace("doy - 1", "doy + 1"))
exp("dateFromDoy", "version.py", "break", "`dt.date(year, 1, 1)` -> `dt.date(year, 1, 2)`", R, R.replace("(year, 1, 1)", "(year, 1, 2)"))
exp("dateFromDoy", "version.py", "break", "`dt.date(year, 1, 1)` -> `dt.date(year, 2, 1)`", R, R.replace("(year, 1, 1)", "(year, 2, 1)"))
exp("dateFromDoy", "version.py", "break", "`days=doy - 1` -> `days=1 - doy`", R, R.replace("doy - 1", "1 - doy"))
exp("dateFromDoy", "version.py", "break", "`+ timedelta` -> `- timedelta`", R, R.replace(") + dt.", ") - dt."))
exp("dateFromDoy", "version.py", "harmless", "local for the first of January", R,
    "    first = dt.date(year, 1, 1)\n    return first + dt.timedelta(days=doy - 1)")
exp("dateFromDoy", "version.py", "harmless", "local for the timedelta, computed first", R,
    "    delta = dt.timedelta(days=doy - 1)\n    return dt.date(year, 1, 1) + delta")
exp("dateFromDoy", "version.py", "harmless", "`doy - 1` -> `-1 + doy`", R, R.replace("doy - 1", "-1 + doy"))

# ---- v2version.cal_info -----------------------------------------------------------------------------------------
exp("calInfo", V2, "break", "week_w from `%W` -> `%U`",
    "        'week_w' : int(date.strftime(\"%W\"), base=10),", "        'week_w' : int(date.strftime(\"%U\"), base=10),")
exp("calInfo", V2, "break", "year_g from `%G` -> `%Y`",
    "        'year_g' : int(date.strftime(\"%G\"), base=10),", "        'year_g' : int(date.strftime(\"%Y\"), base=10),")
exp("calInfo", V2, "break", "`'dom': date.day` -> `date.month`",
    "        'dom'    : date.day,", "        'dom'    : date.month,")
exp("calInfo", V2, "break", "`quarter_from_month(date.month)` -> `(date.day)`",
    "        'quarter': version.quarter_from_month(date.month),", "        'quarter': version.quarter_from_month(date.day),")
exp("calInfo", V2, "break", "`if date is None` -> `if date is not None`",
    "    if date is None:\n        date = version.TODAY\n\n    kwargs",
    "    if date is not None:\n        date = version.TODAY\n\n    kwargs")
exp("calInfo", V2, "break", "keys `week_u` / `week_v` exchanged",
    "        'week_u' : int(date.strftime(\"%U\"), base=10),\n        'week_v' : int(date.strftime(\"%V\"), base=10),",
    "        'week_v' : int(date.strftime(\"%U\"), base=10),\n        'week_u' : int(date.strftime(\"%V\"), base=10),")
exp("calInfo", V2, "harmless", "local `kwargs` renamed",
    "    kwargs = {\n        'year_y' : date.year,", "    kw = {\n        'year_y' : date.year,",
    also=[("    return version.V2CalendarInfo(**kwargs)", "    return version.V2CalendarInfo(**kw)")])
exp("calInfo", V2, "harmless", "dict entries reordered",
    "        'year_y' : date.year,\n        'year_g' : int(date.strftime(\"%G\"), base=10),",
    "        'year_g' : int(date.strftime(\"%G\"), base=10),\n        'year_y' : date.year,")
exp("calInfo", V2, "harmless", "`if date is None:` statement -> conditional expression",
    "    if date is None:\n        date = version.TODAY\n\n    kwargs",
    "    date = version.TODAY if date is None else date\n\n    kwargs")

# ---- v2version.parse_field_values_to_cinfo ----------------------------------------------------------------------
exp("parseCinfo", V2, "break", "two-digit year pivot: `year_y < 1000` -> `< 100`",
    "    if year_y is not None and year_y < 1000:", "    if year_y is not None and year_y < 100:")
exp("parseCinfo", V2, "break", "`year_y += 2000` -> `+= 1900`",
    "        year_y += 2000", "        year_y += 1900")
exp("parseCinfo", V2, "break", "`if year_y and doy` -> `doy is not None` (doy 0 is used)",
    "    if year_y and doy:", "    if year_y and doy is not None:")
exp("parseCinfo", V2, "break", "`if year_y and month and dom` -> `if year_y and month` (dom may be None)",
    "    if year_y and month and dom:", "    if year_y and month:")
exp("parseCinfo", V2, "break", "`week_v` dropped from the all-or-nothing test",
    "    if not any((date, year_y, year_g, month, dom, doy, week_w, week_u, week_v)):",
    "    if not any((date, year_y, year_g, month, dom, doy, week_w, week_u)):")
exp("parseCinfo", V2, "break", "`if quarter is None and month` -> `if month` (given quarter overwritten)",
    "    if quarter is None and month:", "    if month:")
exp("parseCinfo", V2, "break", "week_w re-derived from `%U`",
    "        week_w = int(date.strftime(\"%W\"), base=10)", "        week_w = int(date.strftime(\"%U\"), base=10)")
exp("parseCinfo", V2, "break", "`month = date.month` -> `date.day`",
    "        month = date.month\n        dom   = date.day", "        month = date.day\n        dom   = date.day")
exp("parseCinfo", V2, "break", "year lifted AFTER it was used (statements reordered across a data dependency)",
    "    if year_y is not None and year_y < 1000:\n        year_y += 2000\n    if year_g",
    "    if year_g",
    also=[("    # Use of defaults is an all or nothing affair.",
           "    if year_y is not None and year_y < 1000:\n        year_y += 2000\n    # Use of defaults is an all or nothing affair.")])
exp("parseCinfo", V2, "break", "`if date:` -> `if date and year_y:` (TODAY default not expanded)",
    "    if date:\n        year_y = int(date.strftime(\"%Y\"), base=10)",
    "    if date and year_y:\n        year_y = int(date.strftime(\"%Y\"), base=10)")
exp("parseCinfo", V2, "break", "`date = version.TODAY` guard negation dropped (`if not any` -> `if any`)",
    "    if not any((date, year_y,", "    if any((date, year_y,")
exp("parseCinfo", V2, "harmless", "local `week_w` renamed",
    "    week_w: MaybeInt = int(fvals['week_w']) if 'week_w' in fvals else None",
    "    wk_w: MaybeInt = int(fvals['week_w']) if 'week_w' in fvals else None",
    also=[("    if not any((date, year_y, year_g, month, dom, doy, week_w, week_u, week_v)):",
           "    if not any((date, year_y, year_g, month, dom, doy, wk_w, week_u, week_v)):"),
          ("        week_w = int(date.strftime(\"%W\"), base=10)", "        wk_w = int(date.strftime(\"%W\"), base=10)"),
          ("        week_w=week_w,\n        week_u=week_u,\n        week_v=week_v,\n    )\n\n\ndef parse_field_values_to_vinfo",
           "        week_w=wk_w,\n        week_u=week_u,\n        week_v=week_v,\n    )\n\n\ndef parse_field_values_to_vinfo")])
exp("parseCinfo", V2, "harmless", "conjuncts commuted: `if doy and year_y`",
    "    if year_y and doy:", "    if doy and year_y:")
exp("parseCinfo", V2, "harmless", "if/else flipped with negated test",
    "    if year_y and doy:\n        date  = version.date_from_doy(year_y, doy)\n        month = date.month\n        dom   = date.day\n    else:\n        month = int(fvals['month']) if 'month' in fvals else None\n        dom   = int(fvals['dom'  ]) if 'dom' in fvals else None\n",
    "    if not (year_y and doy):\n        month = int(fvals['month']) if 'month' in fvals else None\n        dom   = int(fvals['dom'  ]) if 'dom' in fvals else None\n    else:\n        date  = version.date_from_doy(year_y, doy)\n        month = date.month\n        dom   = date.day\n")
exp("parseCinfo", V2, "harmless", "`x if k in d else None` -> `None if k not in d else x`",
    "    week_u: MaybeInt = int(fvals['week_u']) if 'week_u' in fvals else None",
    "    week_u: MaybeInt = None if 'week_u' not in fvals else int(fvals['week_u'])")
exp("parseCinfo", V2, "harmless", "`and` chain -> nested ifs; `year_y += 2000` -> `year_y = year_y + 2000`",
    "    if year_y and month and dom:\n        date = dt.date(year_y, month, dom)",
    "    if year_y and month:\n        if dom:\n            date = dt.date(year_y, month, dom)",
    also=[("        year_y += 2000", "        year_y = year_y + 2000")])

# ---- v2version.parse_field_values_to_vinfo ------------------------------------------------------------------------
exp("parseVinfo", V2, "break", "missing INC1 read as 0: `or 1` -> `or 0`",
    "    inc1  = int(fvals.get('inc1') or 1)", "    inc1  = int(fvals.get('inc1') or 0)")
exp("parseVinfo", V2, "break", "`if tag and not pytag` -> `if tag` (a given pytag is overwritten)",
    "    if tag and not pytag:", "    if tag:")
exp("parseVinfo", V2, "break", "`elif pytag and not tag` -> `elif pytag` (the tag re-derived from the pytag)",
    "    elif pytag and not tag:", "    elif pytag:")
exp("parseVinfo", V2, "break", "default tag `\"final\"` -> `\"\"`",
    "    if not tag:\n        tag = \"final\"", "    if not tag:\n        tag = \"\"")
exp("parseVinfo", V2, "break", "default build id `\"1000\"` -> `\"1001\"`",
    "    bid   = fvals['bid'] if 'bid' in fvals else \"1000\"", "    bid   = fvals['bid'] if 'bid' in fvals else \"1001\"")
exp("parseVinfo", V2, "break", "tables exchanged: `PEP440_TAG_BY_TAG[tag]` -> `TAG_BY_PEP440_TAG[tag]`",
    "        pytag = version.PEP440_TAG_BY_TAG[tag]", "        pytag = version.TAG_BY_PEP440_TAG[tag]")
exp("parseVinfo", V2, "break", "constructor: `major=major, minor=minor` exchanged",
    "        week_v=cinfo.week_v,\n        major=major,\n        minor=minor,",
    "        week_v=cinfo.week_v,\n        major=minor,\n        minor=major,")
exp("parseVinfo", V2, "break", "`num` read from the `inc0` group",
    "    num   = int(fvals.get('num'  ) or 0)", "    num   = int(fvals.get('inc0'  ) or 0)")
exp("parseVinfo", V2, "break", "VALID_FIELD_KEYS without `'version'` (the assert rejects more)",
    "VALID_FIELD_KEYS = set(version.V2VersionInfo._fields) | {'version'}",
    "VALID_FIELD_KEYS = set(version.V2VersionInfo._fields)")
exp("parseVinfo", V2, "break", "`if not tag` -> `if tag` (default applied to the wrong case)",
    "    if not tag:\n        tag = \"final\"", "    if tag:\n        tag = \"final\"")
exp("parseVinfo", V2, "harmless", "local `cinfo` renamed",
    "    cinfo = parse_field_values_to_cinfo(field_values)", "    cal = parse_field_values_to_cinfo(field_values)",
    also=[("        %s=cinfo.%s," % (f, f), "        %s=cal.%s," % (f, f))
          for f in ["year_y", "year_g", "quarter", "month", "dom", "doy", "week_w", "week_u", "week_v"]])
exp("parseVinfo", V2, "harmless", "conjuncts commuted: `if not pytag and tag`",
    "    if tag and not pytag:", "    if not pytag and tag:")
exp("parseVinfo", V2, "harmless", "`if not tag: tag = \"final\"` -> `tag = tag or \"final\"`",
    "    if not tag:\n        tag = \"final\"", "    tag = tag or \"final\"")
exp("parseVinfo", V2, "harmless", "independent statements reordered, constructor keywords reordered",
    "    major = int(fvals.get('major') or 0)\n    minor = int(fvals.get('minor') or 0)",
    "    minor = int(fvals.get('minor') or 0)\n    major = int(fvals.get('major') or 0)",
    also=[("        week_v=cinfo.week_v,\n        major=major,\n        minor=minor,\n        patch=patch,",
           "        week_v=cinfo.week_v,\n        patch=patch,\n        minor=minor,\n        major=major,")])
exp("parseVinfo", V2, "harmless", "elif -> else: if",
    "    elif pytag and not tag:\n        tag = version.TAG_BY_PEP440_TAG[pytag]",
    "    else:\n        if pytag and not tag:\n            tag = version.TAG_BY_PEP440_TAG[pytag]")

# ---- v2version.parse_version_info ---------------------------------------------------------------------------------
exp("parseVersionInfo", V2, "break", "incomplete-match test `<` -> `<=`",
    "    elif len(match.group()) < len(version_str):", "    elif len(match.group()) <= len(version_str):")
exp("parseVersionInfo", V2, "break", "incomplete-match test `<` -> `>` (check disabled)",
    "    elif len(match.group()) < len(version_str):", "    elif len(match.group()) > len(version_str):")
exp("parseVersionInfo", V2, "break", "`if val is not None` -> `if val` (empty groups dropped too)",
    "for key, val in match.groupdict().items() if val is not None}", "for key, val in match.groupdict().items() if val}")
exp("parseVersionInfo", V2, "break", "`except (ValueError, OverflowError)` -> `except ValueError`",
    "        except (ValueError, OverflowError) as ex:", "        except ValueError as ex:")
exp("parseVersionInfo", V2, "break", "`if match is None` -> `if match is not None`",
    "    if match is None:\n        err_msg = (\n            f\"Invalid version string",
    "    if match is not None:\n        err_msg = (\n            f\"Invalid version string")
exp("parseVersionInfo", V2, "break", "re-raise as ValueError instead of PatternError",
    "            raise version.PatternError(err_msg) from ex", "            raise ValueError(err_msg) from ex")
exp("parseVersionInfo", V2, "break", "`regexp.match(version_str)` -> `regexp.match(raw_pattern)`",
    "    match   = pattern.regexp.match(version_str)", "    match   = pattern.regexp.match(raw_pattern)")
exp("parseVersionInfo", V2, "break", "the None filter dropped (`{key: val for ...}` without `if`)",
    "for key, val in match.groupdict().items() if val is not None}", "for key, val in match.groupdict().items()}")
exp("parseVersionInfo", V2, "harmless", "local `field_values` renamed, comprehension variables renamed",
    "        field_values = {key: val for key, val in match.groupdict().items() if val is not None}\n        try:\n            return parse_field_values_to_vinfo(field_values)",
    "        fvs = {k: v for k, v in match.groupdict().items() if v is not None}\n        try:\n            return parse_field_values_to_vinfo(fvs)")
exp("parseVersionInfo", V2, "harmless", "exception classes reordered, comparison flipped",
    "        except (ValueError, OverflowError) as ex:", "        except (OverflowError, ValueError) as ex:",
    also=[("    elif len(match.group()) < len(version_str):", "    elif len(version_str) > len(match.group()):")])
exp("parseVersionInfo", V2, "harmless", "`not (val is None)`; the try body through a local",
    "for key, val in match.groupdict().items() if val is not None}", "for key, val in match.groupdict().items() if not (val is None)}",
    also=[("            return parse_field_values_to_vinfo(field_values)\n        except",
           "            vinfo = parse_field_values_to_vinfo(field_values)\n            return vinfo\n        except")])

LOOP_OLD = ("    else:\n        # parts of an optional group that was left out take no part in the match\n"
            "        field_values = {key: val for key, val in match.groupdict().items() if val is not None}\n"
            "        try:\n            return parse_field_values_to_vinfo(field_values)\n"
            "        except (ValueError, OverflowError) as ex:\n"
            "            # e.g. \"v2021.02.30\": matches the pattern but is not a date\n"
            "            err_msg = f\"Invalid date in version string '{version_str}': {ex}\"\n"
            "            raise version.PatternError(err_msg) from ex\n")
LOOP_NEW = ("\n    field_values = {}\n    for key, val in match.groupdict().items():\n        if val is not None:\n"
            "            field_values[key] = val\n\n"
            "    try:\n        return parse_field_values_to_vinfo(field_values)\n"
            "    except (ValueError, OverflowError) as ex:\n"
            "        err_msg = f\"Invalid date in version string '{version_str}': {ex}\"\n"
            "        raise version.PatternError(err_msg) from ex\n")
ELIF = ("    elif len(match.group()) < len(version_str):", "\n    if len(match.group()) < len(version_str):")
exp("parseVersionInfo", V2, "harmless", "comprehension -> `d = {}` + dict-building loop; elif/else -> separate ifs, flat tail",
    LOOP_OLD, LOOP_NEW, also=[ELIF])
exp("parseVersionInfo", V2, "break", "the same loop form, but `if val is not None` -> `if val`",
    LOOP_OLD, LOOP_NEW.replace("if val is not None:", "if val:"), also=[ELIF])
exp("parseVersionInfo", V2, "break", "the same loop form, but the item assignment under `else` (keeps nothing but None groups)",
    LOOP_OLD, LOOP_NEW.replace("        if val is not None:\n            field_values[key] = val\n",
                               "        if val is None:\n            field_values[key] = val\n"), also=[ELIF])

# ---- v2version.is_valid ------------------------------------------------------------------------------------------
TRY = "    try:\n        parse_version_info(version_str, raw_pattern)\n        return True\n    except version.PatternError:\n        return False"
exp("isValid", V2, "break", "`return True` -> `return False`", TRY, TRY.replace("return True", "return False"))
exp("isValid", V2, "break", "`return False` -> `return True` in the handler", TRY, TRY.replace("        return False", "        return True"))
exp("isValid", V2, "break", "`except version.PatternError` -> `except ValueError`", TRY, TRY.replace("version.PatternError", "ValueError"))
exp("isValid", V2, "break", "arguments exchanged", TRY, TRY.replace("(version_str, raw_pattern)", "(raw_pattern, version_str)"))
exp("isValid", V2, "break", "handler also swallows ValueError", TRY, TRY.replace("version.PatternError", "(version.PatternError, ValueError)"))
exp("isValid", V2, "break", "handler also swallows KeyError", TRY, TRY.replace("version.PatternError", "(version.PatternError, KeyError)"))
exp("isValid", V2, "harmless", "result bound to an unused local", TRY, TRY.replace("        parse_version_info(", "        vinfo = parse_version_info("))
exp("isValid", V2, "harmless", "`return True` through a local", TRY, TRY.replace("        return True", "        ok = True\n        return ok"))
exp("isValid", V2, "harmless", "handler binds the exception, comment added", TRY,
    TRY.replace("    except version.PatternError:", "    except version.PatternError as ex:  # no match").replace("    try:", "    # probe\n    try:"))

AFTER = "    try:\n        parse_version_info(version_str, raw_pattern)\n    except version.PatternError:\n        return False\n    return True"
exp("isValid", V2, "harmless", "`return True` moved behind the try statement (the try body falls through)", TRY, AFTER)
exp("isValid", V2, "break", "the same form, but `return False` behind the try statement", TRY, AFTER.replace("    return True", "    return False"))
exp("isValid", V2, "break", "the same form, but the handler falls through (`pass`) to `return True`", TRY,
    AFTER.replace("        return False", "        pass"))


def run(cmd, **kw):
    return subprocess.run(cmd, stdout=subprocess.PIPE, stderr=subprocess.STDOUT, text=True, **kw)


def main():
    only = set(sys.argv[1:])
    import translate_parse
    # every edit text must occur exactly once in the unmodified source (checked before anything is touched)
    for e in E:
        src = open(os.path.join("/repo/src/bumpver", e["file"]), encoding="utf-8").read()
        for old, new in [(e["old"], e["new"])] + e["also"]:
            if src.count(old) != 1:
                print("!! edit text of %s / %s occurs %d times: %r" % (e["name"], e["label"], src.count(old), old))
                return 2
    results = []
    for e in E:
        if only and e["name"] not in only:
            continue
        t0 = time.time()
        if os.path.exists(SCRATCH):
            shutil.rmtree(SCRATCH)
        shutil.copytree("/repo/src", os.path.join(SCRATCH, "src"))
        path = os.path.join(SCRATCH, "src", "bumpver", e["file"])
        src = open(path, encoding="utf-8").read()
        for old, new in [(e["old"], e["new"])] + e["also"]:
            if src.count(old) != 1:
                print("!! edit text occurs %d times: %r" % (src.count(old), old))
                return 2
            src = src.replace(old, new)
        open(path, "w", encoding="utf-8").write(src)
        os.environ["VERIF_REPO"] = SCRATCH
        rep = []
        files = translate_parse.generate(rep)
        del os.environ["VERIF_REPO"]
        fname = "F_%s.lean" % e["name"]
        err = [x for x in rep if x[1] == fname][0][2]
        for fn, content in files.items():
            p = os.path.join(GEN, fn)
            if not os.path.exists(p) or open(p, encoding="utf-8").read() != content:
                open(p, "w", encoding="utf-8").write(content)
        b = run(["timeout", "600", "lake", "build", "BumpverVerif.Gen.F_%s" % e["name"]], cwd=LEAN)
        if b.returncode != 0:
            outcome = "generated file does not compile"
            ok = False
        else:
            t = run(["timeout", "900", "lake", "env", "lean", "BumpverVerif/Proofs/Tie_%s.lean" % e["name"]], cwd=LEAN)
            ok = t.returncode == 0 and "error" not in t.stdout
            if ok:
                outcome = "Tie_%s.lean compiles" % e["name"]
            else:
                first = [ln for ln in t.stdout.splitlines() if "error" in ln][:1]
                outcome = "Tie_%s.lean FAILS: %s" % (e["name"], (first[0] if first else "rc=%d" % t.returncode)[:100])
        if err is not None:
            outcome = "UNTRANSLATABLE (%s); %s" % (err.reason[:90], outcome[:40])
        verdict = "as intended" if ok == (e["kind"] == "harmless") else "** NOT as intended **"
        results.append((e, outcome, verdict))
        print("%-17s %-9s %-78s -> %s [%s] (%.0fs)" % (e["name"], e["kind"], e["label"], outcome, verdict, time.time() - t0),
              flush=True)
    # restore
    shutil.rmtree(SCRATCH, ignore_errors=True)
    rep = []
    for fn, content in translate_parse.generate(rep).items():
        p = os.path.join(GEN, fn)
        if open(p, encoding="utf-8").read() != content:
            open(p, "w", encoding="utf-8").write(content)
    mods = ["BumpverVerif.Proofs.Tie_isValid", "BumpverVerif.Proofs.Tie_calInfo"]
    b = run(["timeout", "1800", "lake", "build"] + mods, cwd=LEAN)
    print("restore build:", "ok" if b.returncode == 0 else b.stdout[-2000:])
    bad = [r for r in results if "NOT" in r[2]]
    print("%d experiments, %d not as intended" % (len(results), len(bad)))
    return 0


if __name__ == "__main__":
    sys.exit(main())
