#!/venv/bin/python
"""Differential test of the Lean calendar model (Model/Calendar.lean, driver ops
calinfo / ordinal / fromordinal / datefromdoy / weekpat) against the real bumpver code.

  * calinfo  vs v2version.cal_info(datetime.date(y, m, d)) for EVERY date
             1000-01-01 .. 9999-12-31 (and, with --early, 0001-01-01 .. 0999-12-31),
             plus invalid (y, m, d) triples (ValueError on both sides)
  * ordinal / fromordinal vs date.toordinal / date.fromordinal (every 1st/last of month, all
             year boundaries, random ordinals, out-of-range ordinals)
  * datefromdoy vs version.date_from_doy (doy 0..367 for selected years incl. 1 and 9999)
  * weekpat  vs v2version.is_valid_week_pattern on all concatenations of up to three part
             names joined by each of a few separators

usage: /venv/bin/python calendar_difftest.py [--jobs N] [--first Y] [--last Y] [--early]
exit status 0 iff zero disagreements.
"""
import sys
import json
import logging
import argparse
import datetime as dt
import itertools
import random
import subprocess
import multiprocessing as mp

sys.path.insert(0, __import__('os').path.join(__import__('os').environ.get('VERIF_REPO', '/repo'), 'src'))
from bumpver import v2version, version, v2patterns  # noqa: E402

DRIVER = '/verif/lean/.lake/build/bin/driver'
logging.disable(logging.CRITICAL)  # is_valid_week_pattern logs an error per rejected pattern


def run_driver(ops):
    data = "".join(json.dumps(op) + "\n" for op in ops)
    out = subprocess.run([DRIVER], input=data.encode(), stdout=subprocess.PIPE, check=True).stdout
    lines = out.decode().splitlines()
    assert len(lines) == len(ops), (len(lines), len(ops))
    return [json.loads(line) for line in lines]


def impl_calinfo(y, m, d):
    try:
        date = dt.date(y, m, d)
    except ValueError:
        return {"err": "ValueError"}
    return {"ok": list(v2version.cal_info(date))}


def check_years(span):
    """every date of the years first..last; returns (n_checked, disagreements)"""
    first, last = span
    ops = []
    day = dt.date(first, 1, 1)
    end = dt.date(last, 12, 31)
    one = dt.timedelta(days=1)
    dates = []
    while True:
        dates.append(day)
        ops.append({"op": "calinfo", "y": day.year, "m": day.month, "d": day.day})
        if day == end:
            break
        day += one
    res = run_driver(ops)
    bad = []
    for date, r in zip(dates, res):
        want = {"ok": list(v2version.cal_info(date))}
        if r != want:
            bad.append((date.isoformat(), r, want))
    return len(ops), bad


def check_invalid():
    rng = random.Random(14)
    triples = []
    for y in [0, 1, 4, 100, 400, 1900, 2000, 2019, 2020, 2100, 9999, 10000, 12345]:
        for m in range(0, 14):
            for d in [0, 1, 28, 29, 30, 31, 32, 99]:
                triples.append((y, m, d))
    for _ in range(20000):
        triples.append((rng.randint(0, 10100), rng.randint(0, 14), rng.randint(0, 33)))
    # years below 1000 are valid dates, but strftime("%G") etc. is only compared with --early
    triples = [t for t in triples if not (1 <= t[0] < 1000)]
    ops = [{"op": "calinfo", "y": y, "m": m, "d": d} for y, m, d in triples]
    res = run_driver(ops)
    bad = []
    n_invalid = 0
    for t, r in zip(triples, res):
        want = impl_calinfo(*t)
        n_invalid += "err" in want
        if r != want:
            bad.append((t, r, want))
    return len(ops), n_invalid, bad


def check_ordinals():
    rng = random.Random(15)
    ops, want = [], []
    for y in list(range(1, 10000)):
        for (m, d) in [(1, 1), (2, 28), (3, 1), (12, 31)]:
            date = dt.date(y, m, d)
            ops.append({"op": "ordinal", "y": y, "m": m, "d": d})
            want.append({"ok": date.toordinal()})
    ords = [1, 2, 365, 366, 146097, 146098, 3652058, 3652059]
    ords += [rng.randint(1, 3652059) for _ in range(200000)]
    for n in ords:
        date = dt.date.fromordinal(n)
        ops.append({"op": "fromordinal", "n": n})
        want.append({"ok": [date.year, date.month, date.day]})
    for n in [0, 3652060, 4000000]:
        try:
            dt.date.fromordinal(n)
            raise AssertionError(n)
        except ValueError:
            pass
        ops.append({"op": "fromordinal", "n": n})
        want.append({"err": "ValueError"})
    for y in [1, 2, 4, 100, 400, 1999, 2000, 2016, 2017, 2100, 9998, 9999]:
        for doy in range(0, 369):
            try:
                date = version.date_from_doy(y, doy)
                w = {"ok": [date.year, date.month, date.day]}
            except OverflowError:
                w = {"err": "OverflowError"}
            ops.append({"op": "datefromdoy", "y": y, "doy": doy})
            want.append(w)
    res = run_driver(ops)
    bad = [(op, r, w) for op, r, w in zip(ops, res, want) if r != w]
    return len(ops), bad


def check_weekpat():
    parts = list(v2patterns.PART_PATTERNS.keys())
    seps = ["", ".", "-", "0", "Y"]
    pats = set()
    for n in (1, 2, 3):
        for combo in itertools.product(parts, repeat=n):
            for sep in seps:
                pats.add(sep.join(combo))
                pats.add("v" + sep.join(combo))
    pats |= {"", "Y", "0", "YY0V", "Y0V", "G0W", "vYYYY0M.BUILD[-TAG]", "{year}.{iso_week}", "GGGGwUU", "0Y0V"}
    pats = sorted(pats)
    res = run_driver([{"op": "weekpat", "p": p} for p in pats])
    bad = []
    n_rejected = 0
    for p, r in zip(pats, res):
        want = {"ok": v2version.is_valid_week_pattern(p)}
        n_rejected += not want["ok"]
        if r != want:
            bad.append((p, r, want))
    return len(pats), n_rejected, bad


def main():
    ap = argparse.ArgumentParser()
    ap.add_argument("--jobs", type=int, default=max(1, (mp.cpu_count() or 2) - 1))
    ap.add_argument("--first", type=int, default=1000)
    ap.add_argument("--last", type=int, default=9999)
    ap.add_argument("--early", action="store_true", help="also years 1..999 (platform strftime dependent)")
    args = ap.parse_args()

    total_bad = 0

    def report(name, n, bad, extra=""):
        nonlocal total_bad
        total_bad += len(bad)
        print("%-12s checked %9d  disagreements %d %s" % (name, n, len(bad), extra))
        for b in bad[:10]:
            print("   DISAGREE", b)

    first = 1 if args.early else args.first
    spans = [(y, min(y + 99, args.last)) for y in range(first, args.last + 1, 100)]
    n_dates, bad_dates = 0, []
    with mp.Pool(args.jobs) as pool:
        for n, bad in pool.imap_unordered(check_years, spans):
            n_dates += n
            bad_dates += bad
    report("calinfo", n_dates, sorted(bad_dates), "(every date %04d-01-01 .. %04d-12-31)" % (first, args.last))

    n, n_invalid, bad = check_invalid()
    report("calinfo-bad", n, bad, "(%d of them invalid dates)" % n_invalid)
    n, bad = check_ordinals()
    report("ordinals", n, bad)
    n, n_rej, bad = check_weekpat()
    report("weekpat", n, bad, "(%d rejected by the implementation)" % n_rej)

    print("TOTAL disagreements:", total_bad)
    return 0 if total_bad == 0 else 1


if __name__ == "__main__":
    sys.exit(main())
