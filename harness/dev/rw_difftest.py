import sys, os, json, random
sys.path.insert(0, os.path.dirname(os.path.dirname(os.path.abspath(__file__))))
import impl_adapter as impl, gen, projgen, sandbox
from common import Driver, canon
rng = random.Random(int(sys.argv[1]) if len(sys.argv) > 1 else 1)
N = int(sys.argv[2]) if len(sys.argv) > 2 else 300
ops, impls = [], []
for _ in range(N):
    pr = projgen.gen_project(rng)
    for path, pairs in pr["file_patterns"]:
        o = {"op": "rewrite_content", "patterns": pairs, "vinfo": pr["new_vinfo"], "content": pr["files"][path]}
        ops.append(o); impls.append(impl.rewrite_content(pairs, pr["new_vinfo"], pr["files"][path]))
    # fault: break one file
    files = dict(pr["files"])
    if rng.random() < 0.5:
        victim = rng.choice(list(files))
        if rng.random() < 0.5:
            del files[victim]
        else:
            files[victim] = "nothing here\n"
    with sandbox.Project("rw") as p:
        for k, v in files.items():
            p.write_bytes(k, v.encode("utf-8"))
        res = impl.rewrite_files_in(p.dir, pr["file_patterns"], pr["new_vinfo"])
        after = {k: p.read_bytes(k).decode("utf-8") for k in files}
    ops.append({"op": "rewrite_files", "files": files, "file_patterns": pr["file_patterns"], "vinfo": pr["new_vinfo"], "lazy": False})
    impls.append({"files": after, "result": res})
outs = Driver().run(ops)
bad = uns = 0
for o, a, m in zip(ops, impls, outs):
    if "unsupported" in m or "unsupported" in a or a.get("result") == "unsupported":
        uns += 1; continue
    if canon(a) != canon(m):
        bad += 1
        if bad <= 6:
            print(json.dumps(o)[:1500]); print("  impl ", json.dumps(a)[:800]); print("  model", json.dumps(m)[:800])
print("ops", len(ops), "bad", bad, "unsupported", uns)
