#!/venv/bin/python
"""Differential test of the GENERATED definitions of group `filepatterns` (Gen/F_compileFilePatterns.lean,
Gen/F_validateVersionWithPattern.lean, …) against the real functions of /repo/src/bumpver/config.py.

What it checks (beyond the ties, which compare generated code with reference definitions): the TRUSTED reading of Python
that the translator builds in — generators as `Py.PyGen` (the ORDER of exceptions of the lazily interleaved
`_iter_glob_expanded_file_patterns` / `_compile_vN_file_patterns` / `_compile_file_patterns`), the glob fallback, the merge
by path (`extend`), `str(path)` normalisation, exception classes.

Method: a scratch project directory with a few (hidden, nested) files; for random configurations
  * the REAL `config._compile_file_patterns(raw_cfg, is_new_pattern)` runs there (result: path -> [Pattern.raw_pattern], or
    the exception class);
  * the callee parameters of the generated definition are instantiated by TABLES recorded from the real callees
    (`list(pl.Path().glob(key))` -> the `str()`s or the exception class; `compile_pattern(vp, p)` -> its normalised
    `raw_pattern` or the exception class; `compile_patterns` = the list comprehension over it, as in the source);
  * one Lean file `#eval`s `GenF.compileFilePatterns` on all cases; the printed results are compared.
The same for `_validate_version_with_pattern` (callee tables from the real `parse_version_info`).

Usage: /venv/bin/python harness/dev/filepatterns_difftest.py [N=300] [seed=1]
"""
import os
import random
import re
import subprocess
import sys
import tempfile
import logging

HERE = os.path.dirname(os.path.abspath(__file__))
VERIF = os.path.dirname(os.path.dirname(HERE))
LEAN = os.path.join(VERIF, "lean")

REPO = os.environ.get("VERIF_REPO", "/repo")
sys.path.insert(0, os.path.join(REPO, "src"))

import pathlib as pl  # noqa: E402
from bumpver import config, v1patterns, v2patterns, v1version, v2version  # noqa: E402

logging.disable(logging.CRITICAL)

KEYS = ["a.txt", "./a.txt", "*.txt", "sub/*.txt", "**/*.txt", "nope.txt", "sub/../a.txt", "/abs/x", ".", "",
        "b.txt", "sub//c.txt", "sub/c.txt", "*.md", ".hidden.txt", "**/.*.txt"]
PATS_V2 = ["{version}", "v{version}", "[x", "MAJOR.MINOR(", "(", "x\\", "YYYY.0M", "__version__ = \"{version}\"",
           "{pep440_version}", "[", "a[b", "MAJOR[.MINOR"]
PATS_V1 = ["{version}", "{pycalver}", "{semver}", "(", "x\\", "[x", "{pep440_version}", "v{year}{month}", "{foo}"]
FILES = ["a.txt", "b.txt", ".hidden.txt", "sub/c.txt", "sub/.d.txt", "README.md"]


def cls_name(ex):
    t = type(ex)
    if t is re.error:
        return "re.error"
    return t.__name__


def lean_str(s):
    out = []
    for c in s:
        o = ord(c)
        if c == "\\":
            out.append("'\\\\'")
        elif c == "'":
            out.append("'\\''")
        elif 32 <= o < 127:
            out.append("'%s'" % c)
        else:
            out.append("(Char.ofNat %d)" % o)
    return "([" + ", ".join(out) + "] : Str)"


def lean_list(xs):
    return "[" + ", ".join(xs) + "]"


def exc_or(val_lean, res):
    """res = ('ok', value) | ('err', cls)"""
    if res[0] == "err":
        return "(Except.error %s)" % lean_str(res[1])
    return "(Except.ok %s)" % val_lean(res[1])


def show_result(r):
    if r[0] == "err":
        return "ERR " + r[1]
    return "OK " + ";".join("%s=>%s" % (k, "|".join(v)) for k, v in r[1])


def main():
    n = int(sys.argv[1]) if len(sys.argv) > 1 else 300
    seed = int(sys.argv[2]) if len(sys.argv) > 2 else 1
    rnd = random.Random(seed)
    tmp = tempfile.mkdtemp(prefix="fp_difftest_")
    for f in FILES:
        p = os.path.join(tmp, f)
        os.makedirs(os.path.dirname(p), exist_ok=True)
        open(p, "w").write("x\n")
    os.chdir(tmp)

    # tables from the real callees
    glob_tab = {}
    for k in KEYS:
        try:
            glob_tab[k] = ("ok", [str(p) for p in pl.Path().glob(k)])
        except Exception as ex:
            glob_tab[k] = ("err", cls_name(ex))
    VP2, VP1 = "MAJOR.MINOR.PATCH", "{semver}"
    cp_tab = {True: {}, False: {}}
    for p in PATS_V2:
        try:
            cp_tab[True][p] = ("ok", v2patterns.compile_pattern(VP2, p).raw_pattern)
        except Exception as ex:
            cp_tab[True][p] = ("err", cls_name(ex))
    for p in PATS_V1:
        try:
            cp_tab[False][p] = ("ok", v1patterns.compile_pattern(VP1, p).raw_pattern)
        except Exception as ex:
            cp_tab[False][p] = ("err", cls_name(ex))

    cases = []
    for _ in range(n):
        is_new = rnd.random() < 0.6
        pats = PATS_V2 if is_new else PATS_V1
        # good patterns are more likely, so that many cases get past the first key
        weights = [4 if cp_tab[is_new][p][0] == "ok" and not p.startswith("[") else 1 for p in pats]
        keys = rnd.sample(KEYS, rnd.randint(1, 5))
        fps = {k: rnd.choices(pats, weights=weights, k=rnd.randint(0, 3)) for k in keys}
        raw = {"version_pattern": VP2 if is_new else VP1, "file_patterns": fps}
        try:
            r = config._compile_file_patterns(raw, is_new)
            real = ("ok", [(k, [p.raw_pattern for p in v]) for k, v in r.items()])
        except Exception as ex:
            real = ("err", cls_name(ex))
        cases.append((is_new, fps, real))

    # `_validate_version_with_pattern`
    vcases = []
    VERS = ["1.2.3", "v1.2.3", "2021.13", "202101.0001", "v2017.0001-alpha", "1.2", "v201701.0001"]
    VPATS = ["MAJOR.MINOR.PATCH", "vMAJOR.MINOR.PATCH", "YYYY.MM", "MAJOR.MINOR[.PATCH", "MAJOR. MINOR", "YYYY.0V",
             "GGGG.WW", "vYYYY0M.BUILD[-TAG]", "{semver}", "{pycalver}", "v{year}{month}{build}", "{major}.{minor}",
             "MAJOR.MINOR\t", "YYYY.WW", "{semver}("]
    parse_tab = {}
    for cv in VERS:
        for vp in VPATS:
            is_new = "{" not in vp and "}" not in vp
            try:
                (v2version if is_new else v1version).parse_version_info(cv, vp)
                parse_tab[(cv, vp)] = ("ok", "")
            except Exception as ex:
                parse_tab[(cv, vp)] = ("err", cls_name(ex))
            try:
                config._validate_version_with_pattern(cv, vp, is_new)
                real = ("ok", [])
            except Exception as ex:
                real = ("err", cls_name(ex))
            vcases.append((cv, vp, is_new, real))

    # the Lean file
    L = []
    L.append("import BumpverVerif.Gen.F_compileFilePatterns")
    L.append("import BumpverVerif.Gen.F_validateVersionWithPattern")
    L.append("open BV BV.GenF")
    L.append("def tab {α : Type} (t : List (Str × Except Str α)) (dflt : Except Str α) (k : Str) : Except Str α := (lookup k t).getD dflt")
    L.append("def globT : Str → Except Str (List Str) := tab %s (Except.error %s)" % (
        lean_list("(%s, %s)" % (lean_str(k), exc_or(lambda v: lean_list(lean_str(x) for x in v), r)) for k, r in glob_tab.items()),
        lean_str("!missing")))
    for flag, name in ((True, "cp2T"), (False, "cp1T")):
        L.append("def %s : Str → Except Str Str := tab %s (Except.error %s)" % (
            name, lean_list("(%s, %s)" % (lean_str(k), exc_or(lean_str, r)) for k, r in cp_tab[flag].items()),
            lean_str("!missing")))
    L.append("def cpOf (t : Str → Except Str Str) (v : RawVal) (p : Str) : Except Str Str := match v with | .str _ => t p | _ => Except.error %s" % lean_str("AttributeError"))
    L.append("def showR : Except Str (List (Str × List Str)) → String\n  | .error e => \"ERR \" ++ String.ofList e\n  | .ok m => \"OK \" ++ \";\".intercalate (m.map (fun kv => String.ofList kv.1 ++ \"=>\" ++ \"|\".intercalate (kv.2.map String.ofList)))")
    L.append("def showU : Except Str Unit → String\n  | .error e => \"ERR \" ++ String.ofList e\n  | .ok _ => \"OK \"")
    for i, (is_new, fps, real) in enumerate(cases):
        d = "({ opts := [(%s, RawVal.str %s)], filePatterns := some %s } : TomlSection)" % (
            lean_str("version_pattern"), lean_str(VP2 if is_new else VP1),
            lean_list("(%s, %s)" % (lean_str(k), lean_list(lean_str(p) for p in ps)) for k, ps in fps.items()))
        L.append("#eval IO.println (\"C%d \" ++ showR (compileFilePatterns globT (cpOf cp2T) (fun v ps => mapE (cpOf cp2T v) ps) (fun v ps => mapE (cpOf cp1T v) ps) %s %s))" % (
            i, d, "true" if is_new else "false"))
    ptab = lean_list("(%s, %s)" % (lean_str(cv + "\x00" + vp), exc_or(lambda v: "()", r)) for (cv, vp), r in parse_tab.items())
    L.append("def parseT (cv vp : Str) : Except Str Unit := tab %s (Except.error %s) (cv ++ [Char.ofNat 0] ++ vp)" % (ptab, lean_str("!missing")))
    for i, (cv, vp, is_new, real) in enumerate(vcases):
        L.append("#eval IO.println (\"V%d \" ++ showU (validateVersionWithPattern parseT parseT %s %s %s))" % (
            i, lean_str(cv), lean_str(vp), "true" if is_new else "false"))
    path = os.path.join(LEAN, ".lake", "filepatterns_difftest.lean")
    os.makedirs(os.path.dirname(path), exist_ok=True)
    open(path, "w", encoding="utf-8").write("\n".join(L) + "\n")
    r = subprocess.run(["timeout", "1200", "lake", "env", "lean", path], cwd=LEAN, capture_output=True, text=True)
    got = {}
    for ln in r.stdout.splitlines():
        m = re.match(r"([CV]\d+) (.*)$", ln)
        if m:
            got[m.group(1)] = m.group(2).rstrip()
    if r.returncode != 0:
        print("lean failed:\n" + (r.stdout + r.stderr)[-3000:])
        return 1
    bad = 0
    stats = {}
    for i, (is_new, fps, real) in enumerate(cases):
        want = show_result(real).rstrip()
        have = got.get("C%d" % i)
        key = real[1] if real[0] == "err" else "ok"
        stats[key] = stats.get(key, 0) + 1
        if want != have:
            bad += 1
            print("MISMATCH compile case %d: is_new=%s file_patterns=%r\n   real : %s\n   lean : %s" % (i, is_new, fps, want, have))
    for i, (cv, vp, is_new, real) in enumerate(vcases):
        want = show_result(real).rstrip()
        have = got.get("V%d" % i)
        key = "validate:" + (real[1] if real[0] == "err" else "ok")
        stats[key] = stats.get(key, 0) + 1
        if want != have:
            bad += 1
            print("MISMATCH validate case %d: %r %r\n   real : %s\n   lean : %s" % (i, cv, vp, want, have))
    print("glob table:", {k: (v[1] if v[0] == "err" else len(v[1])) for k, v in glob_tab.items()})
    print("outcomes  :", stats)
    print("%d compile cases, %d validate cases, %d mismatches" % (len(cases), len(vcases), bad))
    return 1 if bad else 0


if __name__ == "__main__":
    sys.exit(main())
