#!/venv/bin/python
"""Robustness demonstration for harness/translate_config.py + Proofs/Tie_<name>.lean (group `config`).

For every experiment: copy /repo/src to a scratch tree, apply ONE textual edit to config.py, run the
translator with VERIF_REPO pointing at the scratch tree, write the regenerated Gen/F_*.lean of the group,
rebuild the generated modules and type-check Proofs/Tie_<name>.lean.

  kind 'break'   : a plausible semantic one-token edit  -> the tie must NO LONGER compile
  kind 'harmless': a semantics-preserving rewrite        -> the tie should still compile

Afterwards the generated files are restored from the unmodified /repo and the scratch tree removed.
Usage: /venv/bin/python harness/dev/config_tie_experiments.py [name ...]     (output: config_tie_experiments.out.txt)
"""
import os
import shutil
import subprocess
import sys

HERE = os.path.dirname(os.path.abspath(__file__))
HARNESS = os.path.dirname(HERE)
VERIF = os.path.dirname(HARNESS)
LEAN = os.path.join(VERIF, "lean")
GEN = os.path.join(LEAN, "BumpverVerif", "Gen")
SCRATCH = os.path.join(VERIF, "scratch_repo_config")
sys.path.insert(0, HARNESS)

E = []
Q = "\"'\\\" \""       # the python source text  "'\" "


def exp(name, kind, label, old, new, also=None, tie=None):
    E.append(dict(name=name, file="config.py", kind=kind, label=label, old=old, new=new, also=also or [],
                  tie=tie or name))


# ---- _parse_cfg_strings -----------------------------------------------------------------------------
exp("parseCfgStrings", "break", "strip set loses the blank",
    "        raw_cfg[key] = raw_cfg[key].strip(" + Q + ")", "        raw_cfg[key] = raw_cfg[key].strip(\"'\\\"\")")
exp("parseCfgStrings", "break", "`if key in raw_cfg` -> `if key not in raw_cfg`",
    "    if key in raw_cfg:\n        raw_cfg[key] = raw_cfg[key].strip", "    if key not in raw_cfg:\n        raw_cfg[key] = raw_cfg[key].strip")
exp("parseCfgStrings", "break", "`raw_cfg.get(key, default)` -> `raw_cfg.get(key) or default`",
    "    return raw_cfg.get(key, default)", "    return raw_cfg.get(key) or default")
exp("parseCfgStrings", "break", "write-back dropped (strip result discarded)",
    "        raw_cfg[key] = raw_cfg[key].strip(" + Q + ")\n    return raw_cfg.get(key, default)",
    "        raw_cfg[key].strip(" + Q + ")\n    return raw_cfg.get(key, default)")
exp("parseCfgStrings", "break", "`.strip` -> `.lstrip`",
    "        raw_cfg[key] = raw_cfg[key].strip(" + Q + ")", "        raw_cfg[key] = raw_cfg[key].lstrip(" + Q + ")")
exp("parseCfgStrings", "break", "default returned when the key is present but empty (`or`-style)",
    "    return raw_cfg.get(key, default)", "    return raw_cfg[key] if raw_cfg.get(key, default) else default")
exp("parseCfgStrings", "harmless", "local introduced",
    "        raw_cfg[key] = raw_cfg[key].strip(" + Q + ")", "        val = raw_cfg[key]\n        raw_cfg[key] = val.strip(" + Q + ")")
exp("parseCfgStrings", "harmless", "negated test, branches exchanged",
    "    if key in raw_cfg:\n        raw_cfg[key] = raw_cfg[key].strip(" + Q + ")",
    "    if key not in raw_cfg:\n        pass\n    else:\n        raw_cfg[key] = raw_cfg[key].strip(" + Q + ")")
exp("parseCfgStrings", "harmless", "`if/else` with two returns",
    "    return raw_cfg.get(key, default)", "    if key in raw_cfg:\n        return raw_cfg[key]\n    else:\n        return default")

# ---- _parse_config ---------------------------------------------------------------------------------
exp("parseConfig", "break", "`raw_cfg.get('commit_message', DEFAULT)` -> `raw_cfg.get('commit_message') or DEFAULT`",
    "raw_cfg.get('commit_message', DEFAULT_COMMIT_MESSAGE)", "raw_cfg.get('commit_message') or DEFAULT_COMMIT_MESSAGE")
exp("parseConfig", "break", "version_pattern: strip set loses the blank",
    "version_pattern.strip(" + Q + ")", "version_pattern.strip(\"'\\\"\")")
exp("parseConfig", "break", "is_new_pattern: `and` -> `or`",
    "\"{\" not in version_pattern and \"}\" not in version_pattern", "\"{\" not in version_pattern or \"}\" not in version_pattern")
exp("parseConfig", "break", "write-back of the stripped version_pattern dropped",
    "    version_pattern = raw_cfg['version_pattern'] = version_pattern.strip(", "    version_pattern = version_pattern.strip(")
exp("parseConfig", "break", "`if tag and not commit` -> `if tag and commit`",
    "    if tag and not commit:", "    if tag and commit:")
exp("parseConfig", "break", "guard `push requires commit` dropped",
    "    if push and not commit:\n        raise ValueError(\"commit=True required if push=True\")\n", "")
exp("parseConfig", "break", "`tag is None` sets True",
    "        tag = raw_cfg['tag'] = False", "        tag = raw_cfg['tag'] = True")
exp("parseConfig", "break", "pre/post hook keys swapped",
    "_parse_cfg_strings(raw_cfg, 'pre_commit_hook' , \"\")", "_parse_cfg_strings(raw_cfg, 'post_commit_hook' , \"\")")
exp("parseConfig", "break", "hook existence test inverted",
    "    if pre_commit_hook and not pl.Path(pre_commit_hook).exists():", "    if pre_commit_hook and pl.Path(pre_commit_hook).exists():")
exp("parseConfig", "break", "validation moved before the strip of version_pattern (data dependency)",
    "    version_pattern: str = raw_cfg['version_pattern']\n    version_pattern = raw_cfg['version_pattern'] = version_pattern.strip(" + Q + ")\n\n    is_new_pattern = \"{\" not in version_pattern and \"}\" not in version_pattern\n\n    _validate_version_with_pattern(current_version, version_pattern, is_new_pattern)\n",
    "    version_pattern: str = raw_cfg['version_pattern']\n    is_new_pattern = \"{\" not in version_pattern and \"}\" not in version_pattern\n\n    _validate_version_with_pattern(current_version, version_pattern, is_new_pattern)\n    version_pattern = raw_cfg['version_pattern'] = version_pattern.strip(" + Q + ")\n")
exp("parseConfig", "break", "Config(tag=push, push=tag)",
    "        tag=tag,\n        push=push,", "        tag=push,\n        push=tag,")
exp("parseConfig", "break", "default tag scope GLOBAL",
    "_parse_cfg_strings(raw_cfg, 'tag_scope', DEFAULT_TAG_SCOPE)", "_parse_cfg_strings(raw_cfg, 'tag_scope', TagScope.GLOBAL)")
exp("parseConfig", "break", "`current_version` read with a default",
    "    current_version: str = raw_cfg['current_version']\n    current_version = raw", "    current_version: str = raw_cfg.get('current_version', \"\")\n    current_version = raw")
exp("parseConfig", "break", "`push is None` test on tag",
    "    if push is None:", "    if tag is None:")
exp("parseConfig", "harmless", "local renamed (commit_message -> cmsg)",
    "    commit_message: str = raw_cfg.get('commit_message', DEFAULT_COMMIT_MESSAGE)\n    commit_message = raw_cfg['commit_message'] = commit_message.strip(" + Q + ")",
    "    cmsg: str = raw_cfg.get('commit_message', DEFAULT_COMMIT_MESSAGE)\n    cmsg = raw_cfg['commit_message'] = cmsg.strip(" + Q + ")",
    also=[("        commit_message=commit_message,", "        commit_message=cmsg,")])
exp("parseConfig", "harmless", "is_new_pattern conjuncts commuted",
    "\"{\" not in version_pattern and \"}\" not in version_pattern", "\"}\" not in version_pattern and \"{\" not in version_pattern")
exp("parseConfig", "harmless", "`if tag and not commit` as nested ifs",
    "    if tag and not commit:\n        raise ValueError(\"commit=True required if tag=True\")",
    "    if tag:\n        if not commit:\n            raise ValueError(\"commit=True required if tag=True\")")
exp("parseConfig", "harmless", "chained assignment split in two",
    "    tag_message = raw_cfg['tag_message'] = tag_message.strip(" + Q + ")",
    "    tag_message = tag_message.strip(" + Q + ")\n    raw_cfg['tag_message'] = tag_message")
exp("parseConfig", "harmless", "error message reworded, Config fields reordered",
    "        raise ValueError(\"commit=True required if tag=True\")", "        raise ValueError(\"tag=True needs commit=True\")",
    also=[("        commit=commit,\n        tag=tag,", "        tag=tag,\n        commit=commit,")])
exp("parseConfig", "harmless", "`is None` written as `== None`-free if/else",
    "    if tag is None:\n        tag = raw_cfg['tag'] = False", "    if tag is not None:\n        pass\n    else:\n        tag = raw_cfg['tag'] = False")


# ---- _set_raw_config_defaults -----------------------------------------------------------------------
N = "setRawConfigDefaults"
exp(N, "break", "`'version_pattern' not in raw_cfg` -> `in`",
    "    if 'version_pattern' not in raw_cfg:", "    if 'version_pattern' in raw_cfg:")
exp(N, "break", "missing pattern raises ValueError instead of TypeError",
    "        raise TypeError(\"Missing version_pattern\")", "        raise ValueError(\"Missing version_pattern\")")
exp(N, "break", "`not isinstance(version_pattern, str)` -> `isinstance`",
    "    elif not isinstance(raw_cfg['version_pattern'], str):", "    elif isinstance(raw_cfg['version_pattern'], str):")
exp(N, "break", "missing current_version raises TypeError instead of ValueError",
    "        raise ValueError(\"Missing 'current_version' configuration\")", "        raise TypeError(\"Missing 'current_version' configuration\")")
exp(N, "break", "`'file_patterns' not in raw_cfg` -> `in`",
    "    if 'file_patterns' not in raw_cfg:", "    if 'file_patterns' in raw_cfg:")
exp(N, "break", "type test on the wrong key",
    "    elif not isinstance(raw_cfg['current_version'], str):", "    elif not isinstance(raw_cfg['version_pattern'], str):")
exp(N, "break", "the two checks exchanged (current_version first)",
    "    if 'version_pattern' not in raw_cfg:\n        raise TypeError(\"Missing version_pattern\")",
    "    if 'current_version' not in raw_cfg:\n        raise ValueError(\"Missing 'current_version' configuration\")\n    if 'version_pattern' not in raw_cfg:\n        raise TypeError(\"Missing version_pattern\")")
exp(N, "harmless", "`x not in d` -> `not (x in d)`",
    "    if 'version_pattern' not in raw_cfg:", "    if not ('version_pattern' in raw_cfg):")
exp(N, "harmless", "elif -> else: if",
    "    elif not isinstance(raw_cfg['current_version'], str):\n        err = f\"Invalid type for current_version = {raw_cfg['current_version']}\"\n        raise TypeError(err)",
    "    else:\n        if not isinstance(raw_cfg['current_version'], str):\n            err = f\"Invalid type for current_version = {raw_cfg['current_version']}\"\n            raise TypeError(err)")
exp(N, "harmless", "message reworded, raised directly",
    "        err = f\"Invalid type for version_pattern = {raw_cfg['version_pattern']}\"\n        raise TypeError(err)",
    "        raise TypeError(f\"version_pattern must be a string, not {raw_cfg['version_pattern']}\")")

# ---- _parse_cfg_file_patterns -----------------------------------------------------------------------
N = "parseCfgFilePatterns"
exp(N, "break", "quotes stripped from INI file patterns",
    "        maybe_patterns = (line.strip() for line in patterns_str.splitlines())",
    "        maybe_patterns = (line.strip(" + Q + ") for line in patterns_str.splitlines())")
exp(N, "break", "empty lines kept",
    "        patterns       = [p for p in maybe_patterns if p]", "        patterns       = [p for p in maybe_patterns]")
exp(N, "break", "wrong section name tested",
    "    if cfg_parser.has_section(\"pycalver:file_patterns\"):", "    if cfg_parser.has_section(\"pycalver:patterns\"):")
exp(N, "break", "the raw value yielded instead of the cleaned lines",
    "        yield filepath, patterns", "        yield filepath, [patterns_str]")
exp(N, "break", "bumpver branch reads the pycalver section",
    "        file_pattern_items = cfg_parser.items(\"bumpver:file_patterns\")", "        file_pattern_items = cfg_parser.items(\"pycalver:file_patterns\")")
exp(N, "break", "lines not stripped",
    "        maybe_patterns = (line.strip() for line in patterns_str.splitlines())",
    "        maybe_patterns = (line for line in patterns_str.splitlines())")
exp(N, "break", "[bumpver:file_patterns] takes precedence over [pycalver:file_patterns]",
    "    if cfg_parser.has_section(\"pycalver:file_patterns\"):\n        file_pattern_items = cfg_parser.items(\"pycalver:file_patterns\")\n    elif cfg_parser.has_section(\"bumpver:file_patterns\"):\n        file_pattern_items = cfg_parser.items(\"bumpver:file_patterns\")",
    "    if cfg_parser.has_section(\"bumpver:file_patterns\"):\n        file_pattern_items = cfg_parser.items(\"bumpver:file_patterns\")\n    elif cfg_parser.has_section(\"pycalver:file_patterns\"):\n        file_pattern_items = cfg_parser.items(\"pycalver:file_patterns\")")
exp(N, "harmless", "local renamed",
    "        patterns       = [p for p in maybe_patterns if p]\n        yield filepath, patterns",
    "        pats = [p for p in maybe_patterns if p]\n        yield filepath, pats")
exp(N, "harmless", "generator expression -> list comprehension",
    "        maybe_patterns = (line.strip() for line in patterns_str.splitlines())",
    "        maybe_patterns = [line.strip() for line in patterns_str.splitlines()]")
exp(N, "harmless", "`else: return` -> empty item list",
    "    else:\n        return\n\n    for filepath, patterns_str in file_pattern_items:", "    else:\n        file_pattern_items = []\n\n    for filepath, patterns_str in file_pattern_items:")
exp(N, "harmless", "one comprehension instead of two",
    "        maybe_patterns = (line.strip() for line in patterns_str.splitlines())\n        patterns       = [p for p in maybe_patterns if p]",
    "        patterns = [p for p in (line.strip() for line in patterns_str.splitlines()) if p]")

# ---- _parse_cfg -----------------------------------------------------------------------------------------
N = "parseCfg"
exp(N, "break", "[bumpver] takes precedence over [pycalver]",
    "    if cfg_parser.has_section(\"pycalver\"):\n        raw_cfg = dict(cfg_parser.items(\"pycalver\"))\n    elif cfg_parser.has_section(\"bumpver\"):\n        raw_cfg = dict(cfg_parser.items(\"bumpver\"))",
    "    if cfg_parser.has_section(\"bumpver\"):\n        raw_cfg = dict(cfg_parser.items(\"bumpver\"))\n    elif cfg_parser.has_section(\"pycalver\"):\n        raw_cfg = dict(cfg_parser.items(\"pycalver\"))")
exp(N, "break", "bool spelling compared without `.lower()`",
    "            val = val.lower() in (\"yes\", \"true\", \"1\", \"on\")", "            val = val in (\"yes\", \"true\", \"1\", \"on\")")
exp(N, "break", "spelling `on` dropped",
    "            val = val.lower() in (\"yes\", \"true\", \"1\", \"on\")", "            val = val.lower() in (\"yes\", \"true\", \"1\")")
exp(N, "break", "`raw_cfg.get(option, default_val)` -> `raw_cfg.get(option)`",
    "        val: OptionVal = raw_cfg.get(option, default_val)", "        val: OptionVal = raw_cfg.get(option)")
exp(N, "break", "`raw_cfg[option] = val` dropped",
    "            val = val.lower() in (\"yes\", \"true\", \"1\", \"on\")\n        raw_cfg[option] = val", "            val = val.lower() in (\"yes\", \"true\", \"1\", \"on\")\n            raw_cfg[option] = val")
exp(N, "break", "`_set_raw_config_defaults` not called",
    "    raw_cfg['file_patterns'] = dict(_parse_cfg_file_patterns(cfg_parser))\n\n    _set_raw_config_defaults(raw_cfg)\n", "    raw_cfg['file_patterns'] = dict(_parse_cfg_file_patterns(cfg_parser))\n")
exp(N, "break", "missing section raises TypeError",
    "        raise ValueError(\"Missing [bumpver] section.\")", "        raise TypeError(\"Missing [bumpver] section.\")")
exp(N, "break", "`in` -> `not in` for the spellings",
    "            val = val.lower() in (\"yes\", \"true\", \"1\", \"on\")", "            val = val.lower() not in (\"yes\", \"true\", \"1\", \"on\")")
exp(N, "break", "file_patterns taken from the raw section instead of the parsed lines",
    "    raw_cfg['file_patterns'] = dict(_parse_cfg_file_patterns(cfg_parser))", "    raw_cfg['file_patterns'] = {}")
exp(N, "harmless", "local renamed",
    "        val: OptionVal = raw_cfg.get(option, default_val)\n        if isinstance(val, (bytes, str)):\n            val = val.lower() in (\"yes\", \"true\", \"1\", \"on\")\n        raw_cfg[option] = val",
    "        v: OptionVal = raw_cfg.get(option, default_val)\n        if isinstance(v, (bytes, str)):\n            v = v.lower() in (\"yes\", \"true\", \"1\", \"on\")\n        raw_cfg[option] = v")
exp(N, "harmless", "python2 `readfp` fallback removed",
    "    if hasattr(cfg_parser, 'read_file'):\n        cfg_parser.read_file(cfg_buffer)\n    else:\n        cfg_parser.readfp(cfg_buffer)  # pylint: disable=deprecated-method ; python2 compat",
    "    cfg_parser.read_file(cfg_buffer)")
exp(N, "harmless", "spellings as a list, `isinstance(val, str)`",
    "        if isinstance(val, (bytes, str)):\n            val = val.lower() in (\"yes\", \"true\", \"1\", \"on\")",
    "        if isinstance(val, str):\n            val = val.lower() in [\"yes\", \"true\", \"1\", \"on\"]")
exp(N, "harmless", "file_patterns assigned before the BOOL_OPTIONS loop",
    "    for option, default_val in BOOL_OPTIONS.items():\n        val: OptionVal = raw_cfg.get(option, default_val)\n        if isinstance(val, (bytes, str)):\n            val = val.lower() in (\"yes\", \"true\", \"1\", \"on\")\n        raw_cfg[option] = val\n\n    raw_cfg['file_patterns'] = dict(_parse_cfg_file_patterns(cfg_parser))\n",
    "    raw_cfg['file_patterns'] = dict(_parse_cfg_file_patterns(cfg_parser))\n\n    for option, default_val in BOOL_OPTIONS.items():\n        val: OptionVal = raw_cfg.get(option, default_val)\n        if isinstance(val, (bytes, str)):\n            val = val.lower() in (\"yes\", \"true\", \"1\", \"on\")\n        raw_cfg[option] = val\n")

# ---- _parse_toml ------------------------------------------------------------------------------------------
N = "parseToml"
exp(N, "break", "`'tool' in d and 'bumpver' in d['tool']` -> `or`",
    "    if 'tool' in raw_full_cfg and 'bumpver' in raw_full_cfg['tool']:", "    if 'tool' in raw_full_cfg or 'bumpver' in raw_full_cfg['tool']:")
exp(N, "break", "[pycalver] takes precedence over [bumpver]",
    "    elif 'bumpver' in raw_full_cfg:\n        raw_cfg = raw_full_cfg['bumpver']\n    elif 'pycalver' in raw_full_cfg:\n        raw_cfg = raw_full_cfg['pycalver']",
    "    elif 'pycalver' in raw_full_cfg:\n        raw_cfg = raw_full_cfg['pycalver']\n    elif 'bumpver' in raw_full_cfg:\n        raw_cfg = raw_full_cfg['bumpver']")
exp(N, "break", "[tool.bumpver] detected but [bumpver] read",
    "        raw_cfg = raw_full_cfg['tool']['bumpver']", "        raw_cfg = raw_full_cfg['bumpver']")
exp(N, "break", "`raw_cfg.get(option, default_val)` -> `raw_cfg.get(option)`",
    "        raw_cfg[option] = raw_cfg.get(option, default_val)", "        raw_cfg[option] = raw_cfg.get(option)")
exp(N, "break", "no section: ValueError instead of an empty dict",
    "    else:\n        raw_cfg = {}\n\n    for option, default_val in BOOL_OPTIONS.items():\n        raw_cfg[option] = raw_cfg.get(option, default_val)",
    "    else:\n        raise ValueError(\"Missing section\")\n\n    for option, default_val in BOOL_OPTIONS.items():\n        raw_cfg[option] = raw_cfg.get(option, default_val)")
exp(N, "break", "`_set_raw_config_defaults` not called",
    "        raw_cfg[option] = raw_cfg.get(option, default_val)\n\n    _set_raw_config_defaults(raw_cfg)\n", "        raw_cfg[option] = raw_cfg.get(option, default_val)\n")
exp(N, "break", "[tool.bumpver] only checked for 'tool'",
    "    if 'tool' in raw_full_cfg and 'bumpver' in raw_full_cfg['tool']:", "    if 'tool' in raw_full_cfg:")
exp(N, "harmless", "`and` as nested ifs is NOT equivalent with elif; instead: local renamed",
    "    for option, default_val in BOOL_OPTIONS.items():\n        raw_cfg[option] = raw_cfg.get(option, default_val)\n\n    _set_raw_config_defaults(raw_cfg)\n\n    return raw_cfg\n\n\ndef _iter_glob",
    "    for opt, dflt in BOOL_OPTIONS.items():\n        raw_cfg[opt] = raw_cfg.get(opt, dflt)\n\n    _set_raw_config_defaults(raw_cfg)\n\n    return raw_cfg\n\n\ndef _iter_glob")
exp(N, "harmless", "elif chain as nested else/if",
    "    elif 'pycalver' in raw_full_cfg:\n        raw_cfg = raw_full_cfg['pycalver']\n    else:\n        raw_cfg = {}\n\n    for option, default_val in BOOL_OPTIONS.items():\n        raw_cfg[option] = raw_cfg.get(option, default_val)",
    "    else:\n        if 'pycalver' in raw_full_cfg:\n            raw_cfg = raw_full_cfg['pycalver']\n        else:\n            raw_cfg = {}\n\n    for option, default_val in BOOL_OPTIONS.items():\n        raw_cfg[option] = raw_cfg.get(option, default_val)")
exp(N, "harmless", "value in a local before the item assignment",
    "        raw_cfg[option] = raw_cfg.get(option, default_val)\n\n    _set_raw_config_defaults(raw_cfg)\n\n    return raw_cfg\n\n\ndef _iter_glob",
    "        val = raw_cfg.get(option, default_val)\n        raw_cfg[option] = val\n\n    _set_raw_config_defaults(raw_cfg)\n\n    return raw_cfg\n\n\ndef _iter_glob")
exp(N, "harmless", "`'tool' in d` negated with exchanged branches is NOT used; instead: conjuncts as nested test via walrus-free temp",
    "    raw_full_cfg: typ.Any = toml.load(cfg_buffer)\n    raw_cfg     : RawConfig\n", "    raw_cfg     : RawConfig\n    raw_full_cfg: typ.Any = toml.load(cfg_buffer)\n")

# ---- _parse_current_version_default_pattern ---------------------------------------------------------------
N = "parseCurrentVersionDefaultPattern"
exp(N, "break", "own line must contain `=` (`current_version =`)",
    "        if is_config_section and line.startswith(\"current_version\"):", "        if is_config_section and line.startswith(\"current_version =\"):")
exp(N, "break", "section header prefix-matched",
    "        elif line.strip() == \"[bumpver]\":", "        elif line.strip().startswith(\"[bumpver\"):")
exp(N, "break", "`is_config_section and` -> `or`",
    "        if is_config_section and line.startswith(\"current_version\"):", "        if is_config_section or line.startswith(\"current_version\"):")
exp(N, "break", "any line starting with `[` ends the section",
    "        elif line and line[0] == \"[\" and line[-1] == \"]\":", "        elif line and line[0] == \"[\":")
exp(N, "break", "other section headers do not end the section",
    "        elif line and line[0] == \"[\" and line[-1] == \"]\":\n            is_config_section = False", "        elif line and line[0] == \"[\" and line[-1] == \"]\":\n            is_config_section = True")
exp(N, "break", "replace arguments exchanged",
    "            return line.replace(current_version, version_pattern)", "            return line.replace(version_pattern, current_version)")
exp(N, "break", "raw value not stripped of its quotes",
    "            current_version: str = raw_cfg['current_version'].strip(" + Q + ")", "            current_version: str = raw_cfg['current_version']")
exp(N, "break", "[tool.bumpver] not recognised",
    "        elif line.strip() == \"[tool.bumpver]\":\n            is_config_section = True\n", "")
exp(N, "break", "`line[-1]` -> `line[1]`",
    "        elif line and line[0] == \"[\" and line[-1] == \"]\":", "        elif line and line[0] == \"[\" and line[1] == \"]\":")
exp(N, "harmless", "local renamed",
    "    is_config_section = False\n    for line in raw_cfg_text.splitlines():\n        if is_config_section and line.startswith(\"current_version\"):",
    "    in_section = False\n    for line in raw_cfg_text.splitlines():\n        if in_section and line.startswith(\"current_version\"):",
    also=[("        if line.strip() == \"[pycalver]\":\n            is_config_section = True\n        elif line.strip() == \"[bumpver]\":\n            is_config_section = True\n        elif line.strip() == \"[tool.bumpver]\":\n            is_config_section = True\n        elif line and line[0] == \"[\" and line[-1] == \"]\":\n            is_config_section = False",
           "        if line.strip() == \"[pycalver]\":\n            in_section = True\n        elif line.strip() == \"[bumpver]\":\n            in_section = True\n        elif line.strip() == \"[tool.bumpver]\":\n            in_section = True\n        elif line and line[0] == \"[\" and line[-1] == \"]\":\n            in_section = False")])
exp(N, "harmless", "`a and b` as nested ifs",
    "        if is_config_section and line.startswith(\"current_version\"):\n            # NOTE: In a .cfg file the raw values include their quotes. Strip them, so the\n            #   pattern keeps the quotes (or lack thereof) of the current_version line itself.\n            current_version: str = raw_cfg['current_version'].strip(" + Q + ")\n            version_pattern: str = raw_cfg['version_pattern'].strip(" + Q + ")\n            return line.replace(current_version, version_pattern)",
    "        if is_config_section:\n            if line.startswith(\"current_version\"):\n                current_version: str = raw_cfg['current_version'].strip(" + Q + ")\n                version_pattern: str = raw_cfg['version_pattern'].strip(" + Q + ")\n                return line.replace(current_version, version_pattern)")
exp(N, "harmless", "stripped line in a local",
    "        if line.strip() == \"[pycalver]\":\n            is_config_section = True\n        elif line.strip() == \"[bumpver]\":\n            is_config_section = True\n        elif line.strip() == \"[tool.bumpver]\":",
    "        stripped = line.strip()\n        if stripped == \"[pycalver]\":\n            is_config_section = True\n        elif stripped == \"[bumpver]\":\n            is_config_section = True\n        elif stripped == \"[tool.bumpver]\":")
exp(N, "harmless", "two header branches merged with `or`",
    "        if line.strip() == \"[pycalver]\":\n            is_config_section = True\n        elif line.strip() == \"[bumpver]\":\n            is_config_section = True",
    "        if line.strip() == \"[pycalver]\" or line.strip() == \"[bumpver]\":\n            is_config_section = True")

exp(N, "harmless", "seeded/_harmless-refactor: the three header tests as one membership test",
    "        if line.strip() == \"[pycalver]\":\n            is_config_section = True\n        elif line.strip() == \"[bumpver]\":\n            is_config_section = True\n        elif line.strip() == \"[tool.bumpver]\":\n            is_config_section = True",
    "        if line.strip() in (\"[pycalver]\", \"[bumpver]\", \"[tool.bumpver]\"):\n            is_config_section = True")
exp(N, "harmless", "membership test against a list, stripped line in a local",
    "        if line.strip() == \"[pycalver]\":\n            is_config_section = True\n        elif line.strip() == \"[bumpver]\":\n            is_config_section = True\n        elif line.strip() == \"[tool.bumpver]\":\n            is_config_section = True",
    "        header = line.strip()\n        if header in [\"[bumpver]\", \"[pycalver]\", \"[tool.bumpver]\"]:\n            is_config_section = True")
exp(N, "break", "membership test that forgets [tool.bumpver]",
    "        if line.strip() == \"[pycalver]\":\n            is_config_section = True\n        elif line.strip() == \"[bumpver]\":\n            is_config_section = True\n        elif line.strip() == \"[tool.bumpver]\":\n            is_config_section = True",
    "        if line.strip() in (\"[pycalver]\", \"[bumpver]\"):\n            is_config_section = True")
exp(N, "break", "membership test on the unstripped line",
    "        if line.strip() == \"[pycalver]\":\n            is_config_section = True\n        elif line.strip() == \"[bumpver]\":\n            is_config_section = True\n        elif line.strip() == \"[tool.bumpver]\":\n            is_config_section = True",
    "        if line in (\"[pycalver]\", \"[bumpver]\", \"[tool.bumpver]\"):\n            is_config_section = True")

# ---- _pick_config_filepath ---------------------------------------------------------------------------------
N = "pickConfigFile"
exp(N, "break", "candidate order: bumpver.toml before pycalver.toml",
    "        path / \"pycalver.toml\",\n        path / \"bumpver.toml\",", "        path / \"bumpver.toml\",\n        path / \"pycalver.toml\",")
exp(N, "break", "`(A or B) and C` -> `A or B and C`",
    "            has_bumpver_section = (b\"bumpver]\" in data or b\"pycalver]\" in data) and b\"current_version\" in data",
    "            has_bumpver_section = b\"bumpver]\" in data or b\"pycalver]\" in data and b\"current_version\" in data")
exp(N, "break", "`if has_bumpver_section` negated",
    "            if has_bumpver_section:\n                return config_filepath", "            if not has_bumpver_section:\n                return config_filepath")
exp(N, "break", "second loop: `exists()` negated",
    "    for config_filepath in config_candidates:\n        if config_filepath.exists():\n            return config_filepath", "    for config_filepath in config_candidates:\n        if not config_filepath.exists():\n            return config_filepath")
exp(N, "break", "fallback pyproject.toml",
    "    return path / \"bumpver.toml\"", "    return path / \"pyproject.toml\"")
exp(N, "break", "marker `current_version` -> `version_pattern`",
    "and b\"current_version\" in data", "and b\"version_pattern\" in data")
exp(N, "break", "first loop opens files that may not exist",
    "        if config_filepath.exists():\n            with config_filepath.open(mode=\"rb\") as fobj:\n                data = fobj.read()\n\n            has_bumpver_section = (b\"bumpver]\" in data or b\"pycalver]\" in data) and b\"current_version\" in data\n            if has_bumpver_section:\n                return config_filepath",
    "        if True:\n            with config_filepath.open(mode=\"rb\") as fobj:\n                data = fobj.read()\n\n            has_bumpver_section = (b\"bumpver]\" in data or b\"pycalver]\" in data) and b\"current_version\" in data\n            if has_bumpver_section:\n                return config_filepath")
exp(N, "break", "a candidate dropped (.bumpver.toml)",
    "        path / \".bumpver.toml\",\n", "")
exp(N, "harmless", "local renamed",
    "                data = fobj.read()\n\n            has_bumpver_section = (b\"bumpver]\" in data or b\"pycalver]\" in data) and b\"current_version\" in data",
    "                content = fobj.read()\n\n            has_bumpver_section = (b\"bumpver]\" in content or b\"pycalver]\" in content) and b\"current_version\" in content")
exp(N, "harmless", "`or` operands commuted",
    "(b\"bumpver]\" in data or b\"pycalver]\" in data)", "(b\"pycalver]\" in data or b\"bumpver]\" in data)")
exp(N, "harmless", "flag inlined into the test",
    "            has_bumpver_section = (b\"bumpver]\" in data or b\"pycalver]\" in data) and b\"current_version\" in data\n            if has_bumpver_section:",
    "            if (b\"bumpver]\" in data or b\"pycalver]\" in data) and b\"current_version\" in data:")
exp(N, "harmless", "`continue` for missing files",
    "        if config_filepath.exists():\n            with config_filepath.open(mode=\"rb\") as fobj:\n                data = fobj.read()\n\n            has_bumpver_section = (b\"bumpver]\" in data or b\"pycalver]\" in data) and b\"current_version\" in data\n            if has_bumpver_section:\n                return config_filepath",
    "        if not config_filepath.exists():\n            continue\n        with config_filepath.open(mode=\"rb\") as fobj:\n            data = fobj.read()\n\n        has_bumpver_section = (b\"bumpver]\" in data or b\"pycalver]\" in data) and b\"current_version\" in data\n        if has_bumpver_section:\n            return config_filepath")

# ---- _parse_config_and_format / init_project_ctx ------------------------------------------------------------
N = "initProjectCtx"
exp(N, "break", "format from the first dot of the name",
    "    config_format = config_filepath.suffix[1:]", "    config_format = config_filepath.name.split(\".\", 1)[1]")
exp(N, "break", "`suffix[1:]` -> `suffix[2:]`",
    "    config_format = config_filepath.suffix[1:]", "    config_format = config_filepath.suffix[2:]")
exp(N, "break", "`suffix[1:]` -> `suffix`",
    "    config_format = config_filepath.suffix[1:]", "    config_format = config_filepath.suffix")
exp(N, "break", "`is_absolute()` negated",
    "    if config_filepath.is_absolute():", "    if not config_filepath.is_absolute():")
exp(N, "break", ".hg tested before .git",
    "    if (path / \".git\").exists():\n        vcs_type = 'git'\n    elif (path / \".hg\").exists():\n        vcs_type = 'hg'",
    "    if (path / \".hg\").exists():\n        vcs_type = 'hg'\n    elif (path / \".git\").exists():\n        vcs_type = 'git'")
exp(N, "break", "ProjectContext fields exchanged",
    "    return ProjectContext(path, config_filepath, config_rel_path, config_format, vcs_type)", "    return ProjectContext(path, config_filepath, config_format, config_rel_path, vcs_type)")
exp(N, "break", "no VCS reported as git",
    "    else:\n        vcs_type = None\n\n    return ProjectContext", "    else:\n        vcs_type = 'git'\n\n    return ProjectContext")
exp(N, "harmless", "locals renamed",
    "    config_filepath, config_rel_path, config_format = _parse_config_and_format(path)",
    "    cfg_path, rel, fmt = _parse_config_and_format(path)",
    also=[("    return ProjectContext(path, config_filepath, config_rel_path, config_format, vcs_type)", "    return ProjectContext(path, cfg_path, rel, fmt, vcs_type)")])
exp(N, "harmless", "elif -> else: if",
    "    elif (path / \".hg\").exists():\n        vcs_type = 'hg'\n    else:\n        vcs_type = None",
    "    else:\n        if (path / \".hg\").exists():\n            vcs_type = 'hg'\n        else:\n            vcs_type = None")
exp(N, "harmless", "is_absolute test negated with exchanged branches",
    "    if config_filepath.is_absolute():\n        config_rel_path = str(config_filepath.relative_to(path.absolute()))\n    else:\n        config_rel_path = str(config_filepath)\n        config_filepath = pl.Path.cwd() / config_filepath",
    "    if not config_filepath.is_absolute():\n        config_rel_path = str(config_filepath)\n        config_filepath = pl.Path.cwd() / config_filepath\n    else:\n        config_rel_path = str(config_filepath.relative_to(path.absolute()))")

# ---- default_config -----------------------------------------------------------------------------------------
N = "defaultConfig"
exp(N, "break", "pyproject template chosen for bumpver.toml",
    "        if ctx.config_filepath.name == \"pyproject.toml\":", "        if ctx.config_filepath.name == \"bumpver.toml\":")
exp(N, "break", "cfg table loses setup.py",
    "            \"setup.py\"  : DEFAULT_CONFIGPARSER_SETUP_PY_STR,\n", "")
exp(N, "break", "entries added for files that do NOT exist",
    "        if (ctx.path / filename).exists():\n            cfg_str += default_str", "        if not (ctx.path / filename).exists():\n            cfg_str += default_str")
exp(N, "break", "fallback entry added when a config file exists",
    "    if not has_config_file:", "    if has_config_file:")
exp(N, "break", "final newline dropped",
    "    cfg_str += \"\\n\"\n\n    return cfg_str", "    return cfg_str")
exp(N, "break", "toml fallback names pyproject.toml",
    "            cfg_str += DEFAULT_TOML_BUMPVER_STR", "            cfg_str += DEFAULT_TOML_PYPROJECT_STR")
exp(N, "break", "`any` -> `all`",
    "    has_config_file = any((ctx.path / fn).exists() for fn in SUPPORTED_CONFIGS)", "    has_config_file = all((ctx.path / fn).exists() for fn in SUPPORTED_CONFIGS)")
exp(N, "break", "toml table order: setup.py first",
    "            \"pyproject.toml\": DEFAULT_TOML_PYPROJECT_STR,\n            \"pycalver.toml\" : DEFAULT_TOML_PYCALVER_STR,",
    "            \"pycalver.toml\" : DEFAULT_TOML_PYCALVER_STR,\n            \"pyproject.toml\": DEFAULT_TOML_PYPROJECT_STR,")
exp(N, "break", "unknown format falls back to toml instead of raising",
    "    elif fmt == 'toml':\n        if ctx.config_filepath.name", "    else:\n        if ctx.config_filepath.name",
    also=[("    else:\n        raise ValueError(f\"Invalid config_format='{fmt}', must be either 'toml' or 'cfg'.\")\n", "")])
exp(N, "harmless", "local renamed",
    "    cfg_str = base_tmpl.format(", "    text = base_tmpl.format(",
    also=[("            cfg_str += default_str\n", "            text += default_str\n"),
          ("            cfg_str += DEFAULT_CONFIGPARSER_SETUP_CFG_STR\n        if ctx.config_format == 'toml':\n            cfg_str += DEFAULT_TOML_BUMPVER_STR\n\n    cfg_str += \"\\n\"\n\n    return cfg_str",
           "            text += DEFAULT_CONFIGPARSER_SETUP_CFG_STR\n        if ctx.config_format == 'toml':\n            text += DEFAULT_TOML_BUMPVER_STR\n\n    text += \"\\n\"\n\n    return text")])
exp(N, "harmless", "`x += y` -> `x = x + y`",
    "            cfg_str += default_str\n", "            cfg_str = cfg_str + default_str\n")
exp(N, "harmless", "flag inlined",
    "    has_config_file = any((ctx.path / fn).exists() for fn in SUPPORTED_CONFIGS)\n\n    if not has_config_file:", "    if not any((ctx.path / fn).exists() for fn in SUPPORTED_CONFIGS):")
exp(N, "harmless", "second fallback test as `elif`",
    "        if ctx.config_format == 'toml':\n            cfg_str += DEFAULT_TOML_BUMPVER_STR", "        elif ctx.config_format == 'toml':\n            cfg_str += DEFAULT_TOML_BUMPVER_STR")

# ---- write_content --------------------------------------------------------------------------------------------
N = "writeContent"
exp(N, "break", "newline rule inverted",
    "    if ctx.config_filepath.exists():\n        cfg_content = \"\\n\" + cfg_content", "    if not ctx.config_filepath.exists():\n        cfg_content = \"\\n\" + cfg_content")
exp(N, "break", "newline appended instead of prepended",
    "        cfg_content = \"\\n\" + cfg_content", "        cfg_content = cfg_content + \"\\n\"")
exp(N, "break", "leading newline always written",
    "    if ctx.config_filepath.exists():\n        cfg_content = \"\\n\" + cfg_content", "    cfg_content = \"\\n\" + cfg_content")
exp(N, "break", "mode 'wt' (truncates)",
    "    with ctx.config_filepath.open(mode=\"at\", encoding=\"utf-8\") as fobj:", "    with ctx.config_filepath.open(mode=\"wt\", encoding=\"utf-8\") as fobj:")
exp(N, "break", "the text without the separator is written",
    "        fobj.write(cfg_content)", "        fobj.write(default_config(ctx))")
exp(N, "break", "two newlines",
    "        cfg_content = \"\\n\" + cfg_content", "        cfg_content = \"\\n\\n\" + cfg_content")
exp(N, "harmless", "local renamed",
    "    cfg_content = default_config(ctx)\n    if ctx.config_filepath.exists():\n        cfg_content = \"\\n\" + cfg_content",
    "    text = default_config(ctx)\n    if ctx.config_filepath.exists():\n        text = \"\\n\" + text",
    also=[("        fobj.write(cfg_content)", "        fobj.write(text)")])
exp(N, "harmless", "negated test, branches exchanged",
    "    if ctx.config_filepath.exists():\n        cfg_content = \"\\n\" + cfg_content", "    if not ctx.config_filepath.exists():\n        pass\n    else:\n        cfg_content = \"\\n\" + cfg_content")
exp(N, "harmless", "conditional expression",
    "    if ctx.config_filepath.exists():\n        cfg_content = \"\\n\" + cfg_content", "    cfg_content = (\"\\n\" + cfg_content) if ctx.config_filepath.exists() else cfg_content")


# ---- whole-function rewrites of the independent refactoring `harmless3` (config_harmless3_funcs.py) --------------------
def _harmless3():
    import ast as _ast
    import config_harmless3_funcs as h3
    src = open("/repo/src/bumpver/config.py", encoding="utf-8").read()
    segs = {n.name: _ast.get_source_segment(src, n) for n in _ast.parse(src).body if isinstance(n, _ast.FunctionDef)}
    for pyname, newtext in h3.FUNCS.items():
        if segs.get(pyname) and segs[pyname] != newtext:
            exp(h3.TIE[pyname], "harmless", "harmless3: `%s` as rewritten by the independent refactoring" % pyname,
                segs[pyname], newtext)


sys.path.insert(0, HERE)
_harmless3()


def run(cmd, **kw):
    return subprocess.run(cmd, stdout=subprocess.PIPE, stderr=subprocess.STDOUT, text=True, **kw)


def write_gen(files):
    changed = []
    for fname, content in files.items():
        path = os.path.join(GEN, fname)
        old = open(path, encoding="utf-8").read() if os.path.exists(path) else None
        if old != content:
            open(path, "w", encoding="utf-8").write(content)
            changed.append(fname)
    return changed


def main():
    only = set(sys.argv[1:])
    import translate_config
    results = []
    for e in E:
        if only and e["name"] not in only:
            continue
        if os.path.exists(SCRATCH):
            shutil.rmtree(SCRATCH)
        shutil.copytree("/repo/src", os.path.join(SCRATCH, "src"))
        path = os.path.join(SCRATCH, "src", "bumpver", e["file"])
        src = open(path, encoding="utf-8").read()
        for old, new in [(e["old"], e["new"])] + e["also"]:
            if src.count(old) != 1:
                print("!! edit text occurs %d times: %r" % (src.count(old), old))
                src = None
                break
            src = src.replace(old, new)
        if src is None:
            results.append((e, "bad experiment", "** NOT as intended **"))
            continue
        open(path, "w", encoding="utf-8").write(src)
        try:
            compile(src, path, "exec")
        except SyntaxError as ex:
            print("!! the edited source does not parse: %s" % ex)
            results.append((e, "bad experiment", "** NOT as intended **"))
            continue
        os.environ["VERIF_REPO"] = SCRATCH
        rep = []
        files = translate_config.generate(rep)
        del os.environ["VERIF_REPO"]
        fname = "F_%s.lean" % e["name"]
        errs = [x for x in rep if x[2] is not None]
        changed = write_gen(files)
        mods = ["BumpverVerif.Gen.%s" % c[:-5] for c in changed]
        ok_build = True
        if mods:
            b = run(["timeout", "900", "lake", "build"] + mods, cwd=LEAN)
            ok_build = b.returncode == 0
        if not ok_build:
            outcome = "a generated file does not compile"
            ok = False
        else:
            t = run(["timeout", "600", "lake", "env", "lean", "BumpverVerif/Proofs/Tie_%s.lean" % e["tie"]], cwd=LEAN)
            ok = t.returncode == 0 and "error" not in t.stdout
            if ok:
                outcome = "Tie_%s.lean compiles" % e["tie"]
            else:
                first = [ln for ln in t.stdout.splitlines() if "error" in ln][:1]
                outcome = "Tie_%s.lean FAILS: %s" % (e["tie"], (first[0] if first else "rc=%d" % t.returncode)[:100])
        if errs:
            outcome = "UNTRANSLATABLE (%s); %s" % (errs[0][2].reason if hasattr(errs[0][2], "reason") else errs[0][2], outcome[:60])
        if not changed and not errs:
            outcome = "generated files unchanged; " + outcome
        verdict = "as intended" if ok == (e["kind"] == "harmless") else "** NOT as intended **"
        results.append((e, outcome, verdict))
        print("%-34s %-9s %-78s -> %s [%s]" % (e["name"], e["kind"], e["label"], outcome, verdict), flush=True)
    # restore
    shutil.rmtree(SCRATCH, ignore_errors=True)
    changed = write_gen(translate_config.generate())
    print("restored from /repo: %d file(s) rewritten" % len(changed))
    mods = sorted({"BumpverVerif.Proofs.Tie_%s" % e["tie"] for e, _, _ in results})
    if mods:
        b = run(["timeout", "1800", "lake", "build"] + mods, cwd=LEAN)
        print("restore build:", "ok" if b.returncode == 0 else b.stdout[-2000:])
    bad = [r for r in results if "NOT" in r[2]]
    print("%d experiment(s), %d not as intended" % (len(results), len(bad)))
    return 0


if __name__ == "__main__":
    sys.exit(main())
