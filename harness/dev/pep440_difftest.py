#!/venv/bin/python
"""Differential test: Lean model BV.parseVersion / verStr / cmpKey  vs  bumpver's vendored
setuptools_v65_version (parse, str, comparisons).

    /venv/bin/python /verif/harness/dev/pep440_difftest.py [--seed N] [--strings N] [--pairs N]
                                                           [--exhaustive LEN] [--show N]

Generators (kept as plain functions `gen_*(rng)` so they can be folded into the main harness):
  gen_pep        structured PEP 440 strings: epochs, pre/post/dev/local, alternate spellings,
                 separators, implicit post, leading zeros, case, leading v, white space,
                 trailing separators
  gen_nearmiss   a structured string with 1-3 random edits
  gen_bumpver    bumpver style legacy / calver / semver strings
  gen_ascii      arbitrary ASCII text
  gen_tokens     random concatenations of the tokens the two grammars care about
  exhaustive     every string up to a length over a small alphabet (--exhaustive)
Ops checked: pep_parse, pep_str (one per string), pep_cmp (one per pair).
Extra checks on every PEP 440-valid string: the model's pep_str output matches the canonical
regex of PEP 440 appendix B (plus a normalised local segment) and is a fixpoint of the real
str(parse(.)); with --packaging the modern `packaging` library (no LegacyVersion) is used as a
second oracle for validity, str and order of valid strings.
Exit status 1 when there is any disagreement.
"""
import argparse
import itertools
import json
import random
import re
import subprocess
import sys

sys.path.insert(0, __import__('os').path.join(__import__('os').environ.get('VERIF_REPO', '/repo'), 'src'))
from bumpver import setuptools_v65_version as sv  # noqa: E402

DRIVER = '/verif/lean/.lake/build/bin/driver'

# PEP 440, appendix B "is_canonical", extended by a normalised local version label
NUM = r'(0|[1-9][0-9]*)'
CANONICAL_RE = re.compile(
    r'^([1-9][0-9]*!)?' + NUM + r'(\.' + NUM + r')*((a|b|rc)' + NUM + r')?(\.post' + NUM + r')?(\.dev' + NUM + r')?'
    r'(\+(' + NUM + r'|[a-z0-9]*[a-z][a-z0-9]*)(\.(' + NUM + r'|[a-z0-9]*[a-z][a-z0-9]*))*)?$')

try:
    import packaging.version as pv
except Exception:  # pragma: no cover
    pv = None

WS = [' ', '\t', '\n', '\r', '\x0b', '\x0c', '\x1c', '\x1d', '\x1e', '\x1f']
SEPS = ['-', '_', '.']
PRE_WORDS = ['a', 'b', 'c', 'rc', 'alpha', 'beta', 'pre', 'preview']
POST_WORDS = ['post', 'rev', 'r']


# ---------------------------------------------------------------- python side, canonical form

def _guard(f):
    """whatever the real code raises is its observable outcome (the comparison has to be defined on ALL strings)"""
    def g(*a):
        try:
            return f(*a)
        except Exception as ex:            # noqa: BLE001
            return {'err': type(ex).__name__}
    g.__name__ = f.__name__
    return g


@_guard
def py_parse(s):
    p = sv.parse(s)
    if isinstance(p, sv.Version):
        v = p._version
        return {
            'kind': 'pep',
            'epoch': v.epoch,
            'release': list(v.release),
            'pre': [v.pre[0], v.pre[1]] if v.pre is not None else None,
            'post': v.post[1] if v.post is not None else None,
            'dev': v.dev[1] if v.dev is not None else None,
            'local': list(v.local) if v.local is not None else None,
        }
    return {'kind': 'legacy', 'parts': list(p._key[1])}


@_guard
def py_str(s):
    return {'ok': str(sv.parse(s))}


@_guard
def py_cmp(a, b):
    pa, pb = sv.parse(a), sv.parse(b)
    lt, eq, gt, le, ge = pa < pb, pa == pb, pa > pb, pa <= pb, pa >= pb
    if (lt, eq, gt) == (True, False, False) and le and not ge:
        return {'ok': 'lt'}
    if (lt, eq, gt) == (False, True, False) and le and ge:
        return {'ok': 'eq'}
    if (lt, eq, gt) == (False, False, True) and ge and not le:
        return {'ok': 'gt'}
    return {'ok': 'inconsistent:%r' % ((lt, eq, gt, le, ge),)}


# ---------------------------------------------------------------- generators

def rcase(rng, s):
    mode = rng.random()
    if mode < 0.6:
        return s
    if mode < 0.75:
        return s.upper()
    return ''.join(c.upper() if rng.random() < 0.5 else c for c in s)


def num(rng, allow_empty=False):
    r = rng.random()
    if allow_empty and r < 0.25:
        return ''
    if r < 0.5:
        n = str(rng.randint(0, 3))
    elif r < 0.8:
        n = str(rng.randint(0, 30))
    elif r < 0.95:
        n = str(rng.randint(0, 100000))
    else:
        n = str(rng.randint(0, 10 ** 25))
    if rng.random() < 0.2:
        n = '0' * rng.randint(1, 3) + n
    return n


def optsep(rng):
    return rng.choice(SEPS) if rng.random() < 0.5 else ''


def gen_local(rng):
    parts = []
    for _ in range(rng.randint(1, 4)):
        r = rng.random()
        if r < 0.35:
            parts.append(num(rng))
        elif r < 0.7:
            parts.append(''.join(rng.choice('abcxyz') for _ in range(rng.randint(1, 4))))
        else:
            parts.append(''.join(rng.choice('ab01z9') for _ in range(rng.randint(1, 5))))
    out = parts[0]
    for p in parts[1:]:
        out += rng.choice(SEPS) + p
    return '+' + out


def gen_pep(rng):
    s = ''
    if rng.random() < 0.2:
        s += 'v'
    if rng.random() < 0.2:
        s += num(rng) + '!'
    rel = [num(rng) for _ in range(rng.choice([1, 1, 2, 2, 2, 3, 3, 4, 6]))]
    if rng.random() < 0.3:
        rel += ['0'] * rng.randint(1, 3)
    s += '.'.join(rel)
    if rng.random() < 0.45:
        s += optsep(rng) + rng.choice(PRE_WORDS) + optsep(rng) + num(rng, True)
    r = rng.random()
    if r < 0.15:
        s += '-' + num(rng)
    elif r < 0.45:
        s += optsep(rng) + rng.choice(POST_WORDS) + optsep(rng) + num(rng, True)
    if rng.random() < 0.35:
        s += optsep(rng) + 'dev' + optsep(rng) + num(rng, True)
    if rng.random() < 0.1:
        s += rng.choice(SEPS)          # trailing separator
    if rng.random() < 0.3:
        s += gen_local(rng)
    s = rcase(rng, s)
    if rng.random() < 0.15:
        s = ''.join(rng.choice(WS) for _ in range(rng.randint(1, 2))) + s
    if rng.random() < 0.15:
        s = s + ''.join(rng.choice(WS) for _ in range(rng.randint(1, 2)))
    return s


EDIT_CHARS = list('0123456789.-_+!vabcrpdelto ') + ['\n', '\t', 'A', 'R', '*', '@', '~', 'x', 'final']


def gen_nearmiss(rng):
    s = list(gen_pep(rng))
    for _ in range(rng.randint(1, 3)):
        op = rng.random()
        pos = rng.randint(0, len(s))
        if op < 0.4:
            s.insert(pos, rng.choice(EDIT_CHARS))
        elif op < 0.7 and s:
            del s[min(pos, len(s) - 1)]
        elif s:
            s[min(pos, len(s) - 1)] = rng.choice(EDIT_CHARS)
    return ''.join(s)


BUMPVER_TAGS = ['alpha', 'beta', 'rc', 'post', 'final', 'dev', 'pre', 'preview', 'a', 'b', 'c']


def gen_bumpver(rng):
    r = rng.random()
    y = rng.randint(2000, 2030)
    if r < 0.2:
        s = 'v%dq%d.%d' % (y, rng.randint(1, 4), rng.randint(1, 99999))
    elif r < 0.45:
        s = 'v%d%02d.%04d' % (y, rng.randint(1, 12), rng.randint(1, 22000))
        if rng.random() < 0.6:
            s += '-' + rng.choice(BUMPVER_TAGS)
            if rng.random() < 0.3:
                s += str(rng.randint(0, 9))
    elif r < 0.65:
        s = '%d.%d.%d' % (rng.randint(0, 20), rng.randint(0, 20), rng.randint(0, 20))
        if rng.random() < 0.7:
            s += rng.choice(['-', '', '.', '_', '+']) + rng.choice(BUMPVER_TAGS)
            if rng.random() < 0.5:
                s += rng.choice(['', '.', '-']) + str(rng.randint(0, 12))
    elif r < 0.8:
        s = '%d.%02d.%d' % (y, rng.randint(1, 12), rng.randint(0, 40))
        if rng.random() < 0.5:
            s += '-' + rng.choice(BUMPVER_TAGS) + str(rng.randint(0, 3))
    elif r < 0.9:
        s = 'v%dw%02d.%d-%s' % (y, rng.randint(0, 53), rng.randint(0, 99), rng.choice(BUMPVER_TAGS))
    else:
        s = rng.choice(['release-', 'ver', 'build', '', 'x']) + '%d.%d' % (rng.randint(0, 99), rng.randint(0, 99)) \
            + rng.choice(['', '-final', '.final', '-final-1', 'final', '-dev', '.rc1-final', '--', '-0', '.0.0-'])
    return rcase(rng, s)


def gen_ascii(rng):
    n = rng.randint(0, 12)
    if rng.random() < 0.5:
        return ''.join(chr(rng.randint(0, 127)) for _ in range(n))
    return ''.join(rng.choice('0123456789.-_+!*@~ abcdefprv') for _ in range(n))


TOKENS = ['0', '1', '00', '10', '007', '.', '-', '_', '+', '!', 'v', 'a', 'b', 'c', 'rc', 'alpha', 'beta',
          'pre', 'preview', 'post', 'rev', 'r', 'dev', 'final', 'e', 'l', 'p', 'x', 'ab1', '1a', ' ', '\n',
          '*', '@', '*final', '*final-', 'A', 'DEV', 'Rc']


def gen_tokens(rng):
    return ''.join(rng.choice(TOKENS) for _ in range(rng.randint(1, 8)))


GENS = [(gen_pep, 0.40), (gen_nearmiss, 0.22), (gen_bumpver, 0.14), (gen_ascii, 0.10), (gen_tokens, 0.14)]


def gen_string(rng):
    r = rng.random()
    acc = 0.0
    for g, w in GENS:
        acc += w
        if r < acc:
            return g(rng)
    return gen_pep(rng)


def respell(rng, s):
    """a PEP 440-equal respelling when s is valid (else s): used to get `eq` pairs"""
    try:
        p = sv.parse(s)
    except Exception:                      # noqa: BLE001  (the generator must not depend on the code under test behaving)
        return s
    if not isinstance(p, sv.Version):
        return s
    t = str(p)
    if rng.random() < 0.5:
        t = t.replace('.post', rng.choice(['-', '.post', 'post', '-r', '_rev.'])) if '.post' in t else t
    if rng.random() < 0.5 and '+' not in t and p.pre is None and p.post is None and p.dev is None:
        t += '.0' * rng.randint(1, 2)
    if rng.random() < 0.3:
        t = 'v' + t
    return rcase(rng, t)


BOUND_NUMS = ['0', '1', '9', '10', '99', '100', '999', '1000', '9999999', '10000000', '99999999', '100000000', '999999999', '1000000000',
              '99999999999999999999', '100000000000000000000', '09', '010', '000100000000']
BOUND_TEMPLATES = ['%s', '1.%s', '%s!1.0', '1.0a%s', '1.0.post%s', '1.0.dev%s', '1.0+%s', '1.0+x.%s', '1.0+%s.x', '1.0rc1.post2.dev%s', '2.%s.0', '1.0-%s',
                   '1.0+%s.%s', 'v1.0+ab%s']


def gen_boundary_pair(rng):
    """two versions that differ in ONE numeric field, with values on either side of a digit-count boundary (9|10 ... 99999999|100000000 ...):
    every numeric field of PEP 440 is compared as a number, whatever its width"""
    t = rng.choice(BOUND_TEMPLATES)
    k = t.count('%s')
    i = rng.randrange(len(BOUND_NUMS))
    j = min(len(BOUND_NUMS) - 1, max(0, i + rng.choice([-2, -1, 1, 1, 2])))
    fill = [rng.choice(BOUND_NUMS) for _ in range(k - 1)]
    return t % tuple(fill + [BOUND_NUMS[i]]), t % tuple(fill + [BOUND_NUMS[j]])


def gen_pair(rng, pool):
    r = rng.random()
    a = rng.choice(pool)
    if r < 0.1:
        return gen_boundary_pair(rng)
    if r < 0.5:
        return a, rng.choice(pool)
    if r < 0.65:
        return a, respell(rng, a)
    if r < 0.8:
        # small perturbation of a
        b = list(a)
        if b:
            i = rng.randrange(len(b))
            b[i] = rng.choice('0123456789ab.-')
        return a, ''.join(b)
    return gen_string(rng), gen_string(rng)


# ---------------------------------------------------------------- driver

def run_driver(reqs):
    data = '\n'.join(json.dumps(r) for r in reqs) + '\n'
    out = subprocess.run([DRIVER], input=data.encode('utf-8'), stdout=subprocess.PIPE, check=True).stdout
    lines = out.decode('utf-8').split('\n')
    if lines and lines[-1] == '':
        lines.pop()
    assert len(lines) == len(reqs), (len(lines), len(reqs))
    return [json.loads(l) for l in lines]


def check(strings, pairs, show, use_packaging=False):
    reqs = []
    for s in strings:
        reqs.append({'op': 'pep_parse', 's': s})
        reqs.append({'op': 'pep_str', 's': s})
    for a, b in pairs:
        reqs.append({'op': 'pep_cmp', 'a': a, 'b': b})
    resp = run_driver(reqs)
    bad = {'pep_parse': 0, 'pep_str': 0, 'pep_cmp': 0, 'canonical': 0, 'packaging': 0}
    unsupported = 0
    shown = 0
    stats = {'pep': 0, 'legacy': 0, 'lt': 0, 'eq': 0, 'gt': 0}
    for rq, rs in zip(reqs, resp):
        op = rq['op']
        if op == 'pep_parse':
            want = py_parse(rq['s'])
            stats[want['kind']] += 1
        elif op == 'pep_str':
            want = py_str(rq['s'])
        else:
            want = py_cmp(rq['a'], rq['b'])
            stats[want['ok']] = stats.get(want['ok'], 0) + 1
        if 'unsupported' in rs:
            unsupported += 1
            continue
        if rs != want:
            bad[op] += 1
            if shown < show:
                shown += 1
                print('DISAGREE %s %r\n   model: %s\n   real : %s' % (
                    op, {k: v for k, v in rq.items() if k != 'op'}, json.dumps(rs), json.dumps(want)))
        if op == 'pep_str' and isinstance(sv.parse(rq['s']), sv.Version):
            out = rs.get('ok', '')
            if not CANONICAL_RE.match(out) or str(sv.parse(out)) != out:
                bad['canonical'] += 1
                if shown < show:
                    shown += 1
                    print('NOT CANONICAL %r -> %r' % (rq['s'], out))
        if use_packaging and pv is not None:
            msg = None
            if op == 'pep_str':
                try:
                    q = pv.Version(rq['s'])
                    if not isinstance(sv.parse(rq['s']), sv.Version) or str(q) != rs.get('ok'):
                        msg = 'packaging accepts / prints %r' % str(q)
                except pv.InvalidVersion:
                    if isinstance(sv.parse(rq['s']), sv.Version):
                        msg = 'packaging rejects'
            elif op == 'pep_cmp':
                try:
                    qa, qb = pv.Version(rq['a']), pv.Version(rq['b'])
                    got = 'lt' if qa < qb else ('eq' if qa == qb else 'gt')
                    if got != rs.get('ok'):
                        msg = 'packaging says %s' % got
                except pv.InvalidVersion:
                    pass
            if msg:
                bad['packaging'] += 1
                if shown < show:
                    shown += 1
                    print('PACKAGING %s %r: %s (model %s)' % (op, {k: v for k, v in rq.items() if k != 'op'}, msg, json.dumps(rs)))
    return bad, unsupported, stats


def exhaustive_strings(alphabet, maxlen):
    for n in range(maxlen + 1):
        for t in itertools.product(alphabet, repeat=n):
            yield ''.join(t)


def main():
    ap = argparse.ArgumentParser()
    ap.add_argument('--seed', type=int, default=1)
    ap.add_argument('--strings', type=int, default=60000)
    ap.add_argument('--pairs', type=int, default=120000)
    ap.add_argument('--exhaustive', type=int, default=0,
                    help='also check every string up to this length over small alphabets')
    ap.add_argument('--show', type=int, default=20)
    ap.add_argument('--packaging', action='store_true', help='second oracle: the modern packaging library')
    a = ap.parse_args()
    rng = random.Random(a.seed)

    strings = [gen_string(rng) for _ in range(a.strings)]
    pool = strings[:]
    pairs = [gen_pair(rng, pool) for _ in range(a.pairs)]
    bad, unsup, stats = check(strings, pairs, a.show, a.packaging)
    total_bad = sum(bad.values())
    print('seed %d: %d strings (%d distinct; %d pep, %d legacy), %d pairs (lt %d, eq %d, gt %d); '
          'unsupported answers %d; disagreements: parse %d, str %d, cmp %d; not canonical %d%s' % (
              a.seed, len(strings), len(set(strings)), stats['pep'], stats['legacy'], len(pairs),
              stats['lt'], stats['eq'], stats['gt'], unsup, bad['pep_parse'], bad['pep_str'], bad['pep_cmp'],
              bad['canonical'], ('; packaging disagreements %d' % bad['packaging']) if a.packaging else ''))

    if a.exhaustive:
        for name, alpha, n in [
            ('core', '10.-arcpev+', a.exhaustive),
            ('words', ['1', '0', '.', '-', '_', 'a', 'alpha', 'b', 'beta', 'c', 'rc', 'pre', 'preview', 'post',
                       'rev', 'r', 'dev', '+', '!', 'v', ' ', 'x', 'final'], max(1, a.exhaustive - 2)),
        ]:
            ex = list(exhaustive_strings(alpha, n))
            bad2, unsup2, st2 = check(ex, [], a.show)
            total_bad += sum(bad2.values())
            print('exhaustive %s up to %d symbols: %d strings (%d pep, %d legacy); disagreements: parse %d, str %d' % (
                name, n, len(ex), st2['pep'], st2['legacy'], bad2['pep_parse'], bad2['pep_str']))
            # all pairs among a sample of the exhaustive strings
            sample = rng.sample(ex, min(len(ex), 400))
            prs = [(x, y) for x in sample for y in sample]
            bad3, _, st3 = check([], prs, a.show)
            total_bad += sum(bad3.values())
            print('   all pairs of a %d-sample: %d pairs (lt %d, eq %d, gt %d); disagreements: cmp %d' % (
                len(sample), len(prs), st3['lt'], st3['eq'], st3['gt'], bad3['pep_cmp']))
    sys.exit(1 if total_bad else 0)


if __name__ == '__main__':
    main()
