#!/venv/bin/python
"""Robustness demonstration for harness/translate_v1rewrite.py + Proofs/Tie_v1<name>.lean (the LEGACY rewrite path,
src/bumpver/v1rewrite.py).

For every experiment: copy /repo/src to a scratch tree, apply ONE textual edit to the Python source, run the
translators (translate_rewrite for the shared parse.py / rewrite.py functions, translate_v1rewrite for v1rewrite.py)
with VERIF_REPO pointing at the scratch tree, write the regenerated Gen/F_*.lean of both groups, and `lake build`
the tie module(s) of the edited function (which rebuilds what they depend on).

  kind 'break'   : a plausible semantic one-token edit  -> the tie must NO LONGER build
                   (either the proof breaks or the function has become UNTRANSLATABLE)
  kind 'harmless': a behaviour-preserving rewrite        -> the tie must still build

The three earlier SEEDED BUGS of the legacy path are among the 'break' experiments (marked SEED).
Afterwards the generated files are restored from the unmodified /repo and the scratch tree removed.
Usage: /venv/bin/python harness/dev/v1rewrite_tie_experiments.py [name ...]   (name = v1RewriteLines, ...)
Output: one line per experiment; the table is copied to harness/dev/v1rewrite_tie_experiments.out.txt.
"""
import os
import shutil
import subprocess
import sys

HERE = os.path.dirname(os.path.abspath(__file__))
HARNESS = os.path.dirname(HERE)
VERIF = os.path.dirname(HARNESS)
LEAN = os.path.join(VERIF, "lean")
GEN = os.path.join(LEAN, "BumpverVerif", "Gen")
SCRATCH = os.path.join(VERIF, "scratch_repo_v1rewrite")
sys.path.insert(0, HARNESS)

E = []


def exp(name, file, kind, label, old, new, ties=None, also=None, variant=None):
    """variant: a Lean file (relative to harness/dev) that must COMPILE under the edit: it proves what the
    edited function has become"""
    E.append(dict(name=name, file=file, kind=kind, label=label, old=old, new=new,
                  ties=ties or ["Tie_%s" % name], also=also or [], variant=variant))


R = "rewrite.py"
V = "v1rewrite.py"
P = "parse.py"

# ---- v1rewrite.rewrite_lines -------------------------------------------------------------------------
N = "v1RewriteLines"
SPLICE = "new_lines[match.lineno] = cur_line[:span_l] + replacement + cur_line[span_r:]"
exp(N, V, "break", "SEED: `str.replace` of the matched text instead of the span splice",
    SPLICE, "new_lines[match.lineno] = cur_line.replace(match.match, replacement)")
exp(N, V, "break", "sort key `-m.span[0]` -> `m.span[0]` (replacements left to right)",
    "key=lambda m: (m.lineno, -m.span[0]))", "key=lambda m: (m.lineno, m.span[0]))")
exp(N, V, "break", "the sort dropped",
    "matches = sorted(parse.iter_matches(old_lines, patterns), key=lambda m: (m.lineno, -m.span[0]))",
    "matches = list(parse.iter_matches(old_lines, patterns))")
exp(N, V, "break", "replacement built from the OLD line (`new_lines[...]` -> `old_lines[...]`, the D2 defect)",
    "cur_line = new_lines[match.lineno]", "cur_line = old_lines[match.lineno]")
exp(N, V, "break", "`cur_line[:span_l]` -> `cur_line[:span_r]`",
    "cur_line[:span_l] + replacement", "cur_line[:span_r] + replacement")
exp(N, V, "break", "`cur_line[span_r:]` -> `cur_line[span_l:]`",
    "replacement + cur_line[span_r:]", "replacement + cur_line[span_l:]")
exp(N, V, "break", "`found_patterns.add(...)` dropped",
    "        found_patterns.add(match.pattern)\n", "")
exp(N, V, "break", "`old_lines[:]` -> `old_lines` (aliasing: the caller's old lines are mutated)",
    "new_lines = old_lines[:]", "new_lines = old_lines")
exp(N, V, "break", "`return new_lines` -> `return old_lines`",
    "    else:\n        return new_lines", "    else:\n        return old_lines")
exp(N, V, "break", "`raw_pattern` -> `version_pattern` in the rendering",
    "replacement = v1version.format_version(new_vinfo, match.pattern.raw_pattern)",
    "replacement = v1version.format_version(new_vinfo, match.pattern.version_pattern)")
exp(N, V, "break", "the v2 renderer called from the legacy path",
    "replacement = v1version.format_version(new_vinfo, match.pattern.raw_pattern)",
    "replacement = v2version.format_version(new_vinfo, match.pattern.raw_pattern)",
    also=[("from . import v1version\n", "from . import v1version\nfrom . import v2version\n")])
exp(N, V, "break", "`if non_matched_patterns:` -> `if not non_matched_patterns:`",
    "    if non_matched_patterns:\n", "    if not non_matched_patterns:\n")
exp(N, V, "break", "set difference the other way round (`found_patterns - set(patterns)`: never an error)",
    "non_matched_patterns = set(patterns) - found_patterns", "non_matched_patterns = found_patterns - set(patterns)")
exp(N, V, "break", "a COUNT instead of a set: `len(patterns) != len(found_patterns)`",
    "    if non_matched_patterns:\n", "    if len(patterns) != len(found_patterns):\n")
exp(N, V, "break", "the missing-pattern error removed (`raise` -> `return new_lines`)",
    "        raise rewrite.NoPatternMatch(\"Invalid pattern(s)\")", "        return new_lines")
exp(N, V, "break", "the written line index off by one",
    "        " + SPLICE, "        new_lines[match.lineno + 1] = cur_line[:span_l] + replacement + cur_line[span_r:]")
exp(N, V, "break", "no rendering at all: the raw pattern text itself is spliced in",
    "replacement = v1version.format_version(new_vinfo, match.pattern.raw_pattern)",
    "replacement = match.pattern.raw_pattern")
exp(N, V, "harmless", "local `cur_line` renamed",
    "        cur_line = new_lines[match.lineno]\n        " + SPLICE,
    "        ln = new_lines[match.lineno]\n        new_lines[match.lineno] = ln[:span_l] + replacement + ln[span_r:]")
exp(N, V, "harmless", "tuple unpacking -> two subscripts",
    "        span_l, span_r = match.span\n", "        span_l = match.span[0]\n        span_r = match.span[1]\n")
exp(N, V, "harmless", "test negated, branches exchanged",
    "    if non_matched_patterns:\n        for nmp in non_matched_patterns:\n            logger.error(f\"No match for pattern '{nmp.raw_pattern}'\")\n            msg = (\n                \"\\n# \"\n                + regexfmt.regex101_url(nmp.regexp.pattern)\n                + \"\\nregex = \"\n                + regexfmt.pyexpr_regex(nmp.regexp.pattern)\n            )\n            logger.error(msg)\n        raise rewrite.NoPatternMatch(\"Invalid pattern(s)\")\n    else:\n        return new_lines",
    "    if not non_matched_patterns:\n        return new_lines\n    else:\n        raise rewrite.NoPatternMatch(\"Invalid pattern(s)\")")
exp(N, V, "harmless", "the v2 way of writing the test: `set(patterns) == found_patterns`",
    "    non_matched_patterns = set(patterns) - found_patterns\n    if non_matched_patterns:\n",
    "    non_matched_patterns = set(patterns) - found_patterns\n    if set(patterns) != found_patterns:\n")
exp(N, V, "harmless", "`if non_matched_patterns:` -> `if len(non_matched_patterns) > 0:`",
    "    if non_matched_patterns:\n", "    if len(non_matched_patterns) > 0:\n")
exp(N, V, "harmless", "`sorted(...)` of an explicit `list(...)`, key parameter renamed",
    "matches = sorted(parse.iter_matches(old_lines, patterns), key=lambda m: (m.lineno, -m.span[0]))",
    "found = list(parse.iter_matches(old_lines, patterns))\n    matches = sorted(found, key=lambda pm: (pm.lineno, -pm.span[0]))")
exp(N, V, "harmless", "the raw pattern bound to a local first",
    "        replacement = v1version.format_version(new_vinfo, match.pattern.raw_pattern)\n",
    "        raw = match.pattern.raw_pattern\n        replacement = v1version.format_version(new_vinfo, raw)\n")
# shared callee parse.iter_matches: the legacy tie sees it too
exp(N, P, "break", "parse.iter_matches: overlap test dropped (`yield` unconditional)",
    "            if not _has_overlap(needle_span, matched_spans):\n                yield match\n", "            yield match\n")
exp(N, P, "break", "parse._iter_for_pattern: emptiness conjunct dropped",
    "if match and len(match.group(0)) > 0:", "if match:")

# ---- v1rewrite.rfd_from_content ------------------------------------------------------------------------
N = "v1RfdFromContent"
RFD = "return rewrite.RewrittenFileData(path, line_sep, old_lines, new_lines)"
exp(N, V, "break", "`content.split(line_sep)` -> `content.split(\"\\n\")`",
    "old_lines = content.split(line_sep)", "old_lines = content.split(\"\\n\")")
exp(N, V, "break", "record carries `\"\\n\"` instead of the detected separator",
    RFD, "return rewrite.RewrittenFileData(path, \"\\n\", old_lines, new_lines)")
exp(N, V, "break", "record carries new_lines twice",
    RFD, "return rewrite.RewrittenFileData(path, line_sep, new_lines, new_lines)")
exp(N, V, "break", "record carries old_lines twice (nothing is rewritten)",
    RFD, "return rewrite.RewrittenFileData(path, line_sep, old_lines, old_lines)")
exp(N, V, "break", "`detect_line_sep(content)` replaced by the constant `\"\\n\"`",
    "line_sep  = rewrite.detect_line_sep(content)", "line_sep  = \"\\n\"")
exp(N, V, "break", "only the first pattern is passed on",
    "new_lines = rewrite_lines(patterns, new_vinfo, old_lines)", "new_lines = rewrite_lines(patterns[:1], new_vinfo, old_lines)")
exp(N, V, "break", "`split` -> `splitlines()`",
    "old_lines = content.split(line_sep)", "old_lines = content.splitlines()")
exp(N, V, "harmless", "locals renamed",
    "    line_sep  = rewrite.detect_line_sep(content)\n    old_lines = content.split(line_sep)\n    new_lines = rewrite_lines(patterns, new_vinfo, old_lines)\n    " + RFD,
    "    sep = rewrite.detect_line_sep(content)\n    before = content.split(sep)\n    after = rewrite_lines(patterns, new_vinfo, before)\n    return rewrite.RewrittenFileData(path, sep, before, after)")
exp(N, V, "harmless", "keyword constructor, fields in another order",
    RFD, "return rewrite.RewrittenFileData(new_lines=new_lines, old_lines=old_lines, path=path, line_sep=line_sep)")
exp(N, V, "harmless", "record built first, then `_replace`d",
    RFD, "rfd = rewrite.RewrittenFileData(path, line_sep, old_lines, old_lines)\n    return rfd._replace(new_lines=new_lines)")

# ---- v1rewrite.iter_rewritten (+ rewrite.iter_path_patterns_items, inlined) ---------------------------
N = "v1IterRewritten"
T4 = ["Tie_v1IterRewritten", "Tie_v1RewriteFiles"]
READ = ("        with file_path.open(mode=\"rt\", newline='', encoding=\"utf-8\") as fobj:\n            content = fobj.read()\n\n"
        "        rfd = rfd_from_content(pattern_strs, new_vinfo, content)\n        yield")


def read_with(args):
    return ("        with file_path.open(%s) as fobj:\n            content = fobj.read()\n\n"
            "        rfd = rfd_from_content(pattern_strs, new_vinfo, content)\n        yield" % args)


exp(N, V, "break", "SEED: `errors=\"surrogateescape\"` on read (the write stays strict)",
    READ, read_with("mode=\"rt\", newline='', encoding=\"utf-8\", errors=\"surrogateescape\""), ties=T4)
exp(N, V, "break", "read without `newline=''`", READ, read_with("mode=\"rt\", encoding=\"utf-8\""), ties=T4)
exp(N, V, "break", "read without `encoding=`", READ, read_with("mode=\"rt\", newline=''"), ties=T4)
exp(N, V, "break", "`_replace(path=...)` dropped: the records keep the path \"<path>\"",
    "yield rfd._replace(path=str(file_path))", "yield rfd", ties=T4)
exp(N, V, "break", "only the first pattern of each file",
    "        rfd = rfd_from_content(pattern_strs, new_vinfo, content)\n        yield",
    "        rfd = rfd_from_content(pattern_strs[:1], new_vinfo, content)\n        yield", ties=T4)
exp(N, R, "break", "iter_path_patterns_items: a missing file is skipped instead of raising",
    "            errmsg = f\"File does not exist: '{filepath_str}'\"\n            raise IOError(errmsg)", "            pass", ties=T4)
exp(N, R, "break", "iter_path_patterns_items: `if exists` -> `if not exists`",
    "        if filepath_obj.exists():", "        if not filepath_obj.exists():", ties=T4)
exp(N, V, "break", "a file whose patterns do not match is skipped (try/except/continue)",
    "        rfd = rfd_from_content(pattern_strs, new_vinfo, content)\n        yield rfd._replace(path=str(file_path))",
    "        try:\n            rfd = rfd_from_content(pattern_strs, new_vinfo, content)\n        except rewrite.NoPatternMatch:\n            continue\n        yield rfd._replace(path=str(file_path))", ties=T4)
exp(N, V, "harmless", "path passed to rfd_from_content instead of `_replace`",
    "        rfd = rfd_from_content(pattern_strs, new_vinfo, content)\n        yield rfd._replace(path=str(file_path))",
    "        rfd = rfd_from_content(pattern_strs, new_vinfo, content, str(file_path))\n        yield rfd", ties=T4)
exp(N, V, "harmless", "locals renamed (`pattern_strs` -> `patterns`, `content` -> `text`)",
    "    for file_path, pattern_strs in rewrite.iter_path_patterns_items(file_patterns):\n        with file_path.open(mode=\"rt\", newline='', encoding=\"utf-8\") as fobj:\n            content = fobj.read()\n\n        rfd = rfd_from_content(pattern_strs, new_vinfo, content)\n        yield rfd._replace(path=str(file_path))",
    "    for file_path, patterns in rewrite.iter_path_patterns_items(file_patterns):\n        with file_path.open(mode=\"rt\", newline='', encoding=\"utf-8\") as fobj:\n            text = fobj.read()\n\n        data = rfd_from_content(patterns, new_vinfo, text)\n        yield data._replace(path=str(file_path))", ties=T4)
exp(N, R, "harmless", "iter_path_patterns_items: test negated, branches exchanged",
    "        if filepath_obj.exists():\n            yield (filepath_obj, patterns)\n        else:\n            errmsg = f\"File does not exist: '{filepath_str}'\"\n            raise IOError(errmsg)",
    "        if not filepath_obj.exists():\n            errmsg = f\"File does not exist: '{filepath_str}'\"\n            raise IOError(errmsg)\n        else:\n            yield (filepath_obj, patterns)", ties=T4)
exp(N, V, "harmless", "open() keyword arguments in another order",
    "        with file_path.open(mode=\"rt\", newline='', encoding=\"utf-8\") as fobj:\n            content = fobj.read()\n\n        rfd = rfd_from_content(pattern_strs",
    "        with file_path.open(encoding=\"utf-8\", mode=\"rt\", newline='') as fobj:\n            content = fobj.read()\n\n        rfd = rfd_from_content(pattern_strs", ties=T4)

# ---- v1rewrite.rewrite_files ---------------------------------------------------------------------------
N = "v1RewriteFiles"
WR = "with io.open(file_data.path, mode=\"wt\", newline='', encoding=\"utf-8\") as fobj:"
exp(N, V, "break", "SEED: the LAZY loop: `list(...)` removed (files are written before the next one is validated)",
    "for file_data in list(iter_rewritten(file_patterns, new_vinfo)):", "for file_data in iter_rewritten(file_patterns, new_vinfo):",
    variant="V1RewriteFilesLazyVariant.lean")
exp(N, V, "break", "`\"\\n\".join` instead of the detected separator",
    "new_content = file_data.line_sep.join(file_data.new_lines)", "new_content = \"\\n\".join(file_data.new_lines)")
exp(N, V, "break", "old lines written back",
    "new_content = file_data.line_sep.join(file_data.new_lines)", "new_content = file_data.line_sep.join(file_data.old_lines)")
exp(N, V, "break", "write without `newline=''`", WR, "with io.open(file_data.path, mode=\"wt\", encoding=\"utf-8\") as fobj:")
exp(N, V, "break", "write with `errors=\"surrogateescape\"`", WR,
    "with io.open(file_data.path, mode=\"wt\", newline='', encoding=\"utf-8\", errors=\"surrogateescape\") as fobj:")
exp(N, V, "break", "mode \"wt\" -> \"at\" (append)", WR, "with io.open(file_data.path, mode=\"at\", newline='', encoding=\"utf-8\") as fobj:")
exp(N, V, "break", "only the first file is written `[:1]`",
    "for file_data in list(iter_rewritten(file_patterns, new_vinfo)):", "for file_data in list(iter_rewritten(file_patterns, new_vinfo))[:1]:")
exp(N, V, "break", "a trailing separator is appended to the content",
    "fobj.write(new_content)", "fobj.write(new_content + file_data.line_sep)")
exp(N, V, "harmless", "loop variable renamed",
    "    for file_data in list(iter_rewritten(file_patterns, new_vinfo)):\n        new_content = file_data.line_sep.join(file_data.new_lines)\n        " + WR,
    "    for fd in list(iter_rewritten(file_patterns, new_vinfo)):\n        new_content = fd.line_sep.join(fd.new_lines)\n        with io.open(fd.path, mode=\"wt\", newline='', encoding=\"utf-8\") as fobj:")
exp(N, V, "harmless", "the list bound to a local first",
    "    for file_data in list(iter_rewritten(file_patterns, new_vinfo)):", "    all_data = list(iter_rewritten(file_patterns, new_vinfo))\n    for file_data in all_data:")
exp(N, V, "harmless", "`new_content` inlined into the write",
    "        new_content = file_data.line_sep.join(file_data.new_lines)\n        " + WR + "\n            fobj.write(new_content)",
    "        " + WR + "\n            fobj.write(file_data.line_sep.join(file_data.new_lines))")

# ---- v1rewrite.diff -------------------------------------------------------------------------------------------
N = "v1Diff"
TEST = "if len(lines) == 0 and has_updated_version:"
exp(N, V, "break", "`sorted(...)` dropped (lazy existence check, configuration order)",
    "for file_path, patterns in sorted(rewrite.iter_path_patterns_items(file_patterns)):", "for file_path, patterns in rewrite.iter_path_patterns_items(file_patterns):")
exp(N, V, "break", "`and` -> `or` in the 'nothing changed' test", TEST, "if len(lines) == 0 or has_updated_version:")
exp(N, V, "break", "`has_updated_version` -> `not has_updated_version`", TEST, "if len(lines) == 0 and not has_updated_version:")
exp(N, V, "break", "`old_str != new_str` -> `==`", "            if old_str != new_str:", "            if old_str == new_str:")
exp(N, V, "break", "both renderings from the new record",
    "old_str = v1version.format_version(old_vinfo, pattern.raw_pattern)", "old_str = v1version.format_version(new_vinfo, pattern.raw_pattern)")
exp(N, V, "break", "`has_updated_version = True` -> `False`", "                has_updated_version = True", "                has_updated_version = False")
exp(N, V, "break", "`has_updated_version` starts as True", "        has_updated_version = False\n", "        has_updated_version = True\n")
exp(N, V, "break", "the diff is computed for the OLD version record",
    "            rfd = rfd_from_content(patterns, new_vinfo, content)\n        except", "            rfd = rfd_from_content(patterns, old_vinfo, content)\n        except")
exp(N, V, "break", "a file whose patterns do not match is SKIPPED by the diff path (`raise` -> `continue`)",
    "            # pylint:disable=raise-missing-from  ; we support py2, so not an option\n            errmsg = f\"No patterns matched for file '{file_path}'\"\n            raise rewrite.NoPatternMatch(errmsg)",
    "            continue")
exp(N, V, "break", "`full_diff +=` -> `full_diff =` (only the last file is shown)",
    "        full_diff += \"\\n\".join(lines) + \"\\n\"", "        full_diff = \"\\n\".join(lines) + \"\\n\"")
exp(N, V, "break", "`.rstrip(\"\\n\")` dropped", "    full_diff = full_diff.rstrip(\"\\n\")\n", "")
exp(N, V, "break", "the 'nothing changed' error removed",
    "        if len(lines) == 0 and has_updated_version:\n            errmsg = f\"No patterns matched for file '{file_path}'\"\n            raise rewrite.NoPatternMatch(errmsg)\n", "")
exp(N, V, "break", "the `has_updated_version` loop moved AFTER rfd_from_content (another exception wins)",
    "        has_updated_version = False\n        for pattern in patterns:\n            old_str = v1version.format_version(old_vinfo, pattern.raw_pattern)\n            new_str = v1version.format_version(new_vinfo, pattern.raw_pattern)\n            if old_str != new_str:\n                has_updated_version = True\n\n        try:\n            rfd = rfd_from_content(patterns, new_vinfo, content)\n        except rewrite.NoPatternMatch:\n            # pylint:disable=raise-missing-from  ; we support py2, so not an option\n            errmsg = f\"No patterns matched for file '{file_path}'\"\n            raise rewrite.NoPatternMatch(errmsg)\n",
    "        try:\n            rfd = rfd_from_content(patterns, new_vinfo, content)\n        except rewrite.NoPatternMatch:\n            errmsg = f\"No patterns matched for file '{file_path}'\"\n            raise rewrite.NoPatternMatch(errmsg)\n\n        has_updated_version = False\n        for pattern in patterns:\n            old_str = v1version.format_version(old_vinfo, pattern.raw_pattern)\n            new_str = v1version.format_version(new_vinfo, pattern.raw_pattern)\n            if old_str != new_str:\n                has_updated_version = True\n")
exp(N, V, "break", "read with `errors=\"surrogateescape\"`",
    "        with file_path.open(mode=\"rt\", newline='', encoding=\"utf-8\") as fobj:\n            content = fobj.read()\n\n        has_updated_version",
    "        with file_path.open(mode=\"rt\", newline='', encoding=\"utf-8\", errors=\"surrogateescape\") as fobj:\n            content = fobj.read()\n\n        has_updated_version")
exp(N, V, "harmless", "local `lines` renamed",
    "        lines = rewrite.diff_lines(rfd)\n        if len(lines) == 0 and has_updated_version:\n            errmsg = f\"No patterns matched for file '{file_path}'\"\n            raise rewrite.NoPatternMatch(errmsg)\n\n        full_diff += \"\\n\".join(lines) + \"\\n\"",
    "        dl = rewrite.diff_lines(rfd)\n        if len(dl) == 0 and has_updated_version:\n            errmsg = f\"No patterns matched for file '{file_path}'\"\n            raise rewrite.NoPatternMatch(errmsg)\n\n        full_diff += \"\\n\".join(dl) + \"\\n\"")
exp(N, V, "harmless", "conjuncts commuted", TEST, "if has_updated_version and len(lines) == 0:")
exp(N, V, "harmless", "`len(lines) == 0` -> `not lines`", TEST, "if not lines and has_updated_version:")
exp(N, V, "harmless", "`if c: x = True` -> `x = x or c`",
    "            if old_str != new_str:\n                has_updated_version = True", "            has_updated_version = has_updated_version or old_str != new_str")
exp(N, V, "harmless", "handler with the caught object and the v2 message",
    "        except rewrite.NoPatternMatch:\n            # pylint:disable=raise-missing-from  ; we support py2, so not an option\n            errmsg = f\"No patterns matched for file '{file_path}'\"\n            raise rewrite.NoPatternMatch(errmsg)",
    "        except rewrite.NoPatternMatch as ex:\n            errmsg = f\"No patterns matched for file '{file_path}'. \" + \" \".join(ex.args)\n            raise rewrite.NoPatternMatch(errmsg)")
exp(N, V, "harmless", "path passed to rfd_from_content instead of `_replace`",
    "            rfd = rfd_from_content(patterns, new_vinfo, content)\n        except rewrite.NoPatternMatch:\n            # pylint:disable=raise-missing-from  ; we support py2, so not an option\n            errmsg = f\"No patterns matched for file '{file_path}'\"\n            raise rewrite.NoPatternMatch(errmsg)\n\n        rfd   = rfd._replace(path=str(file_path))\n",
    "            rfd = rfd_from_content(patterns, new_vinfo, content, str(file_path))\n        except rewrite.NoPatternMatch:\n            errmsg = f\"No patterns matched for file '{file_path}'\"\n            raise rewrite.NoPatternMatch(errmsg)\n\n")


def run(cmd, **kw):
    return subprocess.run(cmd, stdout=subprocess.PIPE, stderr=subprocess.STDOUT, text=True, **kw)


def write_gen(files):
    for name, content in files.items():
        path = os.path.join(GEN, name)
        old = open(path, encoding="utf-8").read() if os.path.exists(path) else None
        if old != content:
            open(path, "w", encoding="utf-8").write(content)


def generate_all(rep):
    import translate_funcs
    import translate_rewrite
    import translate_v1rewrite
    files = {}
    # translate_funcs generates hasOverlap / detectLineSep (callees of the shared functions)
    r0 = []
    files.update({k: v for k, v in translate_funcs.generate(r0).items() if k in ("F_hasOverlap.lean", "F_detectLineSep.lean")})
    files.update(translate_rewrite.generate(rep))
    files.update(translate_v1rewrite.generate(rep))
    return files


def main():
    only = set(sys.argv[1:])
    results = []
    for e in E:
        if only and e["name"] not in only:
            continue
        if os.path.exists(SCRATCH):
            shutil.rmtree(SCRATCH)
        shutil.copytree("/repo/src", os.path.join(SCRATCH, "src"))
        path = os.path.join(SCRATCH, "src", "bumpver", e["file"])
        src = open(path, encoding="utf-8").read()
        for old, new in [(e["old"], e["new"])] + e["also"]:
            if src.count(old) != 1:
                print("!! edit text occurs %d times: %r" % (src.count(old), old))
                return 2
            src = src.replace(old, new)
        open(path, "w", encoding="utf-8").write(src)
        os.environ["VERIF_REPO"] = SCRATCH
        rep = []
        files = generate_all(rep)
        del os.environ["VERIF_REPO"]
        mine = {"v1RewriteLines": "F_v1RewriteLines.lean", "v1RfdFromContent": "F_v1RfdFromContent.lean",
                "v1IterRewritten": "F_v1IterRewritten.lean", "v1RewriteFiles": "F_v1RewriteFiles.lean",
                "v1Diff": "F_v1Diff.lean"}
        errs = [(x[1], x[2]) for x in rep if x[2] is not None]
        write_gen(files)
        ok = True
        outcome = []
        for tie in e["ties"]:
            b = run(["timeout", "900", "lake", "build", "BumpverVerif.Proofs.%s" % tie], cwd=LEAN)
            if b.returncode == 0:
                outcome.append("%s builds" % tie)
            else:
                ok = False
                first = [ln for ln in b.stdout.splitlines() if "error" in ln][:1]
                outcome.append("%s FAILS: %s" % (tie, (first[0] if first else "rc=%d" % b.returncode)[:100]))
        if e["variant"]:
            run(["timeout", "900", "lake", "build", "BumpverVerif.Gen.F_%s" % e["name"], "BumpverVerif.Proofs.Tie_v1IterRewritten"], cwd=LEAN)
            t = run(["timeout", "600", "lake", "env", "lean", os.path.join(HERE, e["variant"])], cwd=LEAN)
            good = t.returncode == 0 and "error" not in t.stdout
            outcome.append("variant proof %s %s" % (e["variant"], "COMPILES" if good else "fails: " + t.stdout[:200]))
            ok = ok or not good
        outcome = "; ".join(outcome)
        if errs:
            outcome = "UNTRANSLATABLE %s (%s); %s" % (errs[0][0], errs[0][1].reason[:90], outcome[:70])
        verdict = "as intended" if ok == (e["kind"] == "harmless") else "** NOT as intended **"
        results.append((e, outcome, verdict))
        print("%-16s %-9s %-86s -> %s [%s]" % (e["name"], e["kind"], e["label"], outcome, verdict), flush=True)
    # restore
    shutil.rmtree(SCRATCH, ignore_errors=True)
    write_gen(generate_all([]))
    mods = sorted({"BumpverVerif.Proofs.%s" % t for e, _, _ in results for t in e["ties"]})
    if mods:
        b = run(["timeout", "1800", "lake", "build"] + mods, cwd=LEAN)
        print("restore build:", "ok" if b.returncode == 0 else b.stdout[-2000:])
    bad = [r for r in results if r[2] != "as intended"]
    print("%d experiments, %d not as intended" % (len(results), len(bad)))
    return 0


if __name__ == "__main__":
    sys.exit(main())
