"""dev: differential test of Model/V2Version against the real code"""
import sys, os, json, random
sys.path.insert(0, os.path.dirname(os.path.dirname(os.path.abspath(__file__))))
import impl_adapter as impl, gen
from common import Driver, canon
rng = random.Random(int(sys.argv[1]) if len(sys.argv) > 1 else 1)
N = int(sys.argv[2]) if len(sys.argv) > 2 else 2000
ops = []
def flags(rng):
    return {"major": rng.random() < 0.2, "minor": rng.random() < 0.2, "patch": rng.random() < 0.25,
            "tag": rng.choice([None, None, None] + gen.TAGS), "tag_num": rng.random() < 0.2,
            "pin_increments": rng.random() < 0.2, "pin_date": rng.random() < 0.15}
for _ in range(N):
    pat = gen.gen_any_pattern(rng)
    d = gen.gen_date(rng)
    today = gen.gen_date(rng)
    st = {"date": [d.year, d.month, d.day], "major": gen.gen_nat(rng), "minor": gen.gen_nat(rng), "patch": gen.gen_nat(rng),
          "bid": gen.gen_bid(rng), "tag": rng.choice(gen.TAGS), "num": gen.gen_nat(rng), "inc0": gen.gen_nat(rng), "inc1": max(1, gen.gen_nat(rng))}
    vj = impl.vinfo_json(impl.make_vinfo(st))
    ops.append({"op": "format", "vinfo": vj, "pattern": pat})
    ops.append({"op": "pattern_fields", "pattern": pat})
    f = impl.format_vinfo(vj, pat)
    T = [today.year, today.month, today.day]
    if "ok" in f:
        v = f["ok"]
        ops.append({"op": "parse", "version": v, "pattern": pat, "today": T})
        d2 = d + __import__("datetime").timedelta(days=rng.choice([0, 0, 1, 7, 31, 366, -1, -40, rng.randint(-400, 4000)]))
        try:
            D2 = [d2.year, d2.month, d2.day]
        except Exception:
            D2 = T
        fl = flags(rng)
        o = {"op": "incr", "version": v, "pattern": pat, "date": D2, "today": T}
        o.update(fl)
        ops.append(o)
        if v:
            i = rng.randrange(len(v))
            ops.append({"op": "parse", "version": v[:i] + rng.choice("09a.-x") + v[i + 1:], "pattern": pat, "today": T})
def run_impl(o):
    k = o["op"]
    if k == "format": return impl.format_vinfo(o["vinfo"], o["pattern"])
    if k == "pattern_fields": return impl.pattern_fields(o["pattern"])
    if k == "parse": return impl.parse_version(o["version"], o["pattern"], o["today"])
    if k == "incr": return impl.incr(o["version"], o["pattern"], o, o["date"], o["today"])
outs = Driver().run(ops)
bad = uns = 0
kinds = {}
for o, m in zip(ops, outs):
    a = run_impl(o)
    if "unsupported" in m or a.get("err") in ("re.error", "unsupported-by-model"):
        uns += 1; continue
    if canon(a) != canon(m):
        bad += 1
        kinds[o["op"]] = kinds.get(o["op"], 0) + 1
        if bad <= 10:
            print(json.dumps(o)); print("  impl ", a); print("  model", m)
print("ops", len(ops), "bad", bad, kinds, "unsupported", uns)
