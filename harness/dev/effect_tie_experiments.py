#!/venv/bin/python
"""Robustness demonstration for harness/translate_effects.py + the effect ties
(Proofs/Tie_apiGetRemote, Tie_vcsCommit, Tie_getTags, Tie_assertNotDirty, Tie_cliUpdate).

For every experiment: copy /repo/src to a scratch tree, apply ONE textual edit to the Python source, run
the effect translator with VERIF_REPO pointing at the scratch tree, write the regenerated Gen/F_*.lean
and rebuild the tie modules.

  kind 'break'   : a plausible semantic one-statement edit -> a tie must NO LONGER build (or the function
                   becomes UNTRANSLATABLE)
  kind 'harmless': a behaviour-preserving rewrite            -> every tie must still build

Afterwards the generated files are restored from the unmodified /repo and the scratch tree is removed.
Usage: /venv/bin/python harness/dev/effect_tie_experiments.py [group ...]     (groups: commit methods
       get_tags dirty update)
Output table: harness/dev/effect_tie_experiments.out.txt
"""
import os
import re
import shutil
import subprocess
import sys
import time

HERE = os.path.dirname(os.path.abspath(__file__))
HARNESS = os.path.dirname(HERE)
VERIF = os.path.dirname(HARNESS)
LEAN = os.path.join(VERIF, "lean")
GEN = os.path.join(LEAN, "BumpverVerif", "Gen")
SCRATCH = os.path.join(VERIF, "scratch_repo_effects")
sys.path.insert(0, HARNESS)

TIES = ["BumpverVerif.Proofs.Tie_apiGetRemote", "BumpverVerif.Proofs.Tie_vcsCommit", "BumpverVerif.Proofs.Tie_getTags",
        "BumpverVerif.Proofs.Tie_assertNotDirty", "BumpverVerif.Proofs.Tie_cliUpdate"]

E = []


def exp(group, func, file, kind, label, old, new, also=()):
    E.append(dict(group=group, func=func, file=file, kind=kind, label=label, edits=[(old, new)] + list(also)))


V = "vcs.py"
C = "cli.py"

# ---------------------------------------------------------------------------------------------------
# vcs.commit
# ---------------------------------------------------------------------------------------------------
ADD_LOOP = "        for filepath in filepaths:\n            vcs_api.add(filepath)\n\n"
COMMIT_CALL = "        vcs_api.commit(commit_message)\n\n"
POST_HOOK = ("        if cfg.post_commit_hook:\n"
             "            logger.info(f\"Run post-commit hook: {cfg.post_commit_hook}\")\n"
             "            hooks.run(cfg.post_commit_hook, cfg.current_version, new_version)\n")
PRE_HOOK = ("        if cfg.pre_commit_hook:\n"
            "            logger.info(f\"Run pre-commit hook: {cfg.pre_commit_hook}\")\n"
            "            hooks.run(cfg.pre_commit_hook, cfg.current_version, new_version)\n\n")
TAG_BLOCK = "    if cfg.commit and cfg.tag:\n        vcs_api.tag(tag_name=new_version, tag_message=tag_message)\n"
PUSH_BLOCK = ("    if cfg.commit and cfg.push:\n        if cfg.tag:\n            vcs_api.push_tag(tag_name=new_version)\n"
              "        else:\n            vcs_api.push()\n")

exp("commit", "vcs.commit", V, "break", "reorder: commit BEFORE staging the files",
    ADD_LOOP + COMMIT_CALL, COMMIT_CALL + ADD_LOOP)
exp("commit", "vcs.commit", V, "break", "guard dropped: `if cfg.commit and cfg.tag` -> `if cfg.tag`",
    "    if cfg.commit and cfg.tag:\n", "    if cfg.tag:\n")
exp("commit", "vcs.commit", V, "break", "guard dropped: `if cfg.commit and cfg.push` -> `if cfg.push`",
    "    if cfg.commit and cfg.push:\n", "    if cfg.push:\n")
exp("commit", "vcs.commit", V, "break", "`and` -> `or` in the tag guard",
    "    if cfg.commit and cfg.tag:\n", "    if cfg.commit or cfg.tag:\n")
exp("commit", "vcs.commit", V, "break", "post-commit hook moved BEFORE the commit",
    COMMIT_CALL + POST_HOOK, POST_HOOK + "\n" + COMMIT_CALL)
exp("commit", "vcs.commit", V, "break", "post-commit hook in a `finally:` (runs after a failed commit)",
    COMMIT_CALL + POST_HOOK,
    "        try:\n            vcs_api.commit(commit_message)\n        finally:\n"
    "            if cfg.post_commit_hook:\n"
    "                hooks.run(cfg.post_commit_hook, cfg.current_version, new_version)\n")
exp("commit", "vcs.commit", V, "break", "push variant: push_tag / push exchanged",
    "        if cfg.tag:\n            vcs_api.push_tag(tag_name=new_version)\n        else:\n            vcs_api.push()\n",
    "        if not cfg.tag:\n            vcs_api.push_tag(tag_name=new_version)\n        else:\n            vcs_api.push()\n")
exp("commit", "vcs.commit", V, "break", "push variant: always plain `push()`",
    "        if cfg.tag:\n            vcs_api.push_tag(tag_name=new_version)\n        else:\n            vcs_api.push()\n",
    "        vcs_api.push()\n")
exp("commit", "vcs.commit", V, "break", "hook arguments exchanged (new, old)",
    "            hooks.run(cfg.pre_commit_hook, cfg.current_version, new_version)",
    "            hooks.run(cfg.pre_commit_hook, new_version, cfg.current_version)")
exp("commit", "vcs.commit", V, "break", "the post-commit hook script is run in the pre-commit position",
    "            hooks.run(cfg.pre_commit_hook, cfg.current_version, new_version)",
    "            hooks.run(cfg.post_commit_hook, cfg.current_version, new_version)")
exp("commit", "vcs.commit", V, "break", "tag created BEFORE the commit phase",
    "    if cfg.commit:\n        if cfg.pre_commit_hook:\n",
    TAG_BLOCK + "\n    if cfg.commit:\n        if cfg.pre_commit_hook:\n",
    also=[("\n" + TAG_BLOCK + "\n    if cfg.commit and cfg.push:", "\n    if cfg.commit and cfg.push:")])
exp("commit", "vcs.commit", V, "break", "tag gets the COMMIT message (annotated / lightweight decided by the wrong text)",
    "        vcs_api.tag(tag_name=new_version, tag_message=tag_message)",
    "        vcs_api.tag(tag_name=new_version, tag_message=commit_message)")
exp("commit", "vcs.commit", V, "break", "pre-commit hook guard dropped (runs the empty path)",
    PRE_HOOK, "        hooks.run(cfg.pre_commit_hook, cfg.current_version, new_version)\n\n")
exp("commit", "vcs.commit", V, "break", "failing `add` ignored (try/except pass around the staging loop)",
    ADD_LOOP, "        for filepath in filepaths:\n            try:\n                vcs_api.add(filepath)\n"
              "            except Exception:\n                pass\n\n")
exp("commit", "vcs.commit", V, "harmless", "loop variable renamed",
    ADD_LOOP, "        for fp in filepaths:\n            vcs_api.add(fp)\n\n")
exp("commit", "vcs.commit", V, "harmless", "`if a and b:` -> nested `if a: if b:` (tag and push)",
    TAG_BLOCK, "    if cfg.commit:\n        if cfg.tag:\n            vcs_api.tag(tag_name=new_version, tag_message=tag_message)\n",
    also=[("    if cfg.commit and cfg.push:\n        if cfg.tag:\n            vcs_api.push_tag(tag_name=new_version)\n"
           "        else:\n            vcs_api.push()\n",
           "    if cfg.commit:\n        if cfg.push:\n            if cfg.tag:\n                vcs_api.push_tag(tag_name=new_version)\n"
           "            else:\n                vcs_api.push()\n")])
exp("commit", "vcs.commit", V, "harmless", "conjuncts commuted, positional arguments",
    "    if cfg.commit and cfg.tag:\n        vcs_api.tag(tag_name=new_version, tag_message=tag_message)\n",
    "    if cfg.tag and cfg.commit:\n        vcs_api.tag(new_version, tag_message)\n",
    also=[("    if cfg.commit and cfg.push:\n", "    if cfg.push and cfg.commit:\n")])
exp("commit", "vcs.commit", V, "harmless", "early return when commit is off; locals for the versions and the hook path",
    "    if cfg.commit:\n        if cfg.pre_commit_hook:\n"
    "            logger.info(f\"Run pre-commit hook: {cfg.pre_commit_hook}\")\n"
    "            hooks.run(cfg.pre_commit_hook, cfg.current_version, new_version)\n\n"
    + ADD_LOOP + COMMIT_CALL + POST_HOOK + "\n" + TAG_BLOCK + "\n" + PUSH_BLOCK,
    "    if not cfg.commit:\n        return\n\n    old_version = cfg.current_version\n    pre_hook = cfg.pre_commit_hook\n"
    "    if pre_hook:\n        hooks.run(pre_hook, old_version, new_version)\n\n"
    "    for filepath in filepaths:\n        vcs_api.add(filepath)\n\n    vcs_api.commit(commit_message)\n\n"
    "    if cfg.post_commit_hook:\n        hooks.run(cfg.post_commit_hook, old_version, new_version)\n\n"
    "    if cfg.tag:\n        vcs_api.tag(tag_name=new_version, tag_message=tag_message)\n\n"
    "    if cfg.push:\n        if cfg.tag:\n            vcs_api.push_tag(tag_name=new_version)\n"
    "        else:\n            vcs_api.push()\n")
exp("commit", "vcs.commit", V, "harmless", "push decision as one if/elif chain",
    PUSH_BLOCK,
    "    if cfg.commit and cfg.push and cfg.tag:\n        vcs_api.push_tag(tag_name=new_version)\n"
    "    elif cfg.commit and cfg.push:\n        vcs_api.push()\n")

# ---------------------------------------------------------------------------------------------------
# VCSAPI methods
# ---------------------------------------------------------------------------------------------------
exp("methods", "VCSAPI.tag", V, "break", "annotated / lightweight exchanged (`if not tag_message`)",
    "        if tag_message:\n            # Annotated", "        if not tag_message:\n            # Annotated")
exp("methods", "VCSAPI.tag", V, "harmless", "negated test with exchanged branches",
    "        if tag_message:\n            # Annotated\n            self('tag', tag=tag_name, message=tag_message)\n"
    "        else:\n            # Lightweight\n            self('tag_light', tag=tag_name)\n",
    "        if not tag_message:\n            self('tag_light', tag=tag_name)\n"
    "        else:\n            self('tag', tag=tag_name, message=tag_message)\n")
exp("methods", "VCSAPI.push_tag", V, "break", "`push_tag` runs the plain `push` subcommand",
    "            self('push_tag', tag=tag_name, remote=remote)", "            self('push', remote=remote)")
exp("methods", "VCSAPI.push_tag", V, "break", "remote check dropped (pushes without a remote)",
    "        remote = self.get_remote()\n        if remote:\n            self('push_tag', tag=tag_name, remote=remote)",
    "        remote = self.get_remote()\n        self('push_tag', tag=tag_name, remote=remote)")
exp("methods", "VCSAPI.push", V, "break", "`if remote` -> `if not remote`",
    "        remote = self.get_remote()\n        if remote:\n            self('push', remote=remote)",
    "        remote = self.get_remote()\n        if not remote:\n            self('push', remote='origin')")
exp("methods", "VCSAPI.add", V, "break", "every failing `add` is swallowed (`raise` -> `return`)",
    "                return\n            else:\n                raise", "                return\n            else:\n                return")
ADD_TEST = "            if self.name == 'hg' and b\"already tracked!\" in (ex.stderr or b\"\"):"
ADD_HANDLER = ADD_TEST + "\n                # mercurial\n                return\n            else:\n                raise"
exp("methods", "VCSAPI.add", V, "harmless", "handler restructured (`if not (...): raise`)",
    ADD_HANDLER,
    "            if not (self.name == 'hg' and b\"already tracked!\" in (ex.stderr or b\"\")):\n                raise")
exp("methods", "VCSAPI.add", V, "break", "back to `\"already tracked!\" in str(ex)` (the argv / path text decides again, as before 58b6007)",
    ADD_TEST, "            if \"already tracked!\" in str(ex):")
exp("methods", "VCSAPI.add", V, "break", "hg test dropped (git's stderr, which quotes the path, decides again; 46d38a1)",
    ADD_TEST, "            if b\"already tracked!\" in (ex.stderr or b\"\"):")
exp("methods", "VCSAPI.add", V, "break", "`and` -> `or`",
    ADD_TEST, "            if self.name == 'hg' or b\"already tracked!\" in (ex.stderr or b\"\"):")
exp("methods", "VCSAPI.add", V, "break", "`or b\"\"` dropped (`in None` would raise TypeError)",
    ADD_TEST, "            if self.name == 'hg' and b\"already tracked!\" in ex.stderr:")
exp("methods", "VCSAPI.add", V, "break", "test negated (`not in`): every ordinary hg failure is swallowed",
    ADD_TEST, "            if self.name == 'hg' and b\"already tracked!\" not in (ex.stderr or b\"\"):")
exp("methods", "VCSAPI.add", V, "break", "another text is looked for (`tracked`)",
    ADD_TEST, "            if self.name == 'hg' and b\"tracked\" in (ex.stderr or b\"\"):")
exp("methods", "VCSAPI.add", V, "break", "the handler catches OSError instead of CalledProcessError",
    "        except sp.CalledProcessError as ex:\n" + ADD_TEST, "        except OSError as ex:\n" + ADD_TEST)
exp("methods", "VCSAPI.add", V, "harmless", "stderr through a local, conjuncts nested",
    ADD_HANDLER,
    "            err = ex.stderr or b\"\"\n            if self.name == 'hg':\n                if b\"already tracked!\" in err:\n                    return\n            raise")
exp("methods", "VCSAPI.add", V, "harmless", "explicit `return None`, comment, handler variable renamed, operands of == exchanged",
    "        except sp.CalledProcessError as ex:\n" + ADD_HANDLER,
    "        except sp.CalledProcessError as err:\n            # hg: adding a tracked file is no error\n"
    "            if 'hg' == self.name and b\"already tracked!\" in (err.stderr or b\"\"):\n                return None\n            else:\n                raise")
exp("methods", "VCSAPI.commit", V, "break", "the hg branch runs `add_path` instead of `commit`",
    "                self('commit', env=env, path=tmp_file.name)", "                self('add_path', env=env, path=message)")
exp("methods", "VCSAPI.get_remote", V, "break", "`except Exception` -> `except OSError` (a failing probe now propagates)",
    "        except Exception:\n            return None", "        except OSError:\n            return None")
exp("methods", "VCSAPI.get_remote", V, "break", "`if branch_info['is_current']` negated",
    "                    if branch_info['is_current']:", "                    if not branch_info['is_current']:")
exp("methods", "VCSAPI.get_remote", V, "break", "`ls_branches` asked for hg instead of git",
    "            if self.name == 'git':\n                output = self('ls_branches')", "            if self.name == 'hg':\n                output = self('ls_branches')")
exp("methods", "VCSAPI.get_remote", V, "break", "the other group is returned (`is_current` instead of `remote`)",
    "                        return branch_info['remote']", "                        return branch_info['is_current']")
exp("methods", "VCSAPI.get_remote", V, "break", "empty `show_remotes` answer counts as a remote",
    "            if output.strip() == \"\":\n                return None", "            if output.strip() == \"\":\n                return \"origin\"")
exp("methods", "VCSAPI.get_remote", V, "harmless", "locals renamed / inlined, `not text` for `== \"\"`",
    "                for match in BRANCH_RE.finditer(output):\n                    branch_info = match.groupdict()\n"
    "                    if branch_info['is_current']:\n                        return branch_info['remote']",
    "                for m in BRANCH_RE.finditer(output):\n"
    "                    if m.groupdict()['is_current']:\n                        return m.groupdict()['remote']",
    also=[("            output = self('show_remotes')\n            if output.strip() == \"\":\n                return None\n"
           "            else:\n                return output.strip()",
           "            url = self('show_remotes').strip()\n            if not url:\n                return None\n            return url")])
exp("methods", "VCSAPI.get_remote", V, "break", "the second probe asks `ls_branches` again instead of `show_remotes`",
    "            output = self('show_remotes')", "            output = self('ls_branches')")
exp("methods", "VCSAPI.get_remote", V, "harmless", "operands of `==` exchanged; conditional expression for the if/else",
    "            if self.name == 'git':", "            if 'git' == self.name:",
    also=[("            if output.strip() == \"\":\n                return None\n            else:\n                return output.strip()",
           "            return None if output.strip() == \"\" else output.strip()")])
exp("methods", "VCSAPI.get_remote", V, "harmless", "`is_current` test through a local, `!= \"\"` with exchanged branches",
    "                    if branch_info['is_current']:\n                        return branch_info['remote']",
    "                    current = branch_info['is_current']\n                    if current:\n                        return branch_info['remote']",
    also=[("            if output.strip() == \"\":\n                return None\n            else:\n                return output.strip()",
           "            if output.strip() != \"\":\n                return output.strip()\n            else:\n                return None")])
exp("methods", "VCSAPI.fetch", V, "break", "fetch without looking for a remote",
    "        if self.get_remote():\n            self('fetch')", "        self('fetch')")
exp("methods", "VCSAPI.fetch", V, "harmless", "local for the remote",
    "        if self.get_remote():\n            self('fetch')", "        remote = self.get_remote()\n        if remote:\n            self('fetch')")
exp("methods", "VCSAPI.is_usable", V, "break", "`retcode == 0` -> `retcode != 0`",
    "            return retcode == 0", "            return retcode != 0")
exp("methods", "VCSAPI.is_usable", V, "break", "directory test dropped (probes although there is no .git)",
    "        if not os.path.exists(f\".{self.name}\"):\n            return False\n\n", "")
exp("methods", "VCSAPI.is_usable", V, "harmless", "local for the result, errno test as `!=` with exchanged branches",
    "            return retcode == 0", "            ok = retcode == 0\n            return ok",
    also=[("            if err.errno == 2:\n                # git/mercurial is not installed.\n                return False\n            else:\n                raise",
           "            if err.errno != 2:\n                raise\n            return False")])

# ---------------------------------------------------------------------------------------------------
# vcs.get_tags / get_vcs_api
# ---------------------------------------------------------------------------------------------------
exp("get_tags", "vcs.get_tags", V, "break", "`if fetch` -> `if not fetch` (--no-fetch fetches)",
    "        if fetch:\n            logger.info(\"fetching tags", "        if not fetch:\n            logger.info(\"fetching tags")
exp("get_tags", "vcs.get_tags", V, "break", "`except OSError` -> `except Exception` (a failing fetch becomes \"no VCS\")",
    "    except OSError:\n        logger.debug(\"No vcs found\")", "    except Exception:\n        logger.debug(\"No vcs found\")")
exp("get_tags", "vcs.get_tags", V, "break", "branch / global listing exchanged",
    "        if branch_scope:\n            return vcs_api.ls_tags_branch()\n        else:\n            return vcs_api.ls_tags()",
    "        if branch_scope:\n            return vcs_api.ls_tags()\n        else:\n            return vcs_api.ls_tags_branch()")
exp("get_tags", "vcs.get_tags", V, "break", "scope compared with GLOBAL instead of BRANCH",
    "        branch_scope = scope == config.TagScope.BRANCH", "        branch_scope = scope == config.TagScope.GLOBAL")
exp("get_tags", "vcs.get_tags", V, "break", "fetch AFTER the tags were listed",
    "        if fetch:\n            logger.info(\"fetching tags from remote (to turn off use: -n / --no-fetch)\")\n            vcs_api.fetch()\n\n"
    "        branch_scope = scope == config.TagScope.BRANCH\n\n"
    "        if branch_scope:\n            return vcs_api.ls_tags_branch()\n        else:\n            return vcs_api.ls_tags()",
    "        branch_scope = scope == config.TagScope.BRANCH\n\n"
    "        if branch_scope:\n            tags = vcs_api.ls_tags_branch()\n        else:\n            tags = vcs_api.ls_tags()\n"
    "        if fetch:\n            vcs_api.fetch()\n        return tags")
exp("get_tags", "vcs.get_tags", V, "break", "fetch dropped",
    "            vcs_api.fetch()\n", "            pass\n")
exp("get_tags", "vcs.get_tags", V, "break", "\"no VCS\" re-raised instead of the empty list",
    "        logger.debug(\"No vcs found\")\n        return []", "        logger.debug(\"No vcs found\")\n        raise")
exp("get_tags", "vcs.get_tags", V, "harmless", "local renamed, else dropped (fall-through return), scope test inlined",
    "        vcs_api = get_vcs_api()\n        logger.debug(f\"vcs found: {vcs_api.name}\")\n\n"
    "        if fetch:\n            logger.info(\"fetching tags from remote (to turn off use: -n / --no-fetch)\")\n            vcs_api.fetch()\n\n"
    "        branch_scope = scope == config.TagScope.BRANCH\n\n"
    "        if branch_scope:\n            return vcs_api.ls_tags_branch()\n        else:\n            return vcs_api.ls_tags()",
    "        api = get_vcs_api()\n\n        if fetch:\n            api.fetch()\n\n"
    "        if scope == config.TagScope.BRANCH:\n            return api.ls_tags_branch()\n        return api.ls_tags()")
exp("get_tags", "vcs.get_tags", V, "harmless", "negated scope test with exchanged branches",
    "        if branch_scope:\n            return vcs_api.ls_tags_branch()\n        else:\n            return vcs_api.ls_tags()",
    "        if not branch_scope:\n            return vcs_api.ls_tags()\n        else:\n            return vcs_api.ls_tags_branch()")
exp("get_tags", "vcs.get_tags", V, "harmless", "result through a local, single return",
    "        if branch_scope:\n            return vcs_api.ls_tags_branch()\n        else:\n            return vcs_api.ls_tags()",
    "        if branch_scope:\n            tags = vcs_api.ls_tags_branch()\n        else:\n            tags = vcs_api.ls_tags()\n        return tags")
exp("get_tags", "VCSAPI.ls_tags_branch", V, "harmless", "accumulation loop for the comprehension (harmless2.diff)",
    "        logger.debug(f\"ls_tags_branch output {ls_tag_lines}\")\n"
    "        return [line.strip().split(\" \", 1)[0] for line in ls_tag_lines]",
    "        tags = []\n        for line in ls_tag_lines:\n            first_word = line.strip().split(\" \", 1)[0]\n"
    "            tags.append(first_word)\n        return tags")
exp("get_tags", "VCSAPI.ls_tags", V, "break", "the tag name is cut at the first `.` instead of the first blank",
    "        logger.debug(f\"ls_tags output {ls_tag_lines}\")\n"
    "        return [line.strip().split(\" \", 1)[0] for line in ls_tag_lines]",
    "        logger.debug(f\"ls_tags output {ls_tag_lines}\")\n"
    "        return [line.strip().split(\".\", 1)[0] for line in ls_tag_lines]")
exp("get_tags", "vcs.get_vcs_api", V, "break", "`if vcs_api.is_usable` negated",
    "        if vcs_api.is_usable:\n            return vcs_api", "        if not vcs_api.is_usable:\n            return vcs_api")
exp("get_tags", "vcs.get_vcs_api", V, "break", "ValueError instead of OSError (not caught by the callers)",
    "    raise OSError(\"No such directory .git/ or .hg/ \")", "    raise ValueError(\"No such directory .git/ or .hg/ \")")
exp("get_tags", "vcs.get_vcs_api", V, "harmless", "loop variable renamed, object built positionally",
    "    for vcs_name in VCS_SUBCOMMANDS_BY_NAME:\n        vcs_api = VCSAPI(name=vcs_name)\n        if vcs_api.is_usable:\n            return vcs_api",
    "    for name in VCS_SUBCOMMANDS_BY_NAME:\n        api = VCSAPI(name)\n        if api.is_usable:\n            return api")

# ---------------------------------------------------------------------------------------------------
# VCSAPI.status / vcs.assert_not_dirty
# ---------------------------------------------------------------------------------------------------
exp("dirty", "vcs.assert_not_dirty", V, "break", "`not allow_dirty` -> `allow_dirty`",
    "    if not allow_dirty and dirty_files:", "    if allow_dirty and dirty_files:")
exp("dirty", "vcs.assert_not_dirty", V, "break", "`and` -> `or`",
    "    if not allow_dirty and dirty_files:", "    if not allow_dirty or dirty_files:")
exp("dirty", "vcs.assert_not_dirty", V, "break", "dirty pattern files no longer abort (second `sys.exit(1)` dropped)",
    "            logger.warning(\"    \" + dirty_file)\n        sys.exit(1)\n\n\ndef commit(",
    "            logger.warning(\"    \" + dirty_file)\n\n\ndef commit(")
exp("dirty", "vcs.assert_not_dirty", V, "break", "`sys.exit(1)` -> `sys.exit(0)`",
    "    if not allow_dirty and dirty_files:\n        sys.exit(1)", "    if not allow_dirty and dirty_files:\n        sys.exit(0)")
exp("dirty", "vcs.assert_not_dirty", V, "break", "pattern-file check only without --allow-dirty",
    "    if dirty_pattern_files:\n", "    if dirty_pattern_files and not allow_dirty:\n")
exp("dirty", "vcs.assert_not_dirty", V, "break", "status asked with an empty set of required files",
    "    dirty_files = vcs_api.status(required_files=filepaths)", "    dirty_files = vcs_api.status(required_files=set())")
exp("dirty", "VCSAPI.status", V, "break", "`status != \"??\"` -> `status == \"??\"`",
    "            if filepath.strip() in required_files or status != \"??\"",
    "            if filepath.strip() in required_files or status == \"??\"")
exp("dirty", "VCSAPI.status", V, "break", "`or` -> `and` in the filter",
    "            if filepath.strip() in required_files or status != \"??\"",
    "            if filepath.strip() in required_files and status != \"??\"")
exp("dirty", "VCSAPI.status", V, "break", "whole output stripped once instead of every line (D9 again)",
    "        status_lines  = [line.strip() for line in status_output.splitlines()]",
    "        status_lines  = [line for line in status_output.strip().splitlines()]")
exp("dirty", "VCSAPI.status", V, "break", "blank lines no longer skipped",
    "        status_items  = [line.split(None, 1) for line in status_lines if line]",
    "        status_items  = [line.split(None, 1) for line in status_lines]")
exp("dirty", "VCSAPI.status", V, "break", "required files not looked at (untracked pattern file is clean)",
    "            if filepath.strip() in required_files or status != \"??\"", "            if status != \"??\"")
exp("dirty", "VCSAPI.status", V, "break", "the `ls_tags` subcommand is run instead of `status`",
    "        status_output = self('status')", "        status_output = self('ls_tags')")
exp("dirty", "VCSAPI.status", V, "harmless", "a loop for the comprehension, De Morgan, locals renamed (seeded/_harmless-refactor)",
    "        status_output = self('status')\n"
    "        status_lines  = [line.strip() for line in status_output.splitlines()]\n"
    "        status_items  = [line.split(None, 1) for line in status_lines if line]\n\n"
    "        return [\n            filepath.strip()\n            for status, filepath in status_items\n"
    "            if filepath.strip() in required_files or status != \"??\"\n        ]",
    "        raw_output = self('status')\n"
    "        stripped   = [ln.strip() for ln in raw_output.splitlines()]\n"
    "        pairs      = [ln.split(None, 1) for ln in stripped if ln]\n\n"
    "        result = []\n        for code, path in pairs:\n            path = path.strip()\n"
    "            if not (code == \"??\" and path not in required_files):\n                result.append(path)\n        return result")
exp("dirty", "VCSAPI.status", V, "harmless", "disjuncts commuted, one comprehension less",
    "        status_lines  = [line.strip() for line in status_output.splitlines()]\n"
    "        status_items  = [line.split(None, 1) for line in status_lines if line]\n",
    "        status_items  = [line.strip().split(None, 1) for line in status_output.splitlines() if line.strip()]\n",
    also=[("            if filepath.strip() in required_files or status != \"??\"",
           "            if status != \"??\" or filepath.strip() in required_files")])
exp("dirty", "VCSAPI.status", V, "harmless", "locals renamed; blank test as `len(line) > 0`",
    "        status_lines  = [line.strip() for line in status_output.splitlines()]\n"
    "        status_items  = [line.split(None, 1) for line in status_lines if line]\n",
    "        lines = [raw.strip() for raw in status_output.splitlines()]\n"
    "        status_items = [ln.split(None, 1) for ln in lines if len(ln) > 0]\n")
exp("dirty", "vcs.assert_not_dirty", V, "harmless", "intersection written as a comprehension",
    "    dirty_pattern_files = set(dirty_files) & filepaths",
    "    dirty_pattern_files = [path for path in dirty_files if path in filepaths]")
exp("dirty", "vcs.assert_not_dirty", V, "harmless", "conjuncts commuted, intersection through a local list test",
    "    if not allow_dirty and dirty_files:", "    if dirty_files and not allow_dirty:")
exp("dirty", "vcs.assert_not_dirty", V, "harmless", "positional call, merged exits restructured",
    "    dirty_files = vcs_api.status(required_files=filepaths)", "    dirty_files = vcs_api.status(filepaths)",
    also=[("    if not allow_dirty and dirty_files:\n        sys.exit(1)", "    if dirty_files:\n        if not allow_dirty:\n            sys.exit(1)")])

# ---------------------------------------------------------------------------------------------------
# cli._update / cli._try_update
# ---------------------------------------------------------------------------------------------------
DIRTY = "    if vcs_api:\n        vcs.assert_not_dirty(vcs_api, filepaths, allow_dirty)\n\n"
REWRITE = ("    try:\n        if cfg.is_new_pattern:\n"
           "            new_v2_vinfo = v2version.parse_version_info(new_version, cfg.version_pattern)\n"
           "            v2rewrite.rewrite_files(cfg.file_patterns, new_v2_vinfo)\n"
           "        else:\n"
           "            new_v1_vinfo = v1version.parse_version_info(new_version, cfg.version_pattern)\n"
           "            v1rewrite.rewrite_files(cfg.file_patterns, new_v1_vinfo)\n"
           "    except rewrite.NoPatternMatch as ex:\n        logger.error(str(ex))\n        sys.exit(1)\n\n")
COMMIT = "    if vcs_api:\n        vcs.commit(cfg, vcs_api, filepaths, new_version, commit_message, tag_message)\n"
exp("update", "cli._update", C, "break", "dirty check AFTER the rewrite", DIRTY + REWRITE, REWRITE + DIRTY)
exp("update", "cli._update", C, "break", "commit phase BEFORE the rewrite", REWRITE + COMMIT, COMMIT + "\n" + REWRITE)
exp("update", "cli._update", C, "break", "`if cfg.commit` dropped (the VCS is probed although commit is off)",
    "    if cfg.commit:\n        try:\n            vcs_api = vcs.get_vcs_api()\n        except OSError:\n"
    "            logger.warning(\"Version Control System not found, skipping commit.\")\n",
    "    try:\n        vcs_api = vcs.get_vcs_api()\n    except OSError:\n"
    "        logger.warning(\"Version Control System not found, skipping commit.\")\n")
exp("update", "cli._update", C, "break", "a failed rewrite no longer stops (`sys.exit(1)` dropped)",
    "            v1rewrite.rewrite_files(cfg.file_patterns, new_v1_vinfo)\n"
    "    except rewrite.NoPatternMatch as ex:\n        logger.error(str(ex))\n        sys.exit(1)\n",
    "            v1rewrite.rewrite_files(cfg.file_patterns, new_v1_vinfo)\n"
    "    except rewrite.NoPatternMatch as ex:\n        logger.error(str(ex))\n")
exp("update", "cli._update", C, "break", "dirty check dropped", DIRTY, "")
exp("update", "cli._update", C, "break", "missing VCS no longer tolerated (`except OSError` -> `except ValueError`)",
    "        except OSError:\n            logger.warning(\"Version Control System not found",
    "        except ValueError:\n            logger.warning(\"Version Control System not found")
exp("update", "cli._update", C, "break", "--allow-dirty ignored (constant False handed over)",
    "        vcs.assert_not_dirty(vcs_api, filepaths, allow_dirty)", "        vcs.assert_not_dirty(vcs_api, filepaths, False)")
exp("update", "cli._try_update", C, "break", "a failing VCS command ends with exit code 0",
    "            sys.stderr.write(ex.stderr.decode('utf-8'))\n        sys.exit(1)",
    "            sys.stderr.write(ex.stderr.decode('utf-8'))\n        sys.exit(0)")
exp("update", "cli._try_update", C, "break", "a failing VCS command is swallowed (no exit)",
    "            sys.stderr.write(ex.stderr.decode('utf-8'))\n        sys.exit(1)",
    "            sys.stderr.write(ex.stderr.decode('utf-8'))")
exp("update", "cli._update", C, "harmless", "`if vcs_api:` -> `if vcs_api is not None:`; engine test negated",
    DIRTY, "    if vcs_api is not None:\n        vcs.assert_not_dirty(vcs_api, filepaths, allow_dirty)\n\n",
    also=[("        if cfg.is_new_pattern:\n"
           "            new_v2_vinfo = v2version.parse_version_info(new_version, cfg.version_pattern)\n"
           "            v2rewrite.rewrite_files(cfg.file_patterns, new_v2_vinfo)\n"
           "        else:\n"
           "            new_v1_vinfo = v1version.parse_version_info(new_version, cfg.version_pattern)\n"
           "            v1rewrite.rewrite_files(cfg.file_patterns, new_v1_vinfo)\n",
           "        if not cfg.is_new_pattern:\n"
           "            vinfo1 = v1version.parse_version_info(new_version, cfg.version_pattern)\n"
           "            v1rewrite.rewrite_files(cfg.file_patterns, vinfo1)\n"
           "        else:\n"
           "            vinfo2 = v2version.parse_version_info(new_version, cfg.version_pattern)\n"
           "            v2rewrite.rewrite_files(cfg.file_patterns, vinfo2)\n")])
exp("update", "cli._update", C, "harmless", "early return without a VCS after the rewrite; locals renamed",
    COMMIT, "    if vcs_api is None:\n        return\n    vcs.commit(cfg, vcs_api, filepaths, new_version, commit_message, tag_message)\n")
exp("update", "cli._update", C, "harmless", "probe in a local helper variable, keyword arguments",
    "        vcs.assert_not_dirty(vcs_api, filepaths, allow_dirty)",
    "        vcs.assert_not_dirty(vcs_api=vcs_api, filepaths=filepaths, allow_dirty=allow_dirty)")
exp("update", "cli._try_update", C, "harmless", "handler: output first, keyword call",
    "        _update(cfg, new_version, commit_message, tag_message, allow_dirty)",
    "        _update(cfg, new_version, commit_message, tag_message, allow_dirty=allow_dirty)")


def run(cmd, **kw):
    return subprocess.run(cmd, stdout=subprocess.PIPE, stderr=subprocess.STDOUT, text=True, **kw)


def write_gen(files):
    changed = []
    for name, content in files.items():
        path = os.path.join(GEN, name)
        old = open(path, encoding="utf-8").read() if os.path.exists(path) else None
        if old != content:
            with open(path, "w", encoding="utf-8") as f:
                f.write(content)
            changed.append(name)
    return changed


# seeded changes of /verif/seeded that touch the translated functions (kind as expected from their notes)
SEEDED = [
    ("C10-post-hook-in-finally", "break"), ("C01-fetch-error-swallowed-as-no-vcs", "break"),
    ("C08-stage-status-files", "break"), ("C08-git-dir-must-be-directory", "break"),
    ("C09-git-file-not-usable", "break"), ("C11-dirty-list-capped-at-ten", "break"),
    ("C11-two-letter-status-codes", "break"), ("C11-whole-output-strip", "break"),
    ("C12-annotated-tag-falls-back", "break"), ("C12-backslash-path-normalised", "break"),
    ("_harmless-refactor", "harmless"),
]
# independent behaviour-preserving refactorings of ~45 functions each (written outside /verif); used when the files exist
EXTERNAL_PATCHES = [("/tmp/proofwork/harmless1.diff", "harmless"), ("/tmp/proofwork/harmless2.diff", "harmless"),
                    ("/tmp/proofwork/harmless3.diff", "harmless")]


def main():
    only = set(sys.argv[1:])
    import translate_effects
    results = []
    out_lines = []
    todo = list(E)
    if "seeded" in only or not only:
        for name, kind in SEEDED:
            todo.append(dict(group="seeded", func="seeded/" + name, file=None, kind=kind, label="patch.diff of the seeded change",
                             patch=os.path.join(VERIF, "seeded", name, "patch.diff"), edits=[]))
        for path, kind in EXTERNAL_PATCHES:
            if os.path.exists(path):
                todo.append(dict(group="seeded", func=os.path.basename(path), file=None, kind=kind,
                                 label="whole refactoring patch", patch=path, edits=[]))
    for e in todo:
        if only and e["group"] not in only and e["func"] not in only:
            continue
        t0 = time.time()
        if os.path.exists(SCRATCH):
            shutil.rmtree(SCRATCH)
        shutil.copytree("/repo/src", os.path.join(SCRATCH, "src"))
        if e.get("patch"):
            pr = run(["patch", "-p1", "--no-backup-if-mismatch", "-d", SCRATCH, "-i", e["patch"]])
            if pr.returncode != 0:
                line = "%-22s %-9s the patch does not apply to the current tree: skipped" % (e["func"], e["kind"])
                print(line, flush=True)
                out_lines.append(line)
                continue
        else:
            path = os.path.join(SCRATCH, "src", "bumpver", e["file"])
            src = open(path, encoding="utf-8").read()
            bad = False
            for old, new in e["edits"]:
                if src.count(old) != 1:
                    print("!! edit text occurs %d times in %s: %r" % (src.count(old), e["file"], old[:80]))
                    bad = True
                    break
                src = src.replace(old, new)
            if bad:
                continue
            open(path, "w", encoding="utf-8").write(src)
            # the edited source must still be valid Python
            c = run(["/venv/bin/python", "-m", "py_compile", path])
            if c.returncode != 0:
                print("!! edited source does not compile: %s\n%s" % (e["label"], c.stdout))
                continue
        os.environ["VERIF_REPO"] = SCRATCH
        rep = []
        files = translate_effects.generate(rep)
        del os.environ["VERIF_REPO"]
        errs = [(f, x) for f, _n, x in rep if x is not None]
        changed = write_gen(files)
        b = run(["timeout", "900", "lake", "build"] + TIES, cwd=LEAN)
        ok = b.returncode == 0
        if ok:
            outcome = "all ties build"
        else:
            failed = re.findall(r"^✖ \[\d+/\d+\] Building (\S+)", b.stdout, re.M)
            first = [ln for ln in b.stdout.splitlines() if "error" in ln][:1]
            outcome = "BREAKS %s" % ", ".join(m.replace("BumpverVerif.", "") for m in failed) if failed else \
                "build fails: %s" % (first[0][:100] if first else "rc=%d" % b.returncode)
            if first:
                m = re.search(r"(\d+:\d+: error.*)", first[0])
                outcome += " {%s}" % (m.group(1)[:70] if m else first[0][-70:])
        if errs:
            outcome = "UNTRANSLATABLE %s (%s); %s" % (errs[0][0], getattr(errs[0][1], "reason", str(errs[0][1]))[:90], outcome[:50])
        verdict = "as intended" if ok == (e["kind"] == "harmless") else "** NOT as intended **"
        results.append((e, outcome, verdict))
        line = "%-22s %-9s %-82s -> %s [%s] (%.0fs; regenerated: %s)" % (
            e["func"], e["kind"], e["label"], outcome, verdict, time.time() - t0, ",".join(n[2:-5] for n in changed) or "-")
        print(line, flush=True)
        out_lines.append(line)
    # restore
    shutil.rmtree(SCRATCH, ignore_errors=True)
    rep = []
    files = translate_effects.generate(rep)
    write_gen(files)
    b = run(["timeout", "1800", "lake", "build"] + TIES, cwd=LEAN)
    print("restore build:", "ok" if b.returncode == 0 else b.stdout[-2000:])
    nb = sum(1 for e, _, _ in results if e["kind"] == "break")
    nh = sum(1 for e, _, _ in results if e["kind"] == "harmless")
    okb = sum(1 for e, _, v in results if e["kind"] == "break" and v == "as intended")
    okh = sum(1 for e, _, v in results if e["kind"] == "harmless" and v == "as intended")
    summary = "SUMMARY: %d/%d breaking edits break a tie or leave the subset; %d/%d harmless rewrites still prove" % (okb, nb, okh, nh)
    print(summary)
    out_lines.append(summary)
    if not only:
        with open(os.path.join(HERE, "effect_tie_experiments.out.txt"), "w", encoding="utf-8") as f:
            f.write("\n".join(out_lines) + "\n")
    return 0


if __name__ == "__main__":
    sys.exit(main())
