"""End-to-end correspondence of the composed LEGACY update model (Model/UpdateV1.lean, op update_full_v1) with the real CLI.

Usage:  /venv/bin/python harness/dev/updfull_v1_experiment.py [N] [SEED]     (driver must contain handleUpdateV1)

Generates small projects with a LEGACY (`{…}`) version pattern, runs the real `bumpver update` through props/updfull.run_one (real files, fake
git with tag / status listings and a failure position, hooks, the flag/config lattice, --dry / --set-version / --ignore-vcs-tag / --tag-scope)
and the op `update_full_v1` on the same scenario; compares exit code, ordered event trace and file contents afterwards."""
import os, sys, json, random, subprocess, datetime as dt
HERE = os.path.dirname(os.path.abspath(__file__))
sys.path.insert(0, os.path.dirname(HERE))
import props.updfull as updfull
from bumpver import v1version, v1patterns

DRIVER = os.path.join(os.path.dirname(os.path.dirname(HERE)), "lean", ".lake", "build", "bin", "driver")
DATE = [2026, 9, 29]

PATTERNS = [
    ("{semver}", ["1.2.3", "0.9.12", "10.0.0"], True),
    ("{MAJOR}.{MINOR}.{PATCH}", ["1.2.3", "0.0.9"], True),
    ("v{MAJOR}.{MINOR}", ["v1.2", "v0.19"], True),
    ("{pycalver}", ["v202001.0033-beta", "v201812.0999", "v202609.1000"], False),
    ("v{year}{month}{build}{release}", ["v202001.0033-beta", "v201812.0999"], False),
    ("{year}.{month}.{MINOR}", ["2020.01.3", "2026.09.0"], False),
    ("{year}.{BID}", ["2020.33", "2026.1001"], False),
    ("rel-{MAJOR}-{year}", ["rel-3-2020"], True),
    ("{x}MAJOR", ["{x}MAJOR"], True),            # a brace but no legacy part: incr_dispatch hands it to v2version.incr
    ("{{MAJOR}}", ["{4}", "{12}"], True),
]
RAWS = ["{version}", 'version = "{version}"', "ver: {version} and {version}", "{pep440_version}", "img-{version}.png", "see {MAJOR}.{MINOR}", "({year})"]


def render(vp, raw, vstr):
    pat = v1patterns.compile_pattern(vp, raw)
    return v1version.format_version(v1version.parse_version_info(vstr, vp), pat.raw_pattern)


def gen_project(rng):
    for _ in range(100):
        vp, olds, needs_flag = rng.choice(PATTERNS)
        old = rng.choice(olds)
        flags = {"major": False, "minor": False, "patch": False}
        if needs_flag or rng.random() < 0.3:
            if rng.random() < 0.9:
                flags[rng.choice(["major", "minor", "patch"])] = True
        files, fps = {}, []
        ok = True
        for i in range(rng.randint(0, 3)):
            name = "f%d.txt" % i
            pairs, lines = [], []
            for raw in rng.sample(RAWS, rng.randint(1, 3)):
                try:
                    txt = render(vp, raw, old)
                except Exception:
                    continue
                pairs.append([vp, raw])
                lines.append(rng.choice(["", "x = "]) + txt + rng.choice(["", " # c"]))
            if not pairs:
                continue
            if rng.random() < 0.3:
                lines.append("no version here")
            sep = rng.choice(["\n", "\n", "\r\n"])
            files[name] = sep.join(lines) + rng.choice(["", sep])
            fps.append([name, pairs])
        try:
            new = v1version.incr(old, raw_pattern=vp, maybe_date=dt.date(*DATE), **flags)
        except Exception:
            new = None
        return {"vp": vp, "old": old, "new": new or old + "9", "files": files, "file_patterns": fps, "flags": flags, "date": DATE}


def gen_tags(rng, pr):
    vp = pr["vp"]
    cands = [pr["old"], pr["new"], "junk", "v1", "1.2.3", "9.9.9", "v202712.2000", "v209901.0001", "2031.01.7", "2027.4000"]
    for vp2, olds, _ in PATTERNS:
        if vp2 == vp:
            cands += olds
    return rng.sample(cands, rng.randint(0, min(5, len(cands))))


def gen_scenario(rng):
    pr = gen_project(rng)
    tri = lambda: rng.choice([None, None, True, False])
    hook = lambda: rng.choice(["absent", "absent", "ok", "fail"])
    tags = gen_tags(rng, pr) if rng.random() < 0.5 else []
    sc = {
        "cfg_commit": rng.random() < 0.8, "cfg_tag": rng.random() < 0.5, "cfg_push": rng.random() < 0.4,
        "commit": tri(), "tag_commit": tri(), "push": tri(),
        "pre": hook(), "post": hook(), "pre_via_cli": rng.random() < 0.3, "post_via_cli": rng.random() < 0.3,
        "cfg_scope": rng.choice(["default", "default", "global", "branch"]), "cli_scope": rng.choice([None, None, None, "default", "global", "branch"]),
        "tag_msg_empty": rng.random() < 0.3,
        "dry": rng.random() < 0.25, "fetch": rng.random() < 0.4, "ignore_vcs_tag": rng.random() < 0.2,
        "vcs_present": rng.random() < 0.9, "remote": rng.choice(["branch", "url", "none"]),
        "fail_at": rng.choice([None, None, None] + list(range(0, 14))),
        "allow_dirty": rng.random() < 0.5,
        "tags": tags, "branch_tags": sorted(rng.sample(tags, rng.randint(0, len(tags)))) if tags else [],
    }
    if not sc["cfg_commit"]:
        sc["cfg_tag"] = sc["cfg_push"] = False
    names = ["bumpver.toml"] + list(pr["files"])
    r = rng.random()
    if r < 0.6:
        sc["status"] = []
    elif r < 0.75:
        sc["status"] = [" M unrelated.txt"]
    elif r < 0.9:
        sc["status"] = [rng.choice([" M ", "M  ", "MM ", "A  ", "?? ", " D "]) + rng.choice(names)]
    else:
        sc["status"] = [" M unrelated.txt", rng.choice(["?? ", " M "]) + rng.choice(names), "?? zz.txt"]
    r = rng.random()
    if r < 0.6:
        sc["set_version"] = None
    elif r < 0.75:
        sc["set_version"] = pr["new"]
    elif r < 0.85:
        sc["set_version"] = pr["new"].replace(".", ".0", 1)      # maybe accepted, not how the pattern renders it
    elif r < 0.92:
        sc["set_version"] = pr["old"]
    else:
        sc["set_version"] = rng.choice(["junk", pr["new"] + "x", ""])
    sc["fault"] = None
    if pr["files"] and rng.random() < 0.25:
        sc["fault"] = [rng.choice(["remove", "blank", "empty"]), rng.choice(list(pr["files"])), None]
    return pr, sc


def main():
    n = int(sys.argv[1]) if len(sys.argv) > 1 else 100
    seed = int(sys.argv[2]) if len(sys.argv) > 2 else 1
    rng = random.Random(seed)
    ops, ress, meta = [], [], []
    for _ in range(n):
        pr, sc = gen_scenario(rng)
        op, res, obs = updfull.run_one(pr, sc)
        if op is None:
            continue
        op["op"] = "update_full_v1"
        ops.append(op); ress.append(res); meta.append((pr, sc, obs))
    inp = "".join(json.dumps(o) + "\n" for o in ops)
    out = subprocess.run([DRIVER], input=inp, capture_output=True, text=True, timeout=3600)
    outs = [json.loads(l) for l in out.stdout.splitlines()]
    assert len(outs) == len(ops), (len(outs), len(ops), out.stderr[:500])
    agree = unsup = bad = rewrites = 0
    for op, res, (pr, sc, obs), r in zip(ops, ress, meta, outs):
        if "unsupported" in r:
            unsup += 1
            continue
        if "driver_error" in r:
            bad += 1
            print("DRIVER ERROR", r, json.dumps(op)[:300])
            continue
        if r.get("files") == op["files"]:
            r["trace"] = [e for e in r["trace"] if e != "rewrite"]
        rr = {"trace": ["add" if e.startswith("add") and e != "add" else e for e in r["trace"]], "exit": r["exit"], "files": r["files"]}
        if "rewrite" in res["trace"]:
            rewrites += 1
        if rr == res:
            agree += 1
        else:
            bad += 1
            print("DISAGREE vp=%r old=%r args=%r\n  impl : %s\n  model: %s\n  exc=%r tags=%r fault=%r" % (
                pr["vp"], pr["old"], obs["args"], json.dumps(res), json.dumps(rr), obs["exc"], sc["tags"], sc["fault"]))
    print("scenarios %d: agree %d, unsupported %d, DISAGREE %d; implementation rewrote in %d" % (len(ops), agree, unsup, bad, rewrites))
    return 1 if bad else 0


if __name__ == "__main__":
    sys.exit(main())
