"""dev: differential test of Model/Regex + Model/V2Patterns against the real code"""
import sys, os, json, random, subprocess
sys.path.insert(0, os.path.dirname(os.path.dirname(os.path.abspath(__file__))))
import impl_adapter as impl, gen
from common import Driver, canon
rng = random.Random(int(sys.argv[1]) if len(sys.argv) > 1 else 1)
N = int(sys.argv[2]) if len(sys.argv) > 2 else 3000
ops = []
for _ in range(N):
    pat = gen.gen_any_pattern(rng)
    d = gen.gen_date(rng)
    st = {"date": [d.year, d.month, d.day], "major": gen.gen_nat(rng), "minor": gen.gen_nat(rng), "patch": gen.gen_nat(rng),
          "bid": gen.gen_bid(rng), "tag": rng.choice(gen.TAGS), "num": gen.gen_nat(rng), "inc0": gen.gen_nat(rng), "inc1": max(1, gen.gen_nat(rng))}
    ops.append({"op": "compile_str", "pattern": pat})
    f = impl.format_version(st, pat)
    if "ok" in f:
        v = f["ok"]
        ops.append({"op": "compile_search", "pattern": pat, "line": gen.surround(rng, v)})
        ops.append({"op": "compile_match", "pattern": pat, "line": v})
        if v:
            i = rng.randrange(len(v))
            ops.append({"op": "compile_search", "pattern": pat, "line": gen.surround(rng, v[:i] + rng.choice("09a.-x") + v[i + 1:])})
    raw = rng.choice(["{version}", "{pep440_version}", 'x = "{version}" # {pep440_version}', pat])
    ops.append({"op": "normalize", "version_pattern": pat, "raw_pattern": raw})
    ops.append({"op": "to_pep440_pattern", "version_pattern": pat})
def run_impl(o):
    k = o["op"]
    if k == "compile_str": return impl.compile_str(o["pattern"])
    if k == "compile_search": return impl.compile_search(o["pattern"], o["line"])
    if k == "compile_match": return impl.compile_search(o["pattern"], o["line"], "match")
    if k == "normalize": return impl.normalize(o["version_pattern"], o["raw_pattern"])
    if k == "to_pep440_pattern": return impl.to_pep440_pattern(o["version_pattern"])
outs = Driver().run(ops)
bad = uns = 0
kinds = {}
for o, m in zip(ops, outs):
    a = run_impl(o)
    if "unsupported" in m:
        uns += 1; continue
    if canon(a) != canon(m):
        bad += 1
        kinds[o["op"]] = kinds.get(o["op"], 0) + 1
        if bad <= 12:
            print(json.dumps(o)); print("  impl ", a); print("  model", m)
print("ops", len(ops), "bad", bad, kinds, "unsupported", uns)
