#!/venv/bin/python
"""Robustness demonstration for harness/translate_funcs.py + Proofs/Tie_<name>.lean.

For every experiment: copy /repo/src to a scratch tree, apply ONE textual edit to the Python source,
run the function translator with VERIF_REPO pointing at the scratch tree, write the regenerated
Gen/F_<name>.lean, rebuild that module and type-check Proofs/Tie_<name>.lean.

  kind 'break'   : a plausible semantic one-token edit  -> the tie must NO LONGER compile
  kind 'harmless': a semantics-preserving rewrite        -> the tie should still compile

Afterwards the generated files are restored from the unmodified /repo and the scratch tree removed.
Usage: /venv/bin/python harness/dev/tie_experiments.py [name ...]
"""
import os
import shutil
import subprocess
import sys

HERE = os.path.dirname(os.path.abspath(__file__))
HARNESS = os.path.dirname(HERE)
VERIF = os.path.dirname(HARNESS)
LEAN = os.path.join(VERIF, "lean")
GEN = os.path.join(LEAN, "BumpverVerif", "Gen")
SCRATCH = os.path.join(VERIF, "scratch_repo")
sys.path.insert(0, HARNESS)

E = []


def exp(name, file, kind, label, old, new):
    E.append(dict(name=name, file=file, kind=kind, label=label, old=old, new=new))


# ---- _has_overlap ---------------------------------------------------------------------------
exp("hasOverlap", "parse.py", "break", "`needle.start <= span.end` -> `<`",
    "and needle.start <= span.end", "and needle.start < span.end")
exp("hasOverlap", "parse.py", "break", "`needle.end >= span.start` -> `>`",
    "and needle.end >= span.start", "and needle.end > span.start")
exp("hasOverlap", "parse.py", "break", "lineno conjunct dropped",
    "            span.lineno == needle.lineno\n            # needle starts before (or at) span end\n            and needle.start <= span.end",
    "            needle.start <= span.end")
exp("hasOverlap", "parse.py", "break", "`span.end` -> `span.start`",
    "and needle.start <= span.end", "and needle.start <= span.start")
exp("hasOverlap", "parse.py", "harmless", "local renamed",
    "        has_overlap = (", "        ov = (")
E[-1]["also"] = [("        if has_overlap:\n            return True", "        if ov:\n            return True")]
exp("hasOverlap", "parse.py", "harmless", "conjuncts reordered, operands flipped",
    "            and needle.start <= span.end\n            # needle ends after (or at) span start\n            and needle.end >= span.start",
    "            and span.start <= needle.end\n            and span.end >= needle.start")
exp("hasOverlap", "parse.py", "harmless", "docstring + comment added",
    "    for span in haystack:\n        # assume needle",
    "    \"\"\"Does needle touch any span of haystack.\"\"\"\n    # loop\n    for span in haystack:\n        # assume needle")

# ---- detect_line_sep --------------------------------------------------------------------------
exp("detectLineSep", "rewrite.py", "break", "elif order swapped (`\\r` tested first)",
    "    if \"\\r\\n\" in content:\n        return \"\\r\\n\"\n    elif \"\\r\" in content:\n        return \"\\r\"",
    "    if \"\\r\" in content:\n        return \"\\r\"\n    elif \"\\r\\n\" in content:\n        return \"\\r\\n\"")
exp("detectLineSep", "rewrite.py", "break", "`\"\\r\" in content` -> `\"\\n\" in content`",
    "    elif \"\\r\" in content:", "    elif \"\\n\" in content:")
exp("detectLineSep", "rewrite.py", "break", "`in` -> `not in`",
    "    if \"\\r\\n\" in content:", "    if \"\\r\\n\" not in content:")
exp("detectLineSep", "rewrite.py", "harmless", "elif -> nested else: if",
    "    elif \"\\r\" in content:\n        return \"\\r\"\n    else:\n        return \"\\n\"",
    "    else:\n        if \"\\r\" in content:\n            return \"\\r\"\n        else:\n            return \"\\n\"")
exp("detectLineSep", "rewrite.py", "harmless", "else dropped, fall-through return; local introduced",
    "    elif \"\\r\" in content:\n        return \"\\r\"\n    else:\n        return \"\\n\"",
    "    has_cr = \"\\r\" in content\n    if has_cr:\n        return \"\\r\"\n    return \"\\n\"")
exp("detectLineSep", "rewrite.py", "harmless", "negated test, branches exchanged",
    "    elif \"\\r\" in content:\n        return \"\\r\"\n    else:\n        return \"\\n\"",
    "    elif \"\\r\" not in content:\n        return \"\\n\"\n    else:\n        return \"\\r\"")

# ---- quarter_from_month ------------------------------------------------------------------------
exp("quarterFromMonth", "version.py", "break", "`month - 1` -> `month`",
    "    return ((month - 1) // 3) + 1", "    return ((month) // 3) + 1")
exp("quarterFromMonth", "version.py", "break", "`// 3` -> `// 4`",
    "    return ((month - 1) // 3) + 1", "    return ((month - 1) // 4) + 1")
exp("quarterFromMonth", "version.py", "break", "`+ 1` -> `+ 0`",
    "    return ((month - 1) // 3) + 1", "    return ((month - 1) // 3) + 0")
exp("quarterFromMonth", "version.py", "harmless", "local + commuted sum",
    "    return ((month - 1) // 3) + 1", "    q0 = (month - 1) // 3\n    return 1 + q0")
exp("quarterFromMonth", "version.py", "harmless", "`(month + 2) // 3`",
    "    return ((month - 1) // 3) + 1", "    return (month + 2) // 3")

# ---- _is_cal_gt -----------------------------------------------------------------------------------
exp("isCalGt", "v2version.py", "break", "`lvals > rvals` -> `>=`",
    "    return lvals > rvals", "    return lvals >= rvals")
exp("isCalGt", "v2version.py", "break", "`is None` test -> truthiness",
    "        if not (lval is None or rval is None):", "        if lval and rval:")
exp("isCalGt", "v2version.py", "break", "`or` -> `and`",
    "        if not (lval is None or rval is None):", "        if not (lval is None and rval is None):")
exp("isCalGt", "v2version.py", "break", "`rvals.append(rval)` -> `rvals.append(lval)`",
    "            rvals.append(rval)", "            rvals.append(lval)")
exp("isCalGt", "v2version.py", "break", "operands of the final comparison swapped",
    "    return lvals > rvals", "    return rvals > lvals")
exp("isCalGt", "v2version.py", "harmless", "De Morgan + locals renamed",
    "        lval = getattr(left , field)\n        rval = getattr(right, field)\n        if not (lval is None or rval is None):\n            lvals.append(lval)\n            rvals.append(rval)",
    "        a = getattr(left , field)\n        b = getattr(right, field)\n        if a is not None and b is not None:\n            rvals.append(b)\n            lvals.append(a)")
exp("isCalGt", "v2version.py", "harmless", "`rvals < lvals`, nested ifs",
    "        if not (lval is None or rval is None):\n            lvals.append(lval)\n            rvals.append(rval)\n\n    return lvals > rvals",
    "        if lval is not None:\n            if rval is not None:\n                lvals.append(lval)\n                rvals.append(rval)\n\n    return rvals < lvals")
exp("isCalGt", "v2version.py", "harmless", "`continue` form (outside the subset)",
    "        if not (lval is None or rval is None):\n            lvals.append(lval)\n            rvals.append(rval)",
    "        if lval is None or rval is None:\n            continue\n        lvals.append(lval)\n        rvals.append(rval)")

# ---- is_valid_week_pattern -----------------------------------------------------------------------
exp("isValidWeekPattern", "v2version.py", "break", "`\"0G\"` dropped from the list",
    "[\"GGGG\", \"GG\", \"0G\"]", "[\"GGGG\", \"GG\"]")
exp("isValidWeekPattern", "v2version.py", "break", "`and` -> `or`",
    "    if has_yy_part and has_vv_part:", "    if has_yy_part or has_vv_part:")
exp("isValidWeekPattern", "v2version.py", "break", "`has_gg_part and has_ww_part` -> `has_gg_part and has_vv_part`",
    "    elif has_gg_part and has_ww_part:", "    elif has_gg_part and has_vv_part:")
exp("isValidWeekPattern", "v2version.py", "break", "`\"UU\"` -> `\"U\"`",
    "[\"WW\"  , \"0W\", \"UU\", \"0U\"]", "[\"WW\"  , \"0W\", \"U\", \"0U\"]")
exp("isValidWeekPattern", "v2version.py", "harmless", "literals reordered, conjuncts commuted, elif -> else: if",
    "    has_yy_part = any(part in raw_pattern for part in [\"YYYY\", \"YY\", \"0Y\"])",
    "    has_yy_part = any(p in raw_pattern for p in [\"0Y\", \"YYYY\", \"YY\"])")
E[-1]["also"] = [("    if has_yy_part and has_vv_part:", "    if has_vv_part and has_yy_part:")]
exp("isValidWeekPattern", "v2version.py", "harmless", "final else dropped (fall-through return)",
    "    else:\n        return True\n\n\ndef incr(",
    "    return True\n\n\ndef incr(")

# ---- _ver_to_cal_info -------------------------------------------------------------------------------
exp("verToCalInfo", "v2version.py", "break", "`vinfo.year_y is None` -> `not vinfo.year_y` (C05 defect)",
    "        defaults.year_y if vinfo.year_y is None else vinfo.year_y,",
    "        defaults.year_y if not vinfo.year_y else vinfo.year_y,")
exp("verToCalInfo", "v2version.py", "break", "`defaults.week_u` -> `defaults.week_w`",
    "        defaults.week_u if vinfo.week_u is None else vinfo.week_u,",
    "        defaults.week_w if vinfo.week_u is None else vinfo.week_u,")
exp("verToCalInfo", "v2version.py", "break", "two constructor arguments exchanged",
    "        defaults.month if vinfo.month is None else vinfo.month,\n        defaults.dom if vinfo.dom is None else vinfo.dom,",
    "        defaults.dom if vinfo.dom is None else vinfo.dom,\n        defaults.month if vinfo.month is None else vinfo.month,")
exp("verToCalInfo", "v2version.py", "harmless", "`is not None` with exchanged branches, local renamed",
    "        defaults.year_y if vinfo.year_y is None else vinfo.year_y,",
    "        vinfo.year_y if vinfo.year_y is not None else defaults.year_y,")
E[-1]["also"] = [("        defaults.doy if vinfo.doy is None else vinfo.doy,", "        vinfo.doy if not (vinfo.doy is None) else defaults.doy,")]
FIELDS9 = ["year_y", "year_g", "quarter", "month", "dom", "doy", "week_w", "week_u", "week_v"]
exp("verToCalInfo", "v2version.py", "harmless", "keyword arguments in another order, local renamed",
    "".join("        defaults.%s if vinfo.%s is None else vinfo.%s,\n" % (f, f, f) for f in FIELDS9),
    "".join("        %s=dflts.%s if vinfo.%s is None else vinfo.%s,\n" % (f, f, f, f) for f in reversed(FIELDS9)))
E[-1]["also"] = [("    defaults = cal_info(version.TODAY)", "    dflts = cal_info(version.TODAY)")]

# ---- _parse_vcs_options --------------------------------------------------------------------------------
exp("parseVcsOptions", "cli.py", "break", "`tag_commit` (truthy) -> `tag_commit is not None`",
    "    if commit is False and tag_commit:", "    if commit is False and tag_commit is not None:")
exp("parseVcsOptions", "cli.py", "break", "`not cfg.commit and push` -> `cfg.commit and push`",
    "    if not cfg.commit and push:", "    if cfg.commit and push:")
exp("parseVcsOptions", "cli.py", "break", "`if push is not None` -> `if push` (--no-push ignored)",
    "    if push is not None:\n        cfg = cfg._replace(push=push)", "    if push:\n        cfg = cfg._replace(push=push)")
exp("parseVcsOptions", "cli.py", "break", "`tag=tag_commit` -> `tag=push`",
    "        cfg = cfg._replace(tag=tag_commit)", "        cfg = cfg._replace(tag=push)")
exp("parseVcsOptions", "cli.py", "break", "commit override applied AFTER the --tag-commit/--push checks",
    "    if commit is not None:\n        cfg = cfg._replace(commit=commit)\n\n    if not cfg.commit and tag_commit:\n        raise ValueError(\"--tag-commit requires either --commit or commit=True in your config\")\n    if not cfg.commit and push:\n        raise ValueError(\"--push requires either --commit or commit=True in your config\")\n",
    "    if not cfg.commit and tag_commit:\n        raise ValueError(\"--tag-commit requires either --commit or commit=True in your config\")\n    if not cfg.commit and push:\n        raise ValueError(\"--push requires either --commit or commit=True in your config\")\n\n    if commit is not None:\n        cfg = cfg._replace(commit=commit)\n")
exp("parseVcsOptions", "cli.py", "break", "`commit is False` -> `not commit`",
    "    if commit is False and push:", "    if not commit and push:")
exp("parseVcsOptions", "cli.py", "harmless", "conjuncts commuted; independent _replace blocks reordered",
    "    if commit is False and tag_commit:", "    if tag_commit and commit is False:")
E[-1]["also"] = [(
    "    if tag_commit is not None:\n        cfg = cfg._replace(tag=tag_commit)\n    if push is not None:\n        cfg = cfg._replace(push=push)\n",
    "    if push is not None:\n        cfg = cfg._replace(push=push)\n    if tag_commit is not None:\n        cfg = cfg._replace(tag=tag_commit)\n")]
exp("parseVcsOptions", "cli.py", "harmless", "two raises merged into one `or` test; `is None` with else",
    "    if commit is False and tag_commit:\n        raise ValueError(\"--no-commit and --tag-commit cannot be used at the same time\")\n    if commit is False and push:\n        raise ValueError(\"--no-commit and --push cannot be used at the same time\")\n",
    "    if commit is False and (tag_commit or push):\n        raise ValueError(\"--no-commit cannot be used with --tag-commit / --push\")\n")
E[-1]["also"] = [("    if commit is not None:\n        cfg = cfg._replace(commit=commit)\n",
                  "    if commit is None:\n        pass\n    else:\n        cfg = cfg._replace(commit=commit)\n")]

# ---- _parse_letter_version ---------------------------------------------------------------------------------
F65 = "setuptools_v65_version.py"
exp("parseLetterVersion", F65, "break", "`\"preview\"` dropped",
    "        elif letter in [\"c\", \"pre\", \"preview\"]:", "        elif letter in [\"c\", \"pre\"]:")
exp("parseLetterVersion", F65, "break", "implicit number 0 -> 1",
    "            number = 0", "            number = 1")
exp("parseLetterVersion", F65, "break", "`.lower()` dropped",
    "        letter = letter.lower()", "        letter = letter")
exp("parseLetterVersion", F65, "break", "`rev`/`r` normalised to \"rev\"",
    "            letter = \"post\"\n\n        return letter, int(number)\n    if not letter and number:",
    "            letter = \"rev\"\n\n        return letter, int(number)\n    if not letter and number:")
exp("parseLetterVersion", F65, "break", "`==` -> `!=`",
    "        elif letter == 'beta':", "        elif letter != 'beta':")
exp("parseLetterVersion", F65, "harmless", "elif branches reordered, list reordered, comment",
    "        if letter == 'alpha':\n            letter = \"a\"\n        elif letter == 'beta':\n            letter = \"b\"\n        elif letter in [\"c\", \"pre\", \"preview\"]:",
    "        # spellings\n        if letter == 'beta':\n            letter = \"b\"\n        elif letter == 'alpha':\n            letter = \"a\"\n        elif letter in [\"preview\", \"c\", \"pre\"]:")
exp("parseLetterVersion", F65, "harmless", "`if not letter and number` -> `if number and not letter`; `in [..]` -> `==` chain",
    "    if not letter and number:", "    if number and not letter:")
E[-1]["also"] = [("        elif letter in [\"rev\", \"r\"]:", "        elif letter == \"rev\" or letter == \"r\":")]


def run(cmd, **kw):
    return subprocess.run(cmd, stdout=subprocess.PIPE, stderr=subprocess.STDOUT, text=True, **kw)


def main():
    only = set(sys.argv[1:])
    import translate_funcs
    results = []
    for e in E:
        if only and e["name"] not in only:
            continue
        if os.path.exists(SCRATCH):
            shutil.rmtree(SCRATCH)
        shutil.copytree("/repo/src", os.path.join(SCRATCH, "src"))
        path = os.path.join(SCRATCH, "src", "bumpver", e["file"])
        src = open(path, encoding="utf-8").read()
        for old, new in [(e["old"], e["new"])] + e.get("also", []):
            if src.count(old) != 1:
                print("!! edit text occurs %d times: %r" % (src.count(old), old))
                return 2
            src = src.replace(old, new)
        open(path, "w", encoding="utf-8").write(src)
        os.environ["VERIF_REPO"] = SCRATCH
        rep = []
        files = translate_funcs.generate(rep)
        del os.environ["VERIF_REPO"]
        fname = "F_%s.lean" % e["name"]
        err = [x for x in rep if x[1] == fname][0][2]
        open(os.path.join(GEN, fname), "w", encoding="utf-8").write(files[fname])
        b = run(["timeout", "600", "lake", "build", "BumpverVerif.Gen.F_%s" % e["name"]], cwd=LEAN)
        if b.returncode != 0:
            outcome = "generated file does not compile"
            ok = False
        else:
            t = run(["timeout", "300", "lake", "env", "lean", "BumpverVerif/Proofs/Tie_%s.lean" % e["name"]], cwd=LEAN)
            ok = t.returncode == 0 and "error" not in t.stdout
            if ok:
                outcome = "Tie_%s.lean compiles" % e["name"]
            else:
                first = [ln for ln in t.stdout.splitlines() if "error" in ln][:1]
                outcome = "Tie_%s.lean FAILS: %s" % (e["name"], (first[0] if first else "rc=%d" % t.returncode)[:110])
        if err is not None:
            outcome = "UNTRANSLATABLE (%s); %s" % (err.reason, outcome[:60])
        verdict = "as intended" if ok == (e["kind"] == "harmless") else "** NOT as intended **"
        results.append((e, outcome, verdict))
        print("%-20s %-9s %-70s -> %s [%s]" % (e["name"], e["kind"], e["label"], outcome, verdict), flush=True)
    # restore
    shutil.rmtree(SCRATCH, ignore_errors=True)
    r = run(["/venv/bin/python", os.path.join(HARNESS, "translate.py")])
    print(r.stdout.strip())
    mods = sorted({"BumpverVerif.Proofs.Tie_%s" % e["name"] for e, _, _ in results})
    if mods:
        b = run(["timeout", "1200", "lake", "build"] + mods, cwd=LEAN)
        print("restore build:", "ok" if b.returncode == 0 else b.stdout[-2000:])
    return 0


if __name__ == "__main__":
    sys.exit(main())
