#!/venv/bin/python
"""Robustness demonstration for harness/translate_pepversion.py + Proofs/Tie_pep*.lean (the PEP 440 version classes of
`setuptools_v65_version.py`, `version.parse_version`, `version.to_pep440`).

For every experiment: copy /repo/src to a scratch tree, apply ONE textual edit to the Python source, run the translators
(translate_pepversion, and translate_funcs / translate_cli for the two callees `_parse_letter_version` / `_cmpkey` they
own) with VERIF_REPO pointing at the scratch tree, write the regenerated Gen files that changed and `lake build` the tie
module of the edited function (lake rebuilds the changed Gen files it depends on).

  kind 'break'   : a plausible semantic one-token edit  -> the tie must NO LONGER build
                   (or the function leaves the subset: UNTRANSLATABLE, the tie cannot build either)
  kind 'harmless': a behaviour-preserving rewrite        -> the tie must still build

With directories as arguments after `--patched` the script instead regenerates from each of these whole-file refactored
source trees (<dir>/src/bumpver) and builds ALL tie modules of the group (everything must translate and prove).
Afterwards the generated files are restored from the unmodified /repo.
Usage: /venv/bin/python harness/dev/pepversion_tie_experiments.py [tie-module-suffix ...]
       /venv/bin/python harness/dev/pepversion_tie_experiments.py --patched DIR [DIR ...]
(output: pepversion_tie_experiments.out.txt)
"""
import os
import shutil
import subprocess
import sys

HERE = os.path.dirname(os.path.abspath(__file__))
HARNESS = os.path.dirname(HERE)
VERIF = os.path.dirname(HARNESS)
LEAN = os.path.join(VERIF, "lean")
GEN = os.path.join(LEAN, "BumpverVerif", "Gen")
SCRATCH = os.environ.get("VERIF_EXP_SCRATCH", os.path.join(VERIF, "scratch_repo_pep"))
sys.path.insert(0, HARNESS)

ALL_MODULES = ["BumpverVerif.Proofs.Tie_pepParseLocalVersion", "BumpverVerif.Proofs.Tie_pepVersionInit",
               "BumpverVerif.Proofs.Tie_pepVersionStr", "BumpverVerif.Proofs.Tie_pepLegacy",
               "BumpverVerif.Proofs.Tie_pepParse", "BumpverVerif.Proofs.TieQ_Groups",
               "BumpverVerif.Proofs.TieQ_Source", "BumpverVerif.Audit.TiesQ"]

E = []
S = "setuptools_v65_version.py"
V = "version.py"


def exp(tie, file, kind, label, old, new):
    E.append(dict(tie=tie, file=file, kind=kind, label=label, old=old, new=new))


# ---- Version.__init__ (and its callee _parse_letter_version) ------------------------------------------------------
T = "pepVersionInit"
EPOCH = '            epoch=int(match.group("epoch")) if match.group("epoch") else 0,\n'
POSTN = 'match.group("post_l"), match.group("post_n1") or match.group("post_n2")'
exp(T, S, "break", "`post_n1 or post_n2` swapped", POSTN, 'match.group("post_l"), match.group("post_n2") or match.group("post_n1")')
exp(T, S, "break", "epoch default 1", EPOCH, EPOCH.replace("else 0", "else 1"))
exp(T, S, "break", "pre number read from group `dev_n`", 'match.group("pre_l"), match.group("pre_n")', 'match.group("pre_l"), match.group("dev_n")')
exp(T, S, "break", "keywords `pre=` / `dev=` exchanged",
    '            pre=_parse_letter_version(match.group("pre_l"), match.group("pre_n")),',
    '            dev=_parse_letter_version(match.group("pre_l"), match.group("pre_n")),\n'.replace("\n", "") )
E[-1]["also"] = [('            dev=_parse_letter_version(match.group("dev_l"), match.group("dev_n")),',
                  '            pre=_parse_letter_version(match.group("dev_l"), match.group("dev_n")),')]
exp(T, S, "break", "`if not match` -> `if match`", "        if not match:\n", "        if match:\n")
exp(T, S, "break", "release split at `-`", 'match.group("release").split(".")', 'match.group("release").split("-")')
exp(T, S, "break", "`_cmpkey(…, pre, post, …)` arguments exchanged",
    "            self._version.pre,\n            self._version.post,\n", "            self._version.post,\n            self._version.pre,\n")
exp(T, S, "break", "`post_n1 or post_n2` -> only `post_n2` (implicit post release `1.0-1` lost)", POSTN, 'match.group("post_l"), match.group("post_n2")')
exp(T, S, "break", "no `InvalidVersion` raised (falls through with a None match)",
    "        if not match:\n            raise InvalidVersion(f\"Invalid version: '{version}'\")\n", "")
exp(T, S, "break", "the TRUSTED regex edited (`rev` no longer a post spelling)", "(?P<post_l>post|rev|r)", "(?P<post_l>post|r)")
exp(T, S, "break", "_parse_letter_version: implicit `0` -> `1` (1.0a = 1.0a1, 1.0.dev = 1.0.dev1)",
    "        if number is None:\n            number = 0\n", "        if number is None:\n            number = 1\n")
exp(T, S, "break", "_parse_letter_version: implicit `0` dropped (int(None))",
    "        if number is None:\n            number = 0\n", "")
exp(T, S, "break", "_parse_letter_version: letter not lower-cased", "        letter = letter.lower()\n", "")
exp(T, S, "break", "_parse_letter_version: `preview` not normalised to rc", 'elif letter in ["c", "pre", "preview"]:', 'elif letter in ["c", "pre"]:')
exp(T, S, "break", "_parse_letter_version: `rev`/`r` normalised to `rev`", '        elif letter in ["rev", "r"]:\n            letter = "post"', '        elif letter in ["rev", "r"]:\n            letter = "rev"')
exp(T, S, "break", "_parse_letter_version: implicit post needs no number (`not letter` only)", "    if not letter and number:\n", "    if not letter:\n")
exp(T, S, "harmless", "groups bound to locals first",
    "        self._version = _Version(\n" + EPOCH,
    '        epoch_text = match.group("epoch")\n        self._version = _Version(\n            epoch=int(epoch_text) if epoch_text else 0,\n')
exp(T, S, "harmless", "`if match is None`", "        if not match:\n", "        if match is None:\n")
exp(T, S, "harmless", "conditional expression flipped (`0 if not … else int(…)`)", EPOCH,
    '            epoch=0 if not match.group("epoch") else int(match.group("epoch")),\n')
exp(T, S, "harmless", "list comprehension inside tuple()", 'release=tuple(int(i) for i in match.group("release").split(".")),',
    'release=tuple([int(piece) for piece in match.group("release").split(".")]),')
exp(T, S, "harmless", "the `_Version` tuple bound to a local, key computed from it",
    "        self._key = _cmpkey(\n            self._version.epoch,\n            self._version.release,\n            self._version.pre,\n            self._version.post,\n            self._version.dev,\n            self._version.local,\n        )",
    "        v = self._version\n        self._key = _cmpkey(v.epoch, v.release, v.pre, v.post, v.dev, v.local)")
exp(T, S, "harmless", "`post_n1 or post_n2` as a conditional expression on a local",
    "        self._version = _Version(\n" + EPOCH,
    '        post_number = match.group("post_n1") if match.group("post_n1") else match.group("post_n2")\n        self._version = _Version(\n' + EPOCH)
E[-1]["also"] = [(POSTN, 'match.group("post_l"), post_number')]

# ---- _parse_local_version -------------------------------------------------------------------------------------------
T = "pepParseLocalVersion"
ELT = "            part.lower() if not part.isdigit() else int(part)\n"
exp(T, S, "break", "`-` / `_` not split (regex `[\\.]`)", '_local_version_separators = re.compile(r"[\\._-]")', '_local_version_separators = re.compile(r"[\\.]")')
exp(T, S, "break", "`_` not split (regex `[\\.-]`)", '_local_version_separators = re.compile(r"[\\._-]")', '_local_version_separators = re.compile(r"[\\.-]")')
exp(T, S, "break", "`+` also splits", '_local_version_separators = re.compile(r"[\\._-]")', '_local_version_separators = re.compile(r"[\\._+-]")')
exp(T, S, "break", "local digits kept as strings", ELT, "            part.lower() if not part.isdigit() else part\n")
exp(T, S, "break", "alphanumeric parts not lower-cased", ELT, "            part if not part.isdigit() else int(part)\n")
exp(T, S, "break", "test negation dropped (branches exchanged)", ELT, "            part.lower() if part.isdigit() else int(part)\n")
exp(T, S, "break", "plain `local.split('.')` instead of the regex", "_local_version_separators.split(local)", 'local.split(".")')
exp(T, S, "break", "`is not None` -> `is None`", "    if local is not None:\n        return tuple(", "    if local is None:\n        return tuple(")
exp(T, S, "harmless", "early `return None`, element expression flipped (harmless2.diff)",
    "    if local is not None:\n        return tuple(\n" + ELT + "            for part in _local_version_separators.split(local)\n        )\n    return None\n",
    "    if local is None:\n        return None\n\n    return tuple(\n        int(part) if part.isdigit() else part.lower()\n        for part in _local_version_separators.split(local)\n    )\n")
exp(T, S, "harmless", "character class reordered (`[-_\\.]`)", '_local_version_separators = re.compile(r"[\\._-]")', '_local_version_separators = re.compile(r"[-_\\.]")')
exp(T, S, "harmless", "loop variable renamed, list comprehension", "        return tuple(\n" + ELT + "            for part in _local_version_separators.split(local)\n        )",
    "        return tuple([seg.lower() if not seg.isdigit() else int(seg) for seg in _local_version_separators.split(local)])")
exp(T, S, "harmless", "pieces bound to a local first", "        return tuple(\n" + ELT + "            for part in _local_version_separators.split(local)\n        )",
    "        pieces = _local_version_separators.split(local)\n        return tuple(part.lower() if not part.isdigit() else int(part) for part in pieces)")

# ---- Version.__str__ and the properties ------------------------------------------------------------------------------
T = "pepVersionStr"
exp(T, S, "break", "`.post` -> `post` in __str__", 'parts.append(f".post{self.post}")', 'parts.append(f"post{self.post}")')
exp(T, S, "break", "`.dev` -> `dev`", 'parts.append(f".dev{self.dev}")', 'parts.append(f"dev{self.dev}")')
exp(T, S, "break", "epoch printed when it IS 0", "    def __str__(self) -> str:\n        parts = []\n\n        # Epoch\n        if self.epoch != 0:", "    def __str__(self) -> str:\n        parts = []\n\n        # Epoch\n        if self.epoch == 0:")
exp(T, S, "break", "dev printed before post",
    "        # Post-release\n        if self.post is not None:\n            parts.append(f\".post{self.post}\")\n\n        # Development release\n        if self.dev is not None:\n            parts.append(f\".dev{self.dev}\")\n",
    "        # Development release\n        if self.dev is not None:\n            parts.append(f\".dev{self.dev}\")\n\n        # Post-release\n        if self.post is not None:\n            parts.append(f\".post{self.post}\")\n")
exp(T, S, "break", "epoch separator `!` -> `:`", "    def __str__(self) -> str:\n        parts = []\n\n        # Epoch\n        if self.epoch != 0:\n            parts.append(f\"{self.epoch}!\")", "    def __str__(self) -> str:\n        parts = []\n\n        # Epoch\n        if self.epoch != 0:\n            parts.append(f\"{self.epoch}:\")")
exp(T, S, "break", "local separator `+` -> `-`", 'parts.append(f"+{self.local}")', 'parts.append(f"-{self.local}")')
exp(T, S, "break", "property `local` joins with `-`", '            return ".".join(str(x) for x in self._version.local)', '            return "-".join(str(x) for x in self._version.local)')
exp(T, S, "break", "property `post` returns the letter (`[0]`)", "return self._version.post[1] if self._version.post else None", "return self._version.post[0] if self._version.post else None")
exp(T, S, "break", "property `dev` reads the post tuple", "return self._version.dev[1] if self._version.dev else None", "return self._version.post[1] if self._version.post else None")
exp(T, S, "break", "pre printed with a `.` between letter and number", 'parts.append("".join(str(x) for x in self.pre))', 'parts.append(".".join(str(x) for x in self.pre))')
exp(T, S, "break", "property `release` no longer a property (decorator removed)", "    @property\n    def release(self) -> Tuple[int, ...]:", "    def release(self) -> Tuple[int, ...]:")
exp(T, S, "harmless", "properties return the field directly", "        _epoch: int = self._version.epoch\n        return _epoch", "        return self._version.epoch")
exp(T, S, "harmless", "pre bound to a local, list comprehension",
    '        if self.pre is not None:\n            parts.append("".join(str(x) for x in self.pre))',
    '        pre = self.pre\n        if pre is not None:\n            parts.append("".join([str(x) for x in pre]))')
exp(T, S, "harmless", "pre printed with an f-string of the two components",
    'parts.append("".join(str(x) for x in self.pre))', 'parts.append(f"{self.pre[0]}{self.pre[1]}")')
exp(T, S, "harmless", "`is None: pass / else` for post",
    '        if self.post is not None:\n            parts.append(f".post{self.post}")', '        if self.post is None:\n            pass\n        else:\n            parts.append(f".post{self.post}")')
exp(T, S, "harmless", "property `local`: early return on `not`",
    '        if self._version.local:\n            return ".".join(str(x) for x in self._version.local)\n        else:\n            return None',
    '        if not self._version.local:\n            return None\n        return ".".join(str(x) for x in self._version.local)')
exp(T, S, "harmless", "property `dev`: statement form",
    "        return self._version.dev[1] if self._version.dev else None", "        if self._version.dev:\n            return self._version.dev[1]\n        return None")

# ---- LegacyVersion, _legacy_cmpkey, _parse_version_parts -----------------------------------------------------------
T = "pepLegacy"
exp(T, S, "break", "legacy epoch `-1` -> `0` (legacy no longer below PEP 440)", "    epoch = -1\n", "    epoch = 0\n")
exp(T, S, "break", '`part < "*final"` -> `<=`', '            if part < "*final":', '            if part <= "*final":')
exp(T, S, "break", "trailing-zero part `00000000` -> seven zeros", "parts[-1] == '00000000'", "parts[-1] == '0000000'")
exp(T, S, "break", "`zfill(8)` -> `zfill(7)`", "yield part.zfill(8)", "yield part.zfill(7)")
exp(T, S, "break", "replacement map: `rc` kept", "    'rc'     : \"c\",", "    'rc'     : \"rc\",")
exp(T, S, "break", "`\"*\" + part` -> `part + \"*\"`", '            yield "*" + part', '            yield part + "*"')
exp(T, S, "break", "`version.lower()` dropped", "for part in _parse_version_parts(version.lower()):", "for part in _parse_version_parts(version):")
exp(T, S, "break", "final `*final` marker not yielded", "    # ensure that alpha/beta/candidate are before final\n    yield \"*final\"\n", "")
exp(T, S, "break", "empty parts not skipped", '        if not part or part == ".":', '        if part == ".":')
exp(T, S, "break", "`*final-` popped for every `*` part (guard removed)",
    '            if part < "*final":\n                while parts and parts[-1] == "*final-":\n                    parts.pop()',
    '            while parts and parts[-1] == "*final-":\n                parts.pop()')
exp(T, S, "break", "pop loop tests the new part instead of the last one", "while parts and parts[-1] == '00000000':", "while parts and part == '00000000':")
exp(T, S, "break", "the TRUSTED legacy regex edited", '_legacy_version_component_re = re.compile(r"(\\d+ | [a-z]+ | \\.| -)", re.VERBOSE)', '_legacy_version_component_re = re.compile(r"(\\d+ | [a-z]+ | \\.)", re.VERBOSE)')
exp(T, S, "harmless", "`return -1, tuple(parts)`", "    return epoch, tuple(parts)", "    return -1, tuple(parts)")
exp(T, S, "harmless", "disjuncts exchanged, branches of the digit test exchanged",
    '        if not part or part == ".":\n            continue\n\n        if part[:1] in \'0123456789\':\n            # pad for numeric comparison\n            yield part.zfill(8)\n        else:\n            yield "*" + part',
    '        if part == "." or not part:\n            continue\n\n        if part[:1] not in \'0123456789\':\n            yield "*" + part\n        else:\n            yield part.zfill(8)')
exp(T, S, "harmless", "mapped part bound to a new local",
    "        part = _legacy_version_replacement_map.get(part, part)\n\n        if not part or part == \".\":\n            continue\n\n        if part[:1] in '0123456789':\n            # pad for numeric comparison\n            yield part.zfill(8)\n        else:\n            yield \"*\" + part",
    "        mapped = _legacy_version_replacement_map.get(part, part)\n\n        if not mapped or mapped == \".\":\n            continue\n\n        if mapped[:1] in '0123456789':\n            yield mapped.zfill(8)\n        else:\n            yield \"*\" + mapped")
exp(T, S, "harmless", "lower-cased text bound to a local", "    for part in _parse_version_parts(version.lower()):", "    lowered = version.lower()\n    for part in _parse_version_parts(lowered):")

# ---- parse, parse_version, to_pep440 -----------------------------------------------------------------------------------
T = "pepParse"
exp(T, S, "break", "`parse`: classes exchanged", "    try:\n        return Version(version)\n    except InvalidVersion:\n        return LegacyVersion(version)", "    try:\n        return LegacyVersion(version)\n    except InvalidVersion:\n        return Version(version)")
exp(T, S, "break", "`parse`: no fallback (InvalidVersion escapes)", "    try:\n        return Version(version)\n    except InvalidVersion:\n        return LegacyVersion(version)", "    return Version(version)")
exp(T, S, "break", "`LegacyVersion.__str__` lower-cases", "    def __str__(self) -> str:\n        return self._version\n", "    def __str__(self) -> str:\n        return self._version.lower()\n")
exp(T, S, "break", "`LegacyVersion.__init__` keeps the lower-cased text", "        self._version = str(version)\n", "        self._version = str(version).lower()\n")
exp(T, V, "break", "`to_pep440` returns its argument", "    return str(parse_version(version))", "    return version")
exp(T, V, "break", "`to_pep440` lower-cases the result", "    return str(parse_version(version))", "    return str(parse_version(version)).lower()")
exp(T, V, "break", "`parse_version` constructs Version directly", "    return setuptools_v65_version.parse(version)", "    return setuptools_v65_version.Version(version)")
exp(T, V, "harmless", "`to_pep440` with a local (harmless1.diff)", "    return str(parse_version(version))", "    parsed_version = parse_version(version)\n    return str(parsed_version)")
exp(T, V, "harmless", "`parse_version` with a docstring and a local", "    return setuptools_v65_version.parse(version)", '    """Parse."""\n    parsed = setuptools_v65_version.parse(version)\n    return parsed')
exp(T, S, "harmless", "`parse`: try / except / else", "    try:\n        return Version(version)\n    except InvalidVersion:\n        return LegacyVersion(version)", "    try:\n        parsed = Version(version)\n    except InvalidVersion:\n        return LegacyVersion(version)\n    else:\n        return parsed")
exp(T, S, "harmless", "`parse`: result bound inside try, returned after it", "    try:\n        return Version(version)\n    except InvalidVersion:\n        return LegacyVersion(version)", "    try:\n        parsed = Version(version)\n    except InvalidVersion:\n        return LegacyVersion(version)\n    return parsed")


def run(cmd, **kw):
    return subprocess.run(cmd, stdout=subprocess.PIPE, stderr=subprocess.STDOUT, text=True, **kw)


def generate_all(report):
    """the generated files of this group and of the two foreign callees"""
    import translate_pepversion
    import translate_funcs
    import translate_cli
    out = {}
    rep = []
    files = translate_funcs.generate(rep)
    out["F_parseLetterVersion.lean"] = files["F_parseLetterVersion.lean"]
    report += [r for r in rep if r[1] == "F_parseLetterVersion.lean"]
    rep = []
    files = translate_cli.generate(rep)
    out["F_cmpkey.lean"] = files["F_cmpkey.lean"]
    report += [r for r in rep if r[1] == "F_cmpkey.lean"]
    out.update(translate_pepversion.generate(report))
    return out


def write(files, baseline=None):
    for name, content in files.items():
        p = os.path.join(GEN, name)
        if not os.path.exists(p) or open(p, encoding="utf-8").read() != content:
            open(p, "w", encoding="utf-8").write(content)


def patched(dirs):
    os.environ.pop("VERIF_REPO", None)
    baseline = generate_all([])
    rc = 0
    for d in dirs:
        os.environ["VERIF_REPO"] = d
        rep = []
        files = generate_all(rep)
        del os.environ["VERIF_REPO"]
        changed = [n for n in files if "\n".join(files[n].split("\n")[4:]) != "\n".join(baseline[n].split("\n")[4:])]
        bad = [(f, str(e)[:160]) for f, _, e in rep if e is not None]
        write(files)
        failed = []
        for m in ALL_MODULES:
            b = run(["timeout", "900", "lake", "build", m], cwd=LEAN)
            if b.returncode != 0:
                failed.append((m, [ln for ln in b.stdout.splitlines() if "error" in ln][:2]))
        print("%s: %d generated definitions differ from the original's (%s); untranslatable: %s; failing modules: %s"
              % (d, len(changed), ", ".join(n[2:-5] for n in changed), bad or "none", failed or "none"), flush=True)
        if bad or failed:
            rc = 1
    write(baseline)
    b = run(["timeout", "1800", "lake", "build"] + ALL_MODULES, cwd=LEAN)
    print("restore build:", "ok" if b.returncode == 0 else b.stdout[-1500:])
    return rc


def main():
    if len(sys.argv) > 1 and sys.argv[1] == "--patched":
        return patched(sys.argv[2:])
    only = set(sys.argv[1:])
    os.environ.pop("VERIF_REPO", None)
    baseline = generate_all([])
    results, out_lines = [], []
    for e in E:
        if only and e["tie"] not in only:
            continue
        if os.path.exists(SCRATCH):
            shutil.rmtree(SCRATCH)
        shutil.copytree("/repo/src", os.path.join(SCRATCH, "src"))
        path = os.path.join(SCRATCH, "src", "bumpver", e["file"])
        src = open(path, encoding="utf-8").read()
        for old, new in [(e["old"], e["new"])] + e.get("also", []):
            if src.count(old) != 1:
                print("!! edit text occurs %d times: %r" % (src.count(old), old))
                return 2
            src = src.replace(old, new)
        open(path, "w", encoding="utf-8").write(src)
        os.environ["VERIF_REPO"] = SCRATCH
        rep = []
        files = generate_all(rep)
        del os.environ["VERIF_REPO"]
        errs = [(f, getattr(x, "reason", x)) for f, _, x in rep if x is not None]
        write(files)
        mod = "BumpverVerif.Proofs.Tie_%s" % e["tie"]
        b = run(["timeout", "900", "lake", "build", mod], cwd=LEAN)
        ok = b.returncode == 0
        if ok:
            outcome = "Tie_%s builds" % e["tie"]
        else:
            first = [ln for ln in b.stdout.splitlines() if "error" in ln][:1]
            outcome = "Tie_%s FAILS: %s" % (e["tie"], (first[0] if first else "rc=%d" % b.returncode)[:120])
        if errs:
            outcome = "UNTRANSLATABLE %s (%s); %s" % (errs[0][0], str(errs[0][1])[:90], outcome[:40])
        verdict = "as intended" if ok == (e["kind"] == "harmless") else "** NOT as intended **"
        results.append((e, outcome, verdict))
        line = "%-22s %-9s %-82s -> %s [%s]" % (e["tie"], e["kind"], e["label"], outcome, verdict)
        out_lines.append(line)
        print(line, flush=True)
        write(baseline)
    shutil.rmtree(SCRATCH, ignore_errors=True)
    write(baseline)
    b = run(["timeout", "1800", "lake", "build"] + ALL_MODULES, cwd=LEAN)
    print("restore build:", "ok" if b.returncode == 0 else b.stdout[-2000:])
    nb = [r for r in results if r[0]["kind"] == "break"]
    nh = [r for r in results if r[0]["kind"] == "harmless"]
    summary = "break: %d/%d as intended; harmless: %d/%d as intended" % (
        sum(1 for r in nb if r[2] == "as intended"), len(nb), sum(1 for r in nh if r[2] == "as intended"), len(nh))
    print(summary)
    if not only:
        with open(os.path.join(HERE, "pepversion_tie_experiments.out.txt"), "w", encoding="utf-8") as f:
            f.write("\n".join(out_lines) + "\n" + summary + "\n")
    return 0


if __name__ == "__main__":
    sys.exit(main())
