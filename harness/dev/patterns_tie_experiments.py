#!/venv/bin/python
"""Robustness demonstration for harness/translate_patterns.py + Proofs/Tie_<name>.lean (group `patterns`).

For every experiment: copy /repo/src to a scratch tree, apply ONE textual edit to src/bumpver/v2patterns.py,
run the translator with VERIF_REPO pointing at the scratch tree, write the regenerated Gen/F_*.lean files,
rebuild the generated module of the edited function and type-check its tie file.

  kind 'break'   : a plausible semantic one-token edit  -> the tie must NO LONGER compile (or UNTRANSLATABLE)
  kind 'harmless': a semantics-preserving rewrite        -> the tie should still compile

Afterwards the generated files are restored from the unmodified /repo and the scratch tree is removed.
Usage: /venv/bin/python harness/dev/patterns_tie_experiments.py [name ...]     (name = Lean function name)
"""
import os
import shutil
import subprocess
import sys

HERE = os.path.dirname(os.path.abspath(__file__))
HARNESS = os.path.dirname(HERE)
VERIF = os.path.dirname(HARNESS)
LEAN = os.path.join(VERIF, "lean")
GEN = os.path.join(LEAN, "BumpverVerif", "Gen")
SCRATCH = os.path.join(os.path.dirname(VERIF), "src-scratch")
sys.path.insert(0, HARNESS)

# Lean function -> (generated module to rebuild, tie file to check)
TIE = {
    "iterPartPatterns": ("F_iterPartPatterns", "Tie_iterPartPatterns"),
    "replacePatternParts": ("F_replacePatternParts", "Tie_replacePatternParts"),
    "compilePatternRe": ("F_compilePatternRe", "Tie_compilePatternRe"),
    "convertToPep440": ("F_convertToPep440", "Tie_convertToPep440"),
    "normalizePattern": ("F_normalizePattern", "Tie_normalizePattern"),
    "compilePattern": ("F_compilePatterns", "Tie_compilePattern"),
    "compilePatterns": ("F_compilePatterns", "Tie_compilePattern"),
}

E = []
F = "v2patterns.py"


def exp(name, kind, label, old, new, also=None):
    E.append(dict(name=name, file=F, kind=kind, label=label, old=old, new=new, also=also or []))


# ---- _compile_pattern_re ------------------------------------------------------------------------------
N = "compilePatternRe"
exp(N, "break", "`re.compile(pattern_str, re.IGNORECASE)`",
    "    return re.compile(pattern_str)", "    return re.compile(pattern_str, re.IGNORECASE)")
exp(N, "break", "IGNORECASE only when a TAG part is present (seeded C07)",
    "    return re.compile(pattern_str)",
    "    flags = re.IGNORECASE if 'TAG' in normalized_pattern else 0\n    return re.compile(pattern_str, flags)")
exp(N, "break", "backslash no longer exempt: `char in \"[]\"`",
    "        is_semantic_char = char in \"[]\\\\\"", "        is_semantic_char = char in \"[]\"")
exp(N, "break", "`if not is_semantic_char` -> `if is_semantic_char`",
    "        if not is_semantic_char:", "        if is_semantic_char:")
exp(N, "break", "`replace(char, escaped)` -> `replace(escaped, char)`",
    "escaped_pattern.replace(char, escaped)", "escaped_pattern.replace(escaped, char)")
exp(N, "break", "escaped pattern not used: `_replace_pattern_parts(normalized_pattern)`",
    "    pattern_str = _replace_pattern_parts(escaped_pattern)", "    pattern_str = _replace_pattern_parts(normalized_pattern)")
exp(N, "break", "brace pre-pass before escaping (seeded C07)",
    "    escaped_pattern = normalized_pattern\n    for char, escaped in RE_PATTERN_ESCAPES:",
    "    escaped_pattern = normalized_pattern.replace(\"{\", \"(\").replace(\"}\", \")\")\n    for char, escaped in RE_PATTERN_ESCAPES:")
exp(N, "break", "doubled metacharacters collapsed by re.sub (seeded C07)",
    "    pattern_str = _replace_pattern_parts(escaped_pattern)",
    "    escaped_pattern = re.sub(r\"(\\\\\\+)+\", r\"\\\\+\", escaped_pattern)\n    pattern_str = _replace_pattern_parts(escaped_pattern)")
exp(N, "harmless", "local renamed",
    "    escaped_pattern = normalized_pattern\n", "    esc = normalized_pattern\n",
    also=[("            escaped_pattern = escaped_pattern.replace(char, escaped)", "            esc = esc.replace(char, escaped)"),
          ("    pattern_str = _replace_pattern_parts(escaped_pattern)", "    pattern_str = _replace_pattern_parts(esc)")])
exp(N, "harmless", "`continue` form of the exemption",
    "        if not is_semantic_char:\n            # escape it so it is a literal in the re pattern\n            escaped_pattern = escaped_pattern.replace(char, escaped)",
    "        if is_semantic_char:\n            continue\n        escaped_pattern = escaped_pattern.replace(char, escaped)")
exp(N, "harmless", "test inlined: `if char not in \"[]\\\\\":`",
    "        is_semantic_char = char in \"[]\\\\\"\n        if not is_semantic_char:", "        if char not in \"[]\\\\\":")
exp(N, "harmless", "`return re.compile(_replace_pattern_parts(escaped_pattern))`",
    "    pattern_str = _replace_pattern_parts(escaped_pattern)\n    return re.compile(pattern_str)",
    "    return re.compile(_replace_pattern_parts(escaped_pattern))")

# ---- _replace_pattern_parts ---------------------------------------------------------------------------
N = "replacePatternParts"
exp(N, "break", "`(?:` -> `(` (capturing group)",
    "r\"\\1(?:\", pattern)", "r\"\\1(\", pattern)")
exp(N, "break", "look-behind dropped from the regex: `r\"\\[\"`",
    "re.subn(r\"([^\\\\]|^)\\[\", r\"\\1(?:\", pattern)", "re.subn(r\"\\[\", r\"(?:\", pattern)")
exp(N, "break", "balanced-bracket substitution that skips escaped brackets (seeded C07)",
    "        new_pattern, _n = re.subn(r\"([^\\\\]|^)\\[\", r\"\\1(?:\", pattern)",
    "        new_pattern, _n = re.subn(r\"\\[([^\\[\\]\\\\]*)\\]\", r\"(?:\\1)?\", pattern)")
exp(N, "break", "`)?` -> `)` (group no longer optional)",
    "r\"\\1)?\" , new_pattern)", "r\"\\1)\" , new_pattern)")
exp(N, "break", "`if _n + _m == 0` -> `if _n == 0`",
    "        if _n + _m == 0:", "        if _n == 0:")
exp(N, "break", "second substitution applied to `pattern` (first one lost)",
    "r\"\\1)?\" , new_pattern)", "r\"\\1)?\" , pattern)")
exp(N, "break", "`end_idx <= last_start_idx` -> `<`",
    "        if end_idx <= last_start_idx:", "        if end_idx < last_start_idx:")
exp(N, "break", "`last_start_idx = start_idx` -> `= end_idx`",
    "            last_start_idx = start_idx", "            last_start_idx = end_idx")
exp(N, "break", "`result_pattern[end_idx:]` -> `result_pattern[start_idx:]`",
    "+ result_pattern[end_idx:]", "+ result_pattern[start_idx:]")
exp(N, "break", "`sorted(...)` dropped (dict order)",
    "in sorted(part_patterns_by_index.items()):", "in part_patterns_by_index.items():")
exp(N, "break", "`dict(...)` dropped: `sorted(_iter_part_patterns(pattern))` (equal keys no longer replace)",
    "    part_patterns_by_index: typ.Dict[SortKey, PostitionedPart] = dict(_iter_part_patterns(pattern))",
    "    part_patterns_by_index = _iter_part_patterns(pattern)",
    also=[("in sorted(part_patterns_by_index.items()):", "in sorted(part_patterns_by_index):")])
exp(N, "harmless", "locals renamed",
    "        new_pattern, _n = re.subn(r\"([^\\\\]|^)\\[\", r\"\\1(?:\", pattern)\n        new_pattern, _m = re.subn(r\"([^\\\\]|^)\\]\", r\"\\1)?\" , new_pattern)\n        pattern = new_pattern\n        if _n + _m == 0:",
    "        np1, n_open = re.subn(r\"([^\\\\]|^)\\[\", r\"\\1(?:\", pattern)\n        np2, n_close = re.subn(r\"([^\\\\]|^)\\]\", r\"\\1)?\" , np1)\n        pattern = np2\n        if n_open + n_close == 0:")
exp(N, "harmless", "`_m + _n == 0` (commuted)",
    "        if _n + _m == 0:", "        if _m + _n == 0:")
exp(N, "harmless", "`if not (_n + _m): break` (truthiness)",
    "        if _n + _m == 0:", "        if not (_n + _m):")
exp(N, "harmless", "`last_start_idx >= end_idx`, sorted list in a local",
    "        if end_idx <= last_start_idx:", "        if last_start_idx >= end_idx:",
    also=[("    for _, (start_idx, end_idx, named_part_pattern) in sorted(part_patterns_by_index.items()):",
           "    items = sorted(part_patterns_by_index.items())\n    for _, (start_idx, end_idx, named_part_pattern) in items:")])
exp(N, "harmless", "loop target unpacked in the body",
    "    for _, (start_idx, end_idx, named_part_pattern) in sorted(part_patterns_by_index.items()):",
    "    for item in sorted(part_patterns_by_index.items()):\n        start_idx, end_idx, named_part_pattern = item[1]")

exp(N, "harmless", "`if end_idx > last_start_idx: continue` with the substitution after it (harmless1)",
    "        if end_idx <= last_start_idx:\n            result_pattern = result_pattern[:start_idx] + named_part_pattern + result_pattern[end_idx:]\n            last_start_idx = start_idx\n",
    "        if end_idx > last_start_idx:\n            continue\n        result_pattern = result_pattern[:start_idx] + named_part_pattern + result_pattern[end_idx:]\n        last_start_idx = start_idx\n")
exp(N, "break", "`if end_idx >= last_start_idx: continue` (adjacent parts no longer both replaced)",
    "        if end_idx <= last_start_idx:\n            result_pattern = result_pattern[:start_idx] + named_part_pattern + result_pattern[end_idx:]\n            last_start_idx = start_idx\n",
    "        if end_idx >= last_start_idx:\n            continue\n        result_pattern = result_pattern[:start_idx] + named_part_pattern + result_pattern[end_idx:]\n        last_start_idx = start_idx\n")

# ---- _iter_part_patterns ------------------------------------------------------------------------------
N = "iterPartPatterns"
exp(N, "break", "`start_idx < 0` -> `start_idx <= 0` (occurrence at index 0 lost)",
    "            if start_idx < 0:", "            if start_idx <= 0:")
exp(N, "break", "`end_idx = start_idx + len(part_name)` -> `start_idx + 1` (overlapping occurrences)",
    "            end_idx         = start_idx + len(part_name)", "            end_idx         = start_idx + 1")
exp(N, "break", "`if field in used_fields` -> `not in`",
    "            if field in used_fields:", "            if field not in used_fields:")
exp(N, "break", "`len(used_fields)` -> `len(used_fields) + 1`",
    "{field}_{len(used_fields)}>", "{field}_{len(used_fields) + 1}>")
exp(N, "break", "`used_fields.add(field)` moved before the test",
    "            field = PATTERN_PART_FIELDS[part_name]\n            if field in used_fields:",
    "            field = PATTERN_PART_FIELDS[part_name]\n            used_fields.add(field)\n            if field in used_fields:")
exp(N, "break", "sort key uses `start_idx`",
    "            sort_key        = (-end_idx, -len(part_name))", "            sort_key        = (-start_idx, -len(part_name))")
exp(N, "break", "`pattern.find(part_name, end_idx)` -> `pattern.find(part_name)` (never advances)",
    "            start_idx = pattern.find(part_name, end_idx)", "            start_idx = pattern.find(part_name)")
exp(N, "break", "positioned part `(end_idx, start_idx, ...)`",
    "            positioned_part = (start_idx, end_idx, named_part_pattern)",
    "            positioned_part = (end_idx, start_idx, named_part_pattern)")
exp(N, "break", "group named after the part instead of the field",
    "                named_part_pattern = f\"(?P<{field}>{part_pattern})\"",
    "                named_part_pattern = f\"(?P<{part_name}>{part_pattern})\"")
exp(N, "break", "`end_idx = 0` hoisted out of the `for` (search position carried over to the next part)",
    "    used_fields: typ.Set[str] = set()\n    for part_name, part_pattern in PART_PATTERNS.items():\n        end_idx = 0\n",
    "    used_fields: typ.Set[str] = set()\n    end_idx = 0\n    for part_name, part_pattern in PART_PATTERNS.items():\n")
exp(N, "harmless", "locals renamed",
    "            start_idx = pattern.find(part_name, end_idx)\n            if start_idx < 0:",
    "            i = pattern.find(part_name, end_idx)\n            if i < 0:",
    also=[("            end_idx         = start_idx + len(part_name)", "            end_idx         = i + len(part_name)"),
          ("            positioned_part = (start_idx, end_idx, named_part_pattern)", "            positioned_part = (i, end_idx, named_part_pattern)")])
exp(N, "harmless", "`0 > start_idx`; if/else flipped with negated test",
    "            if start_idx < 0:", "            if 0 > start_idx:",
    also=[("            if field in used_fields:\n                named_part_pattern = f\"(?P<{field}_{len(used_fields)}>{part_pattern})\"\n            else:\n                named_part_pattern = f\"(?P<{field}>{part_pattern})\"",
           "            if field not in used_fields:\n                named_part_pattern = f\"(?P<{field}>{part_pattern})\"\n            else:\n                named_part_pattern = f\"(?P<{field}_{len(used_fields)}>{part_pattern})\"")])
exp(N, "harmless", "tuples inlined into the `yield`, length in a local",
    "            end_idx         = start_idx + len(part_name)\n            sort_key        = (-end_idx, -len(part_name))\n            positioned_part = (start_idx, end_idx, named_part_pattern)\n            yield (sort_key, positioned_part)",
    "            n = len(part_name)\n            end_idx = start_idx + n\n            yield ((-end_idx, -n), (start_idx, end_idx, named_part_pattern))")
exp(N, "harmless", "f-string split into concatenation",
    "                named_part_pattern = f\"(?P<{field}>{part_pattern})\"",
    "                named_part_pattern = \"(?P<\" + field + \">\" + part_pattern + \")\"")

exp(N, "harmless", "group name in a local, test negated, one f-string for both cases (harmless1)",
    "            if field in used_fields:\n                named_part_pattern = f\"(?P<{field}_{len(used_fields)}>{part_pattern})\"\n            else:\n                named_part_pattern = f\"(?P<{field}>{part_pattern})\"\n",
    "            if field not in used_fields:\n                group_name = field\n            else:\n                group_name = f\"{field}_{len(used_fields)}\"\n            named_part_pattern = f\"(?P<{group_name}>{part_pattern})\"\n")

# ---- _convert_to_pep440 -----------------------------------------------------------------------------------
N = "convertToPep440"
exp(N, "break", "`replace(\"NUM\", \"\")` -> `replace(\"[NUM]\", \"\")` (seeded C15)",
    "        pep440_pattern = pep440_pattern.replace(\"NUM\"  , \"\")", "        pep440_pattern = pep440_pattern.replace(\"[NUM]\"  , \"\")")
exp(N, "break", "after-a-dot rule: `== \".\"` -> `== \"-\"`",
    "pep440_pattern[part_index - 1] == \".\"", "pep440_pattern[part_index - 1] == \"-\"")
exp(N, "break", "`part_index - 1` -> `part_index + 1`",
    "pep440_pattern[part_index - 1] == \".\"", "pep440_pattern[part_index + 1] == \".\"")
exp(N, "break", "`part_index == 0 or` dropped (index 0 reads `pattern[-1]`)",
    "            is_zero_truncation_part = part_index == 0 or pep440_pattern[part_index - 1] == \".\"",
    "            is_zero_truncation_part = pep440_pattern[part_index - 1] == \".\"")
exp(N, "break", "`startswith(\"v\")` -> `startswith(\"V\")`",
    "    if pep440_pattern.startswith(\"v\"):", "    if pep440_pattern.startswith(\"V\"):")
exp(N, "break", "`!` dropped from the character class",
    "r\"[^a-zA-Z0-9\\.\\!\\[\\]]\"", "r\"[^a-zA-Z0-9\\.\\[\\]]\"")
exp(N, "break", "`reverse=True` -> `reverse=False`",
    "    part_names.sort(key=len, reverse=True)", "    part_names.sort(key=len, reverse=False)")
exp(N, "break", "`if substitution in pep440_pattern: continue` dropped",
    "        if substitution in pep440_pattern:\n            continue\n", "")
exp(N, "break", "`('TAG', 'PYTAG')` -> `('TAG',)`",
    "        is_numerical_part = part_name not in ('TAG', 'PYTAG')", "        is_numerical_part = part_name not in ('TAG',)")
exp(N, "break", "`'PYTAGNUM' not in` -> `in`",
    "    if 'PYTAGNUM' not in pep440_pattern:", "    if 'PYTAGNUM' in pep440_pattern:")
exp(N, "break", "`part_name not in version_pattern` -> `not in pep440_pattern`",
    "        if part_name not in version_pattern:", "        if part_name not in pep440_pattern:")
exp(N, "break", "escaped-bracket removal dropped",
    "    pep440_pattern = pep440_pattern.replace(r\"\\]\", \"\")\n", "")
exp(N, "harmless", "locals renamed",
    "        substitution = PEP440_PART_SUBSTITUTIONS[part_name]\n        if substitution in pep440_pattern:",
    "        sub = PEP440_PART_SUBSTITUTIONS[part_name]\n        if sub in pep440_pattern:",
    also=[("                pep440_pattern = pep440_pattern.replace(part_name, substitution)\n        else:\n            pep440_pattern = pep440_pattern.replace(part_name, substitution)",
           "                pep440_pattern = pep440_pattern.replace(part_name, sub)\n        else:\n            pep440_pattern = pep440_pattern.replace(part_name, sub)")])
exp(N, "harmless", "two `continue` guards merged with `or`",
    "        if part_name not in version_pattern:\n            continue\n        if part_name not in PEP440_PART_SUBSTITUTIONS:\n            continue\n",
    "        if part_name not in version_pattern or part_name not in PEP440_PART_SUBSTITUTIONS:\n            continue\n")
exp(N, "harmless", "`is_numerical_part` negated, branches exchanged",
    "        is_numerical_part = part_name not in ('TAG', 'PYTAG')\n        if is_numerical_part:\n            part_index              = pep440_pattern.find(part_name)\n            is_zero_truncation_part = part_index == 0 or pep440_pattern[part_index - 1] == \".\"\n            if is_zero_truncation_part:\n                pep440_pattern = pep440_pattern.replace(part_name, substitution)\n        else:\n            pep440_pattern = pep440_pattern.replace(part_name, substitution)",
    "        is_tag_part = part_name in ('TAG', 'PYTAG')\n        if is_tag_part:\n            pep440_pattern = pep440_pattern.replace(part_name, substitution)\n        else:\n            part_index              = pep440_pattern.find(part_name)\n            is_zero_truncation_part = part_index == 0 or pep440_pattern[part_index - 1] == \".\"\n            if is_zero_truncation_part:\n                pep440_pattern = pep440_pattern.replace(part_name, substitution)")
exp(N, "harmless", "the after-a-dot test directly in the `if`",
    "            is_zero_truncation_part = part_index == 0 or pep440_pattern[part_index - 1] == \".\"\n            if is_zero_truncation_part:",
    "            if part_index == 0 or pep440_pattern[part_index - 1] == \".\":")
exp(N, "harmless", "`x = x + ...` for `+=`; `_n` for `_`",
    "        pep440_pattern += \"[PYTAGNUM]\"", "        pep440_pattern = pep440_pattern + \"[PYTAGNUM]\"",
    also=[("    pep440_pattern, _ = re.subn(", "    pep440_pattern, _n = re.subn(")])

exp(N, "harmless", "`sorted(PATTERN_PART_FIELDS.keys(), key=len, reverse=True)` for list() + .sort() (harmless1)",
    "    part_names = list(PATTERN_PART_FIELDS.keys())\n    part_names.sort(key=len, reverse=True)\n",
    "    part_names = sorted(PATTERN_PART_FIELDS.keys(), key=len, reverse=True)\n")
exp(N, "harmless", "`sorted(PATTERN_PART_FIELDS, key=len, reverse=True)` (a dict iterates over its keys)",
    "    part_names = list(PATTERN_PART_FIELDS.keys())\n    part_names.sort(key=len, reverse=True)\n",
    "    part_names = sorted(PATTERN_PART_FIELDS, key=len, reverse=True)\n")
exp(N, "break", "`sorted(PATTERN_PART_FIELDS.keys(), key=len)` (ascending: shortest part names first)",
    "    part_names = list(PATTERN_PART_FIELDS.keys())\n    part_names.sort(key=len, reverse=True)\n",
    "    part_names = sorted(PATTERN_PART_FIELDS.keys(), key=len)\n")
exp(N, "break", "`sorted(PATTERN_PART_FIELDS.keys(), reverse=True)` is refused (no key)",
    "    part_names = list(PATTERN_PART_FIELDS.keys())\n    part_names.sort(key=len, reverse=True)\n",
    "    part_names = sorted(PATTERN_PART_FIELDS.keys(), reverse=True)\n")

# ---- normalize_pattern ---------------------------------------------------------------------------------------
N = "normalizePattern"
exp(N, "break", "first replace targets `{pep440_version}`",
    "        normalized_pattern = normalized_pattern.replace(\"{version}\", version_pattern)",
    "        normalized_pattern = normalized_pattern.replace(\"{pep440_version}\", version_pattern)")
exp(N, "break", "`_convert_to_pep440(version_pattern)` -> `(raw_pattern)`",
    "        pep440_version_pattern = _convert_to_pep440(version_pattern)", "        pep440_version_pattern = _convert_to_pep440(raw_pattern)")
exp(N, "break", "`{version}` replaced by `raw_pattern`",
    ".replace(\"{version}\", version_pattern)", ".replace(\"{version}\", raw_pattern)")
exp(N, "break", "second test on `raw_pattern` (a `{pep440_version}` inside the version pattern is missed)",
    "    if \"{pep440_version}\" in normalized_pattern:", "    if \"{pep440_version}\" in raw_pattern:")
exp(N, "break", "`{pep440_version}` replaced by the UNCONVERTED version pattern",
    ".replace(\"{pep440_version}\", pep440_version_pattern)", ".replace(\"{pep440_version}\", version_pattern)")
exp(N, "break", "`return raw_pattern`",
    "    return normalized_pattern\n\n\nSortKey", "    return raw_pattern\n\n\nSortKey")
exp(N, "harmless", "locals renamed",
    "        pep440_version_pattern = _convert_to_pep440(version_pattern)\n        normalized_pattern     = normalized_pattern.replace(\"{pep440_version}\", pep440_version_pattern)",
    "        pv = _convert_to_pep440(version_pattern)\n        normalized_pattern     = normalized_pattern.replace(\"{pep440_version}\", pv)")
exp(N, "harmless", "first test on `normalized_pattern` (same value there); conversion inlined",
    "    if \"{version}\" in raw_pattern:", "    if \"{version}\" in normalized_pattern:",
    also=[("        pep440_version_pattern = _convert_to_pep440(version_pattern)\n        normalized_pattern     = normalized_pattern.replace(\"{pep440_version}\", pep440_version_pattern)",
           "        normalized_pattern     = normalized_pattern.replace(\"{pep440_version}\", _convert_to_pep440(version_pattern))")])
exp(N, "harmless", "negated tests with early return",
    "    if \"{pep440_version}\" in normalized_pattern:\n        pep440_version_pattern = _convert_to_pep440(version_pattern)\n        normalized_pattern     = normalized_pattern.replace(\"{pep440_version}\", pep440_version_pattern)\n\n    return normalized_pattern",
    "    if \"{pep440_version}\" not in normalized_pattern:\n        return normalized_pattern\n    pep440_version_pattern = _convert_to_pep440(version_pattern)\n    return normalized_pattern.replace(\"{pep440_version}\", pep440_version_pattern)")

# ---- compile_pattern / compile_patterns -------------------------------------------------------------------------
N = "compilePattern"
exp(N, "break", "`Pattern(version_pattern, _raw_pattern, regexp)` (raw instead of normalised pattern stored)",
    "    return Pattern(version_pattern, normalized_pattern, regexp)", "    return Pattern(version_pattern, _raw_pattern, regexp)")
exp(N, "break", "default exchanged: `raw_pattern if raw_pattern is None else version_pattern`",
    "    _raw_pattern       = version_pattern if raw_pattern is None else raw_pattern",
    "    _raw_pattern       = raw_pattern if raw_pattern is None else version_pattern")
exp(N, "break", "`_compile_pattern_re(_raw_pattern)` (un-normalised pattern compiled)",
    "    regexp             = _compile_pattern_re(normalized_pattern)", "    regexp             = _compile_pattern_re(_raw_pattern)")
exp(N, "break", "`raw_pattern is None` -> `not raw_pattern` (empty raw pattern treated as absent)",
    "    _raw_pattern       = version_pattern if raw_pattern is None else raw_pattern",
    "    _raw_pattern       = version_pattern if not raw_pattern else raw_pattern")
exp(N, "break", "`normalize_pattern(_raw_pattern, version_pattern)` (arguments exchanged)",
    "    normalized_pattern = normalize_pattern(version_pattern, _raw_pattern)",
    "    normalized_pattern = normalize_pattern(_raw_pattern, version_pattern)")
exp(N, "break", "another decorator",
    "@utils.memo\ndef compile_pattern", "@functools.lru_cache(maxsize=1)\ndef compile_pattern")
exp(N, "harmless", "`raw_pattern if raw_pattern is not None else version_pattern`, locals renamed",
    "    _raw_pattern       = version_pattern if raw_pattern is None else raw_pattern\n    normalized_pattern = normalize_pattern(version_pattern, _raw_pattern)",
    "    rp = raw_pattern if raw_pattern is not None else version_pattern\n    normalized_pattern = normalize_pattern(version_pattern, rp)")
exp(N, "harmless", "`if raw_pattern is None:` statement form",
    "    _raw_pattern       = version_pattern if raw_pattern is None else raw_pattern\n",
    "    if raw_pattern is None:\n        _raw_pattern = version_pattern\n    else:\n        _raw_pattern = raw_pattern\n")
exp(N, "harmless", "memoisation removed; keyword constructor",
    "@utils.memo\ndef compile_pattern", "def compile_pattern",
    also=[("    return Pattern(version_pattern, normalized_pattern, regexp)",
           "    return Pattern(regexp=regexp, version_pattern=version_pattern, raw_pattern=normalized_pattern)")])
N = "compilePatterns"
exp(N, "break", "arguments of `compile_pattern` exchanged",
    "    return [compile_pattern(version_pattern, raw_pattern) for raw_pattern in raw_patterns]",
    "    return [compile_pattern(raw_pattern, version_pattern) for raw_pattern in raw_patterns]")
exp(N, "break", "raw pattern not passed (every pattern compiled as the version pattern)",
    "    return [compile_pattern(version_pattern, raw_pattern) for raw_pattern in raw_patterns]",
    "    return [compile_pattern(version_pattern) for raw_pattern in raw_patterns]")
exp(N, "break", "first raw pattern skipped",
    "for raw_pattern in raw_patterns]", "for raw_pattern in raw_patterns[1:]]")
exp(N, "break", "order reversed",
    "for raw_pattern in raw_patterns]", "for raw_pattern in reversed(raw_patterns)]")
exp(N, "break", "filter added: empty raw patterns dropped",
    "for raw_pattern in raw_patterns]", "for raw_pattern in raw_patterns if raw_pattern]")
exp(N, "harmless", "comprehension variable renamed",
    "    return [compile_pattern(version_pattern, raw_pattern) for raw_pattern in raw_patterns]",
    "    return [compile_pattern(version_pattern, rp) for rp in raw_patterns]")
exp(N, "harmless", "comprehension -> loop with append",
    "    return [compile_pattern(version_pattern, raw_pattern) for raw_pattern in raw_patterns]",
    "    result = []\n    for raw_pattern in raw_patterns:\n        result.append(compile_pattern(version_pattern, raw_pattern))\n    return result")
exp(N, "harmless", "result in a local",
    "    return [compile_pattern(version_pattern, raw_pattern) for raw_pattern in raw_patterns]",
    "    compiled = [compile_pattern(version_pattern, raw_pattern) for raw_pattern in raw_patterns]\n    return compiled")


def run(cmd, **kw):
    return subprocess.run(cmd, stdout=subprocess.PIPE, stderr=subprocess.STDOUT, text=True, **kw)


def write_gen(files):
    for fname, content in files.items():
        path = os.path.join(GEN, fname)
        old = open(path, encoding="utf-8").read() if os.path.exists(path) else None
        if old != content:
            open(path, "w", encoding="utf-8").write(content)


def main():
    only = set(sys.argv[1:])
    import translate_patterns
    results = []
    for e in E:
        if only and e["name"] not in only:
            continue
        if os.path.exists(SCRATCH):
            shutil.rmtree(SCRATCH)
        shutil.copytree("/repo/src", os.path.join(SCRATCH, "src"))
        path = os.path.join(SCRATCH, "src", "bumpver", e["file"])
        src = open(path, encoding="utf-8").read()
        for old, new in [(e["old"], e["new"])] + e["also"]:
            if src.count(old) != 1:
                print("!! edit text occurs %d times: %r" % (src.count(old), old))
                return 2
            src = src.replace(old, new)
        open(path, "w", encoding="utf-8").write(src)
        os.environ["VERIF_REPO"] = SCRATCH
        rep = []
        files = translate_patterns.generate(rep)
        del os.environ["VERIF_REPO"]
        genmod, tie = TIE[e["name"]]
        fname = "F_%s.lean" % e["name"]
        err = [x for x in rep if x[1] == fname][0][2]
        write_gen(files)
        b = run(["timeout", "600", "lake", "build", "BumpverVerif.Gen.%s" % genmod], cwd=LEAN)
        if b.returncode != 0:
            outcome = "generated file does not compile"
            ok = False
        else:
            t = run(["timeout", "600", "lake", "env", "lean", "BumpverVerif/Proofs/%s.lean" % tie], cwd=LEAN)
            ok = t.returncode == 0 and "error" not in t.stdout
            if ok:
                outcome = "%s.lean compiles" % tie
            else:
                first = [ln for ln in t.stdout.splitlines() if "error" in ln][:1]
                outcome = "%s.lean FAILS: %s" % (tie, (first[0] if first else "rc=%d" % t.returncode)[:100])
        if err is not None:
            outcome = "UNTRANSLATABLE (%s); %s" % (err.reason[:90], outcome[:50])
        verdict = "as intended" if ok == (e["kind"] == "harmless") else "** NOT as intended **"
        results.append((e, outcome, verdict))
        print("%-20s %-9s %-80s -> %s [%s]" % (e["name"], e["kind"], e["label"], outcome, verdict), flush=True)
    # restore
    shutil.rmtree(SCRATCH, ignore_errors=True)
    write_gen(translate_patterns.generate())
    mods = sorted({"BumpverVerif.Proofs.%s" % TIE[e["name"]][1] for e, _, _ in results})
    if mods:
        b = run(["timeout", "1800", "lake", "build"] + mods, cwd=LEAN)
        print("restore build:", "ok" if b.returncode == 0 else b.stdout[-2000:])
    bad = [r for r in results if r[2] != "as intended"]
    print("%d experiments, %d not as intended" % (len(results), len(bad)))
    return 0


if __name__ == "__main__":
    sys.exit(main())
