#!/bin/sh
# usage: harness/dev/harmless_check.sh <dir under seeded/ that holds a behaviour-preserving patch.diff>  [check ids…]
# Runs the quick checks from a PRIVATE COPY of this verif tree against a scratch worktree of /repo carrying the patch:
# every check must exit 0 (a non-zero exit is a FALSE ALARM of the machinery).  Nothing is written to /repo or to this tree.
set -u
HERE=$(cd "$(dirname "$0")/../.." && pwd)
P="$HERE/seeded/$1/patch.diff"; shift
[ -f "$P" ] || { echo "no such patch: $P"; exit 2; }
T=$(mktemp -d /tmp/harmless.XXXXXX)
git -C "${VERIF_REPO:-/repo}" worktree add -q "$T/wt" HEAD || exit 2
git -C "$T/wt" apply "$P" || { echo "patch does not apply"; git -C "${VERIF_REPO:-/repo}" worktree remove --force "$T/wt"; rm -rf "$T"; exit 2; }
rsync -a --exclude .git --exclude replays --exclude seeded "$HERE/" "$T/verif/" && mkdir -p "$T/verif/replays"
cd "$T/verif"
rc=0
if [ $# -eq 0 ]; then
  VERIF_REPO="$T/wt" ./run_all.sh quick 2>&1 | grep -E "exit=|VIOLATION" ; 
else
  for c in "$@"; do VERIF_REPO="$T/wt" ./check "$c" --tier quick 2>&1 | tail -1; done
fi
git -C "${VERIF_REPO:-/repo}" worktree remove --force "$T/wt"; rm -rf "$T"
