#!/venv/bin/python
"""Differential test of the NEW trusted primitive of harness/translate_argv.py: the generic `re.sub` of
lean/BumpverVerif/Model/EffK.lean (`BV.TieK.reSub`: regex parser, replacement-template parser, matcher with `\\b`,
scanning loop) against Python's `re.sub`.

Random (pattern, replacement, string) triples inside the modelled fragment (literal characters, `\\b`, `\\B`, groups,
`(?:…)`, alternation; `\\1`…`\\9` and `\\\\` in the template) are evaluated by Lean (`#eval` in a scratch file under
lean/.lake/, nothing is added to the project) and by Python; strings use ASCII plus `é`, and Lean is given the word
class `isAlnum c || c == '_' || c == 'é'` (Python's `\\w` on that alphabet).  Where Lean answers `none` (pattern
refused: nullable, bad group reference, outside the fragment) Python must either raise or the pattern must be
nullable / outside the fragment — those cases are only counted.

Usage: /venv/bin/python harness/dev/argv_prims_check.py [n=400] [seed=1]
"""
import os
import random
import re
import subprocess
import sys

HERE = os.path.dirname(os.path.abspath(__file__))
VERIF = os.path.dirname(os.path.dirname(HERE))
LEAN = os.path.join(VERIF, "lean")

ALPHA = "abOLDNEW _1é-"


def lean_chars(s):
    out = []
    for ch in s:
        if ch == "\\":
            out.append("'\\\\'")
        elif ch == "'":
            out.append("'\\''")
        elif 32 <= ord(ch) < 127:
            out.append("'%s'" % ch)
        else:
            out.append("'\\u%04x'" % ord(ch))
    return "([" + ", ".join(out) + "] : List Char)"


def gen_rx(rnd, depth=0):
    """a random regex source of the fragment"""
    n = rnd.randint(1, 4)
    parts = []
    for _ in range(n):
        k = rnd.random()
        if k < 0.5:
            c = rnd.choice(ALPHA)
            parts.append(re.escape(c) if rnd.random() < 0.3 and c != "é" else c)
        elif k < 0.65:
            parts.append(rnd.choice(["\\b", "\\B"]))
        elif k < 0.85 and depth < 2:
            inner = "|".join(gen_rx(rnd, depth + 1) for _ in range(rnd.randint(1, 3)))
            parts.append(("(%s)" if rnd.random() < 0.7 else "(?:%s)") % inner)
        else:
            parts.append(rnd.choice(["OLD", "NEW", "a", "ab"]))
    return "".join(parts)


def gen_repl(rnd, groups):
    out = []
    for _ in range(rnd.randint(0, 5)):
        k = rnd.random()
        if k < 0.6:
            out.append(rnd.choice("ab{}_X é"))
        elif k < 0.85:
            out.append("\\%d" % rnd.randint(1, max(1, groups + (1 if rnd.random() < 0.1 else 0))))
        else:
            out.append("\\\\")
    return "".join(out)


def gen_str(rnd):
    words = ["OLD", "NEW", "a", "ab", "b", " ", "_", "1", "é", "-", "HOLD", "NEWS", "OLD_"]
    return "".join(rnd.choice(words) for _ in range(rnd.randint(0, 7)))


def main():
    n = int(sys.argv[1]) if len(sys.argv) > 1 else 400
    seed = int(sys.argv[2]) if len(sys.argv) > 2 else 1
    rnd = random.Random(seed)
    cases = [("\\b(OLD|NEW)\\b", "{\\1_VERSION}", s) for s in
             ["bump OLD -> NEW", "HOLD NEWS OLD_ xOLD", "éOLD", "OLD", "", "NEW.OLD", "OLDNEW OLD-NEW", "1OLD _NEW NEW_"]]
    while len(cases) < n:
        p = gen_rx(rnd)
        try:
            groups = re.compile(p).groups
        except re.error:
            continue
        cases.append((p, gen_repl(rnd, groups), gen_str(rnd)))
    lines = ["import BumpverVerif.Model.EffK", "open BV BV.TieK",
             "def pyWord (c : Char) : Bool := isAlnum c || c == '_' || c == 'é'",
             "def show1 (r : Option (List Char)) : String := match r with | none => \"NONE\" | some s => \"SOME:\" ++ String.ofList s"]
    for p, r, s in cases:
        lines.append("#eval IO.println (show1 (reSub pyWord %s %s %s))" % (lean_chars(p), lean_chars(r), lean_chars(s)))
    os.makedirs(os.path.join(LEAN, ".lake"), exist_ok=True)
    f = os.path.join(LEAN, ".lake", "argv-prims-check.lean")
    open(f, "w", encoding="utf-8").write("\n".join(lines) + "\n")
    pr = subprocess.run(["timeout", "900", "lake", "env", "lean", f], cwd=LEAN, capture_output=True, text=True)
    out = [ln for ln in pr.stdout.split("\n")]
    # every #eval prints exactly one line, but the printed string may contain no newline (the alphabet has none)
    res = [ln for ln in out if ln.startswith("NONE") or ln.startswith("SOME:")]
    if pr.returncode != 0 or len(res) != len(cases):
        print("lean failed: rc=%d, %d results for %d cases\n%s" % (pr.returncode, len(res), len(cases), (pr.stdout + pr.stderr)[-1500:]))
        return 2
    agree = refused = refused_ok = bad = 0
    for (p, r, s), got in zip(cases, res):
        try:
            want = re.sub(p, r, s)
            err = None
        except (re.error, IndexError) as ex:
            want, err = None, ex
        if got == "NONE":
            refused += 1
            nullable = err is None and re.compile(p).match("") is not None or (err is None and any(
                m.start() == m.end() for t in (s, "a", " a", "") for m in re.finditer(p, t)))
            if err is not None or nullable:
                refused_ok += 1
            else:
                # refused although Python accepts it and it never matched empty in the probes: acceptable (conservative),
                # reported for information
                print("  (refused by the model, fine for Python) %r %r" % (p, r))
            continue
        if err is not None or got[5:] != want:
            bad += 1
            print("DISAGREE pattern=%r repl=%r string=%r  lean=%r python=%r" % (p, r, s, got[5:], want if err is None else repr(err)))
        else:
            agree += 1
    print("%d cases: %d agree, %d refused by the model (%d of them raise / can match the empty string in Python), %d DISAGREE"
          % (len(cases), agree, refused, refused_ok, bad))
    return 1 if bad else 0


if __name__ == "__main__":
    sys.exit(main())
