#!/venv/bin/python
"""Robustness demonstration for harness/translate_v1.py + Proofs/Tie_<name>.lean (group `v1`).

For every experiment: copy /repo/src to a scratch tree, apply ONE textual edit to the Python source, run the
translator with VERIF_REPO pointing at the scratch tree, write the regenerated Gen/F_<name>.lean, rebuild that
module and type-check Proofs/Tie_<name>.lean.

  kind 'break'   : a plausible semantic one-token edit  -> the tie must NO LONGER compile (or UNTRANSLATABLE)
  kind 'harmless': a semantics-preserving rewrite        -> the tie must still compile

Afterwards the generated files are restored from the unmodified /repo and the scratch tree removed.
Usage: /venv/bin/python harness/dev/v1_tie_experiments.py [name ...]      (output: v1_tie_experiments.out.txt)
"""
import os
import shutil
import subprocess
import sys
import tempfile

HERE = os.path.dirname(os.path.abspath(__file__))
HARNESS = os.path.dirname(HERE)
VERIF = os.path.dirname(HARNESS)
LEAN = os.path.join(VERIF, "lean")
GEN = os.path.join(LEAN, "BumpverVerif", "Gen")
sys.path.insert(0, HARNESS)

E = []


def exp(name, file, kind, label, old, new, also=()):
    E.append(dict(name=name, file=file, kind=kind, label=label, old=old, new=new, also=list(also)))


V1 = "v1version.py"
P1 = "v1patterns.py"

# ---- 1. _parse_field_values ------------------------------------------------------------------------------
N = "v1ParseFieldValues"
exp(N, V1, "break", "quarter derived BEFORE the day-of-year step (seeded/C20-quarter-derived-before-doy)",
    "    doy = int(fvals['doy']) if 'doy' in fvals else None\n\n    month: typ.Optional[int]\n    dom  : typ.Optional[int]\n\n"
    "    if year and doy:\n        date  = version.date_from_doy(year, doy)\n        month = date.month\n        dom   = date.day\n"
    "    else:\n        month = int(fvals['month']) if 'month' in fvals else None\n        dom   = int(fvals['dom'  ]) if 'dom' in fvals else None\n",
    "    quarter = int(fvals['quarter']) if 'quarter' in fvals else None\n    month   = int(fvals['month'  ]) if 'month' in fvals else None\n"
    "    dom     = int(fvals['dom'    ]) if 'dom' in fvals else None\n    doy     = int(fvals['doy'    ]) if 'doy' in fvals else None\n\n"
    "    if quarter is None and month:\n        quarter = version.quarter_from_month(month)\n\n"
    "    if year and doy:\n        date  = version.date_from_doy(year, doy)\n        month = date.month\n        dom   = date.day\n",
    also=[("    quarter = int(fvals['quarter']) if 'quarter' in fvals else None\n    if quarter is None and month:\n"
           "        quarter = version.quarter_from_month(month)\n\n    major =", "    major =")])
exp(N, V1, "break", "`year < 100` -> `year <= 100`",
    "    if year is not None and year < 100:", "    if year is not None and year <= 100:")
exp(N, V1, "break", "`year += 2000` -> `year += 1900`", "        year += 2000", "        year += 1900")
exp(N, V1, "break", "`if year and doy` -> `is not None` tests (doy 0 / year 0 now derive a date)",
    "    if year and doy:", "    if year is not None and doy is not None:")
exp(N, V1, "break", "iso_week from `%U` instead of `%W`",
    "        iso_week = int(date.strftime(\"%W\"), base=10)", "        iso_week = int(date.strftime(\"%U\"), base=10)")
exp(N, V1, "break", "`month = date.month` -> `date.day`", "        month = date.month", "        month = date.day")
exp(N, V1, "break", "default bid \"0001\" -> \"0000\"",
    "    bid = fvals['bid'] if 'bid' in fvals else \"0001\"", "    bid = fvals['bid'] if 'bid' in fvals else \"0000\"")
exp(N, V1, "break", "`TAG_BY_PEP440_TAG.get(tag, tag)` -> `.get(tag, \"final\")`",
    "    tag = version.TAG_BY_PEP440_TAG.get(tag, tag)", "    tag = version.TAG_BY_PEP440_TAG.get(tag, \"final\")")
exp(N, V1, "break", "`quarter is None and month` -> `month` (a given quarter is overwritten)",
    "    if quarter is None and month:", "    if month:")
exp(N, V1, "break", "major read BEFORE quarter (order of the TypeErrors)",
    "    quarter = int(fvals['quarter']) if 'quarter' in fvals else None\n",
    "    major = int(fvals['major']) if 'major' in fvals else 0\n    quarter = int(fvals['quarter']) if 'quarter' in fvals else None\n",
    also=[("        quarter = version.quarter_from_month(month)\n\n    major = int(fvals['major']) if 'major' in fvals else 0\n",
           "        quarter = version.quarter_from_month(month)\n\n")])
exp(N, V1, "break", "doy no longer recomputed from the date",
    "        doy      = int(date.strftime(\"%j\"), base=10)\n", "")
exp(N, V1, "break", "`'dom' in fvals` -> `'doy' in fvals`",
    "        dom   = int(fvals['dom'  ]) if 'dom' in fvals else None", "        dom   = int(fvals['dom'  ]) if 'doy' in fvals else None")
exp(N, V1, "break", "`year and month and dom` -> `year and month` (dom 0 / None reaches dt.date)",
    "    if year and month and dom:", "    if year and month:")
exp(N, V1, "harmless", "local `fvals` renamed, comment added",
    "    fvals = field_values\n    tag   = fvals.get('tag')", "    fvals = field_values  # alias\n    tag   = field_values.get('tag')")
exp(N, V1, "harmless", "conjuncts commuted: `if doy and year`, `if dom and month and year`",
    "    if year and doy:", "    if doy and year:",
    also=[("    if year and month and dom:", "    if dom and month and year:")])
exp(N, V1, "harmless", "if/else flipped with negated test",
    "    if year and doy:\n        date  = version.date_from_doy(year, doy)\n        month = date.month\n        dom   = date.day\n    else:\n"
    "        month = int(fvals['month']) if 'month' in fvals else None\n        dom   = int(fvals['dom'  ]) if 'dom' in fvals else None\n",
    "    if not (year and doy):\n        month = int(fvals['month']) if 'month' in fvals else None\n        dom   = int(fvals['dom'  ]) if 'dom' in fvals else None\n"
    "    else:\n        date  = version.date_from_doy(year, doy)\n        month = date.month\n        dom   = date.day\n")
exp(N, V1, "harmless", "`None if 'year' not in fvals else int(...)`; `fvals.get('bid', \"0001\")`-free variant of bid",
    "    year = int(fvals['year']) if 'year' in fvals else None", "    year = None if 'year' not in fvals else int(fvals['year'])",
    also=[("    bid = fvals['bid'] if 'bid' in fvals else \"0001\"", "    bid = \"0001\" if not ('bid' in fvals) else fvals['bid']")])
exp(N, V1, "harmless", "`year += 2000` -> `year = 2000 + year`; quarter via a local",
    "        year += 2000", "        year = 2000 + year",
    also=[("        quarter = version.quarter_from_month(month)", "        q = version.quarter_from_month(month)\n        quarter = q")])

# ---- 2a. _parse_version_info (two statements) -----------------------------------------------------------------
N = "v1ParseGroups"
exp(N, V1, "break", "`_parse_pattern_groups` skipped (field values = the raw groups)",
    "    field_values = _parse_pattern_groups(pattern_groups)\n    return _parse_field_values(field_values)",
    "    field_values = pattern_groups\n    return _parse_field_values(field_values)")
exp(N, V1, "break", "`_parse_field_values(pattern_groups)` (the checked dict is dropped)",
    "    return _parse_field_values(field_values)", "    return _parse_field_values(pattern_groups)")
exp(N, V1, "break", "ValueError of the derivation swallowed into a PatternError here",
    "    field_values = _parse_pattern_groups(pattern_groups)\n    return _parse_field_values(field_values)",
    "    field_values = _parse_pattern_groups(pattern_groups)\n    try:\n        return _parse_field_values(field_values)\n"
    "    except ValueError:\n        raise version.PatternError(\"bad\")")
exp(N, V1, "harmless", "local renamed, result through a local",
    "    field_values = _parse_pattern_groups(pattern_groups)\n    return _parse_field_values(field_values)",
    "    fv = _parse_pattern_groups(pattern_groups)\n    vinfo = _parse_field_values(fv)\n    return vinfo")
exp(N, V1, "harmless", "nested call, keyword argument",
    "    field_values = _parse_pattern_groups(pattern_groups)\n    return _parse_field_values(field_values)",
    "    return _parse_field_values(field_values=_parse_pattern_groups(pattern_groups))")
exp(N, V1, "harmless", "docstring replaced by a comment, pass added",
    "    field_values = _parse_pattern_groups(pattern_groups)\n    return _parse_field_values(field_values)",
    "    pass  # groups -> fields\n    field_values = _parse_pattern_groups(pattern_groups)\n    return _parse_field_values(field_values)")

# ---- 2b. parse_version_info ------------------------------------------------------------------------------------
N = "v1ParseVersionInfo"
exp(N, V1, "break", "incomplete-match check `<` -> `<=` (every full match rejected)",
    "    elif len(match.group()) < len(version_str):", "    elif len(match.group()) <= len(version_str):")
exp(N, V1, "break", "incomplete-match check disabled (`<` -> `>`): the pre-repair prefix match",
    "    elif len(match.group()) < len(version_str):", "    elif len(match.group()) > len(version_str):")
exp(N, V1, "break", "`except ValueError` -> `except TypeError`",
    "        except ValueError as ex:\n            # e.g.", "        except TypeError as ex:\n            # e.g.")
exp(N, V1, "break", "handler re-raises a ValueError instead of PatternError",
    "            raise version.PatternError(err_msg) from ex", "            raise ValueError(err_msg) from ex")
exp(N, V1, "break", "`regexp.match(version_str)` -> `.match(raw_pattern)`",
    "    match   = pattern.regexp.match(version_str)", "    match   = pattern.regexp.match(raw_pattern)")
exp(N, V1, "break", "`compile_pattern(raw_pattern)` -> `compile_pattern(version_str)`",
    "    pattern = v1patterns.compile_pattern(raw_pattern)\n    match   = pattern.regexp.match(version_str)",
    "    pattern = v1patterns.compile_pattern(version_str)\n    match   = pattern.regexp.match(version_str)")
exp(N, V1, "break", "no-match case returns through the parser instead of raising (`is None` -> `is not None`)",
    "    if match is None:\n        err_msg = (\n            f\"Invalid version string", "    if match is not None:\n        err_msg = (\n            f\"Invalid version string")
exp(N, V1, "harmless", "local `match` renamed, comparison turned around",
    "    match   = pattern.regexp.match(version_str)\n    if match is None:", "    mo = pattern.regexp.match(version_str)\n    if mo is None:",
    also=[("    elif len(match.group()) < len(version_str):", "    elif len(version_str) > len(mo.group()):"),
          ("{match.group()}", "{mo.group()}"), ("match.groupdict()", "mo.groupdict()")])
exp(N, V1, "harmless", "elif -> else: if; message texts changed",
    "    elif len(match.group()) < len(version_str):\n        err_msg = (\n            f\"Incomplete match '{match.group()}' for version string '{version_str}' \"\n"
    "            f\"with pattern '{raw_pattern}'/'{pattern.regexp.pattern}'\"\n        )\n        raise version.PatternError(err_msg)\n    else:\n"
    "        try:\n            return _parse_version_info(match.groupdict())\n        except ValueError as ex:\n"
    "            # e.g. \"2021.02.30\": matches the pattern but is not a date\n            err_msg = f\"Invalid date in version string '{version_str}': {ex}\"\n"
    "            raise version.PatternError(err_msg) from ex\n",
    "    else:\n        if len(match.group()) < len(version_str):\n            raise version.PatternError(f\"Incomplete match for '{version_str}'\")\n"
    "        try:\n            return _parse_version_info(match.groupdict())\n        except ValueError as ex:\n"
    "            raise version.PatternError(\"Invalid date\") from ex\n")
exp(N, V1, "harmless", "`not (a < b)` guard with early return order kept",
    "    elif len(match.group()) < len(version_str):", "    elif not (len(match.group()) >= len(version_str)):")

# ---- 2c. is_valid --------------------------------------------------------------------------------------------------
N = "v1IsValid"
exp(N, V1, "break", "`return True` -> `return False`",
    "        parse_version_info(version_str, raw_pattern)\n        return True", "        parse_version_info(version_str, raw_pattern)\n        return False")
exp(N, V1, "break", "handler `return False` -> `return True`",
    "    except version.PatternError:\n        return False", "    except version.PatternError:\n        return True")
exp(N, V1, "break", "`except version.PatternError` -> `except ValueError`",
    "        return True\n    except version.PatternError:\n        return False", "        return True\n    except ValueError:\n        return False")
exp(N, V1, "break", "arguments of parse_version_info exchanged",
    "        parse_version_info(version_str, raw_pattern)\n        return True", "        parse_version_info(raw_pattern, version_str)\n        return True")
exp(N, V1, "break", "try/except removed (PatternError escapes)",
    "    try:\n        parse_version_info(version_str, raw_pattern)\n        return True\n    except version.PatternError:\n        return False",
    "    parse_version_info(version_str, raw_pattern)\n    return True")
exp(N, V1, "harmless", "`return True` after the try statement",
    "    try:\n        parse_version_info(version_str, raw_pattern)\n        return True\n    except version.PatternError:\n        return False",
    "    try:\n        parse_version_info(version_str, raw_pattern)\n    except version.PatternError:\n        return False\n    return True")
exp(N, V1, "harmless", "result bound to a local, keyword arguments",
    "        parse_version_info(version_str, raw_pattern)\n        return True",
    "        vinfo = parse_version_info(version_str, raw_pattern=raw_pattern)\n        return vinfo is not None")
exp(N, V1, "harmless", "`except ... as ex` with a log line",
    "    except version.PatternError:\n        return False", "    except version.PatternError as ex:\n        logger.debug(str(ex))\n        return False")

# ---- 3. incr ---------------------------------------------------------------------------------------------------------
N = "v1Incr"
exp(N, V1, "break", "`_is_cal_gt(old_vinfo, cur_cinfo)` -> arguments exchanged",
    "    if _is_cal_gt(old_vinfo, cur_cinfo):", "    if _is_cal_gt(cur_cinfo, old_vinfo):")
exp(N, V1, "break", "`--major` no longer resets patch",
    "        cur_vinfo = cur_vinfo._replace(major=cur_vinfo.major + 1, minor=0, patch=0)",
    "        cur_vinfo = cur_vinfo._replace(major=cur_vinfo.major + 1, minor=0)")
exp(N, V1, "break", "`--minor` no longer resets patch",
    "        cur_vinfo = cur_vinfo._replace(minor=cur_vinfo.minor + 1, patch=0)",
    "        cur_vinfo = cur_vinfo._replace(minor=cur_vinfo.minor + 1)")
exp(N, V1, "break", "`if tag:` -> `if tag is not None:` (an empty tag replaces the tag)",
    "    if tag:\n        cur_vinfo = cur_vinfo._replace(tag=tag)", "    if tag is not None:\n        cur_vinfo = cur_vinfo._replace(tag=tag)")
exp(N, V1, "break", "`new_version == old_version` -> `!=`",
    "    if new_version == old_version:", "    if new_version != old_version:")
exp(N, V1, "break", "`--tag-num` rejected BEFORE the id step (order of NotImplementedError / OverflowError)",
    "    cur_vinfo = cur_vinfo._replace(bid=lexid.next_id(cur_vinfo.bid))\n",
    "    if tag_num:\n        raise NotImplementedError(\"--tag-num not supported for old style patterns\")\n    cur_vinfo = cur_vinfo._replace(bid=lexid.next_id(cur_vinfo.bid))\n")
exp(N, V1, "break", "`if pin_date` -> `if not pin_date`",
    "    cur_cinfo = _ver_to_cal_info(old_vinfo) if pin_date else cal_info(date)",
    "    cur_cinfo = _ver_to_cal_info(old_vinfo) if not pin_date else cal_info(date)")
exp(N, V1, "break", "`maybe_date` ignored (always TODAY)",
    "    date = version.TODAY if maybe_date is None else maybe_date", "    date = version.TODAY if maybe_date is None else version.TODAY")
exp(N, V1, "break", "PatternError handler returns the old version instead of None",
    "        logger.error(str(ex))\n        return None", "        logger.error(str(ex))\n        return old_version")
exp(N, V1, "break", "`next_id(cur_vinfo.bid)` -> `next_id(old_vinfo.bid)` is the same here; id step DROPPED instead",
    "    cur_vinfo = cur_vinfo._replace(bid=lexid.next_id(cur_vinfo.bid))\n", "    cur_vinfo = cur_vinfo._replace(bid=cur_vinfo.bid)\n")
exp(N, V1, "break", "future guard dropped (calendar always replaced)",
    "        cur_vinfo = old_vinfo\n    else:", "        cur_vinfo = old_vinfo._replace(**cur_cinfo._asdict())\n    else:")
exp(N, V1, "break", "`patch=cur_vinfo.patch + 1` -> `+ 2`",
    "        cur_vinfo = cur_vinfo._replace(patch=cur_vinfo.patch + 1)", "        cur_vinfo = cur_vinfo._replace(patch=cur_vinfo.patch + 2)")
exp(N, V1, "harmless", "future guard negated with exchanged branches",
    "    if _is_cal_gt(old_vinfo, cur_cinfo):\n        logger.warning(f\"Old version appears to be from the future '{old_version}'\")\n        cur_vinfo = old_vinfo\n"
    "    else:\n        cur_vinfo = old_vinfo._replace(**cur_cinfo._asdict())\n",
    "    if not _is_cal_gt(old_vinfo, cur_cinfo):\n        cur_vinfo = old_vinfo._replace(**cur_cinfo._asdict())\n"
    "    else:\n        logger.warning(\"future\")\n        cur_vinfo = old_vinfo\n")
exp(N, V1, "harmless", "`maybe_date if maybe_date is not None else TODAY`; `!=` with exchanged returns",
    "    date = version.TODAY if maybe_date is None else maybe_date", "    date = maybe_date if maybe_date is not None else version.TODAY",
    also=[("    if new_version == old_version:\n        logger.error(\"Invalid arguments or pattern, version did not change.\")\n        return None\n    else:\n        return new_version",
           "    if new_version != old_version:\n        return new_version\n    logger.error(\"no change\")\n    return None")])
exp(N, V1, "harmless", "id step through locals; `+ 1` commuted",
    "    cur_vinfo = cur_vinfo._replace(bid=lexid.next_id(cur_vinfo.bid))\n",
    "    next_bid = lexid.next_id(cur_vinfo.bid)\n    cur_vinfo = cur_vinfo._replace(bid=next_bid)\n",
    also=[("        cur_vinfo = cur_vinfo._replace(patch=cur_vinfo.patch + 1)", "        cur_vinfo = cur_vinfo._replace(patch=1 + cur_vinfo.patch)")])
exp(N, V1, "harmless", "`if pin_date:` statement instead of the conditional expression",
    "    cur_cinfo = _ver_to_cal_info(old_vinfo) if pin_date else cal_info(date)",
    "    if pin_date:\n        cur_cinfo = _ver_to_cal_info(old_vinfo)\n    else:\n        cur_cinfo = cal_info(date)")

# ---- 4. format_version ---------------------------------------------------------------------------------------------
N = "v1FormatVersion"
exp(N, V1, "break", "release separator `\"-\" + release_tag` -> `\".\" + release_tag`",
    "        kwargs['release'   ] = \"-\" + release_tag", "        kwargs['release'   ] = \".\" + release_tag")
exp(N, V1, "break", "`PEP440_TAG_BY_TAG[release_tag] + \"0\"` -> `+ \"1\"`",
    "        kwargs['pep440_tag'] = version.PEP440_TAG_BY_TAG[release_tag] + \"0\"",
    "        kwargs['pep440_tag'] = version.PEP440_TAG_BY_TAG[release_tag] + \"1\"")
exp(N, V1, "break", "`release_tag == 'final'` -> `!=`", "    if release_tag == 'final':", "    if release_tag != 'final':")
exp(N, V1, "break", "`yy` without the `[-2:]` slice", "        kwargs['yy'  ] = str(year)[-2:]", "        kwargs['yy'  ] = str(year)")
exp(N, V1, "break", "`if year:` -> `if year is not None:` (year 0 gets yy/yyyy)",
    "    year = vinfo.year\n    if year:", "    year = vinfo.year\n    if year is not None:")
exp(N, V1, "break", "`BID = int(vinfo.bid, 10)` -> the string itself (zero padding kept)",
    "    kwargs['BID'] = int(vinfo.bid, 10)", "    kwargs['BID'] = vinfo.bid")
exp(N, V1, "break", "`part_name.lower() == field.lower()` -> `part_name == field` (MAJOR gets zero-filled text)",
    "        if part_name.lower() == field.lower():", "        if part_name == field:")
exp(N, V1, "break", "`padded_len = len(part_name)` -> `+ 1`",
    "            padded_len = len(part_name)", "            padded_len = len(part_name) + 1")
exp(N, V1, "break", "composite expansion: `\"{\" + part_name + \"}\"` -> `\"{\" + part_name`",
    "        full_pattern = full_pattern.replace(\"{\" + part_name + \"}\", full_part_format)",
    "        full_pattern = full_pattern.replace(\"{\" + part_name, full_part_format)")
exp(N, V1, "break", "`kwargs['release_tag']` no longer bound", "    kwargs['release_tag'] = release_tag\n", "")
exp(N, V1, "break", "`str(val).zfill(padded_len)` -> `str(val)` (no padding)",
    "            kwargs[part_name] = str(val).zfill(padded_len)", "            kwargs[part_name] = str(val)")
exp(N, V1, "break", "`release` bound AFTER `pep440_tag` in the else branch (order of the bindings)",
    "        kwargs['release'   ] = \"-\" + release_tag\n        kwargs['pep440_tag'] = version.PEP440_TAG_BY_TAG[release_tag] + \"0\"",
    "        kwargs['pep440_tag'] = version.PEP440_TAG_BY_TAG[release_tag] + \"0\"\n        kwargs['release'   ] = \"-\" + release_tag")
exp(N, V1, "harmless", "`!= 'final'` with exchanged branches",
    "    if release_tag == 'final':\n        kwargs['release'   ] = \"\"\n        kwargs['pep440_tag'] = \"\"\n    else:\n"
    "        kwargs['release'   ] = \"-\" + release_tag\n        kwargs['pep440_tag'] = version.PEP440_TAG_BY_TAG[release_tag] + \"0\"\n",
    "    if release_tag != 'final':\n        kwargs['release'   ] = \"-\" + release_tag\n"
    "        kwargs['pep440_tag'] = version.PEP440_TAG_BY_TAG[release_tag] + \"0\"\n    else:\n"
    "        kwargs['release'   ] = \"\"\n        kwargs['pep440_tag'] = \"\"\n")
exp(N, V1, "harmless", "placeholder through a local, `not isinstance` with exchanged branches",
    "        full_pattern = full_pattern.replace(\"{\" + part_name + \"}\", full_part_format)",
    "        placeholder = \"{\" + part_name + \"}\"\n        full_pattern = full_pattern.replace(placeholder, full_part_format)",
    also=[("            if isinstance(val, str):\n                kwargs[part_name] = int(val, base=10)\n            else:\n                kwargs[part_name] = val",
           "            if not isinstance(val, str):\n                kwargs[part_name] = val\n            else:\n                kwargs[part_name] = int(val, base=10)")])
exp(N, V1, "harmless", "locals renamed, `int(x, base=10)` spelled `int(x)`",
    "    kwargs['BID'] = int(vinfo.bid, 10)", "    bid_text = vinfo.bid\n    kwargs['BID'] = int(bid_text)",
    also=[("            padded_len = len(part_name)\n            kwargs[part_name] = str(val).zfill(padded_len)",
           "            width = len(part_name)\n            kwargs[part_name] = str(val).zfill(width)")])

# ---- 5a. _replace_pattern_parts ----------------------------------------------------------------------------------------
N = "v1ReplacePatternParts"
exp(N, P1, "break", "named group `(?P<name>…)` -> plain group `(…)`",
    "        named_part_pattern = f\"(?P<{part_name}>{part_pattern})\"", "        named_part_pattern = f\"({part_pattern})\"")
exp(N, P1, "break", "placeholder not escaped (`{name}` instead of `\\{name\\}`)",
    "        placeholder        = \"\\u005c{\" + part_name + \"\\u005c}\"", "        placeholder        = \"{\" + part_name + \"}\"")
exp(N, P1, "break", "`replace(placeholder, named)` -> `replace(named, placeholder)`",
    "        pattern            = pattern.replace(placeholder, named_part_pattern)",
    "        pattern            = pattern.replace(named_part_pattern, placeholder)")
exp(N, P1, "break", "name and regex exchanged in the group",
    "        named_part_pattern = f\"(?P<{part_name}>{part_pattern})\"", "        named_part_pattern = f\"(?P<{part_pattern}>{part_name})\"")
exp(N, P1, "break", "closing `)` dropped",
    "        named_part_pattern = f\"(?P<{part_name}>{part_pattern})\"", "        named_part_pattern = f\"(?P<{part_name}>{part_pattern}\"")
exp(N, P1, "break", "replacement applied to the ORIGINAL pattern each time (`pattern = src.replace`)",
    "def _replace_pattern_parts(pattern: str) -> str:\n", "def _replace_pattern_parts(pattern: str) -> str:\n    src = pattern\n",
    also=[("        pattern            = pattern.replace(placeholder, named_part_pattern)",
           "        pattern            = src.replace(placeholder, named_part_pattern)")])
exp(N, P1, "harmless", "f-string -> concatenation, locals renamed",
    "        named_part_pattern = f\"(?P<{part_name}>{part_pattern})\"\n        placeholder        = \"\\u005c{\" + part_name + \"\\u005c}\"\n"
    "        pattern            = pattern.replace(placeholder, named_part_pattern)",
    "        grp = \"(?P<\" + part_name + \">\" + part_pattern + \")\"\n        ph = \"\\u005c{\" + part_name + \"\\u005c}\"\n"
    "        pattern = pattern.replace(ph, grp)")
exp(N, P1, "harmless", "placeholder inlined, docstring added",
    "        placeholder        = \"\\u005c{\" + part_name + \"\\u005c}\"\n        pattern            = pattern.replace(placeholder, named_part_pattern)",
    "        pattern = pattern.replace(\"\\u005c{\" + part_name + \"\\u005c}\", named_part_pattern)",
    also=[("def _replace_pattern_parts(pattern: str) -> str:\n", "def _replace_pattern_parts(pattern: str) -> str:\n    \"\"\"Substitute the parts.\"\"\"\n")])
exp(N, P1, "harmless", "result through a local, `return res`",
    "    return pattern\n\n\ndef _init_composite_patterns", "    res = pattern\n    return res\n\n\ndef _init_composite_patterns")

# ---- 5b. _compile_pattern_re ----------------------------------------------------------------------------------------------
N = "v1CompilePatternRe"
exp(N, P1, "break", "escape loop body: `replace(char, escaped)` -> `replace(escaped, char)`",
    "        escaped_pattern = escaped_pattern.replace(char, escaped)", "        escaped_pattern = escaped_pattern.replace(escaped, char)")
exp(N, P1, "break", "parts substituted into the UNESCAPED pattern",
    "    pattern_str = _replace_pattern_parts(escaped_pattern)", "    pattern_str = _replace_pattern_parts(normalized_pattern)")
exp(N, P1, "break", "`re.compile(pattern_str)` -> `re.compile(escaped_pattern)` (parts never substituted)",
    "    return re.compile(pattern_str)", "    return re.compile(escaped_pattern)")
exp(N, P1, "break", "escape loop no longer accumulates (`= normalized_pattern.replace`)",
    "        escaped_pattern = escaped_pattern.replace(char, escaped)", "        escaped_pattern = normalized_pattern.replace(char, escaped)")
exp(N, P1, "break", "only the first character class escaped: loop over `RE_PATTERN_ESCAPES[:1]`-like guard `if char == \"-\"`",
    "        escaped_pattern = escaped_pattern.replace(char, escaped)",
    "        if char == \"-\":\n            escaped_pattern = escaped_pattern.replace(char, escaped)")
exp(N, P1, "harmless", "loop variable a pair with constant subscripts; locals renamed",
    "    for char, escaped in RE_PATTERN_ESCAPES:\n        escaped_pattern = escaped_pattern.replace(char, escaped)",
    "    for pair in RE_PATTERN_ESCAPES:\n        escaped_pattern = escaped_pattern.replace(pair[0], pair[1])")
exp(N, P1, "harmless", "result of re.compile through a local",
    "    return re.compile(pattern_str)", "    regexp = re.compile(pattern_str)\n    return regexp")
exp(N, P1, "harmless", "nested call",
    "    pattern_str = _replace_pattern_parts(escaped_pattern)\n    return re.compile(pattern_str)",
    "    return re.compile(_replace_pattern_parts(escaped_pattern))")

# ---- 5c. _normalized_pattern (content of the replacement literals is ALSO read by the table generator into
#          Gen.v1Pep440VersionMap: in a full ./check run such an edit moves model and code together and is caught by the
#          C20/C15 theorems over the regenerated table, not by this tie; here only translate_v1 is re-run) -----------------
N = "v1NormalizedPattern"
exp(N, P1, "break", "`{version}` no longer substituted",
    "    res = raw_pattern.replace(r\"{version}\", version_pattern)", "    res = raw_pattern")
exp(N, P1, "break", "`==` -> `!=` in the `{semver}` test",
    "    elif version_pattern == r\"{semver}\":", "    elif version_pattern != r\"{semver}\":")
exp(N, P1, "break", "`{pep440_version}` replaced in `raw_pattern` instead of `res` (loses the `{version}` step)",
    "        res = res.replace(r\"{pep440_version}\", r\"{pep440_pycalver}\")", "        res = raw_pattern.replace(r\"{pep440_version}\", r\"{pep440_pycalver}\")")
exp(N, P1, "break", "the month dropped from the derived pattern (seeded/C20-pep440-month-dropped) [table content]",
    "    elif version_pattern == r\"v{year}{month}{build}{release}\":\n        res = res.replace(r\"{pep440_version}\", r\"{year}{month}.{BID}{pep440_tag}\")",
    "    elif version_pattern == r\"v{year}{month}{build}{release}\":\n        res = res.replace(r\"{pep440_version}\", r\"{year}.{BID}{pep440_tag}\")")
exp(N, P1, "break", "the test compares `raw_pattern` instead of `version_pattern`",
    "    if version_pattern == r\"{pycalver}\":", "    if raw_pattern == r\"{pycalver}\":")
exp(N, P1, "break", "replace arguments exchanged in the `{pycalver}` branch",
    "        res = res.replace(r\"{pep440_version}\", r\"{pep440_pycalver}\")", "        res = res.replace(r\"{pep440_pycalver}\", r\"{pep440_version}\")")
exp(N, P1, "harmless", "local renamed, elif -> else: if for the second test",
    "    res = raw_pattern.replace(r\"{version}\", version_pattern)\n    if version_pattern == r\"{pycalver}\":\n        res = res.replace(r\"{pep440_version}\", r\"{pep440_pycalver}\")",
    "    res = raw_pattern.replace(r\"{version}\", version_pattern)\n    vp = version_pattern\n    if vp == r\"{pycalver}\":\n        res = res.replace(r\"{pep440_version}\", r\"{pep440_pycalver}\")")
exp(N, P1, "harmless", "two branches with the same replacement merged with `or`",
    "    elif version_pattern == r\"v{year}{build}{release}\":\n        res = res.replace(r\"{pep440_version}\", r\"{year}.{BID}{pep440_tag}\")\n"
    "    elif version_pattern == r\"{year}{build}{release}\":\n        res = res.replace(r\"{pep440_version}\", r\"{year}.{BID}{pep440_tag}\")\n",
    "    elif version_pattern == r\"v{year}{build}{release}\" or version_pattern == r\"{year}{build}{release}\":\n"
    "        res = res.replace(r\"{pep440_version}\", r\"{year}.{BID}{pep440_tag}\")\n")
exp(N, P1, "harmless", "the warning branch removed (it has no effect on the result)",
    "    elif r\"{pep440_version}\" in raw_pattern:\n        logger.warning(f\"No mapping of '{version_pattern}' to '{{pep440_version}}'\")\n", "")

# ---- 5d. compile_pattern ----------------------------------------------------------------------------------------------------
N = "v1CompilePattern"
exp(N, P1, "break", "default exchanged: `raw_pattern if raw_pattern is None else version_pattern`-like swap",
    "    _raw_pattern       = version_pattern if raw_pattern is None else raw_pattern",
    "    _raw_pattern       = version_pattern if raw_pattern is not None else raw_pattern")
exp(N, P1, "break", "arguments of _normalized_pattern exchanged",
    "    normalized_pattern = _normalized_pattern(version_pattern, _raw_pattern)", "    normalized_pattern = _normalized_pattern(_raw_pattern, version_pattern)")
exp(N, P1, "break", "the raw pattern compiled instead of the normalised one",
    "    regexp             = _compile_pattern_re(normalized_pattern)", "    regexp             = _compile_pattern_re(_raw_pattern)")
exp(N, P1, "break", "first two fields of the result exchanged",
    "    return Pattern(version_pattern, normalized_pattern, regexp)", "    return Pattern(normalized_pattern, version_pattern, regexp)")
exp(N, P1, "break", "`is None` -> truthiness (an EMPTY raw pattern becomes the version pattern)",
    "    _raw_pattern       = version_pattern if raw_pattern is None else raw_pattern",
    "    _raw_pattern       = version_pattern if not raw_pattern else raw_pattern")
exp(N, P1, "harmless", "`is not None` with exchanged branches",
    "    _raw_pattern       = version_pattern if raw_pattern is None else raw_pattern",
    "    _raw_pattern       = raw_pattern if raw_pattern is not None else version_pattern")
exp(N, P1, "harmless", "keyword arguments for the result, in another order",
    "    return Pattern(version_pattern, normalized_pattern, regexp)",
    "    return Pattern(regexp=regexp, version_pattern=version_pattern, raw_pattern=normalized_pattern)")
exp(N, P1, "harmless", "if statement instead of the conditional expression",
    "    _raw_pattern       = version_pattern if raw_pattern is None else raw_pattern",
    "    if raw_pattern is None:\n        _raw_pattern = version_pattern\n    else:\n        _raw_pattern = raw_pattern")

# ---- 6. cli.incr_dispatch -----------------------------------------------------------------------------------------------------
N = "v1IncrDispatch"
CL = "cli.py"
exp(N, CL, "break", "`\"{\" + part + \"}\" in raw_pattern` -> `part in raw_pattern`",
    "    has_v1_part = any(\"{\" + part + \"}\" in raw_pattern for part in v1_parts)", "    has_v1_part = any(part in raw_pattern for part in v1_parts)")
exp(N, CL, "break", "`any` -> `all`",
    "    has_v1_part = any(\"{\" + part + \"}\" in raw_pattern for part in v1_parts)", "    has_v1_part = all(\"{\" + part + \"}\" in raw_pattern for part in v1_parts)")
exp(N, CL, "break", "FULL_PART_FORMATS names no longer count as legacy parts",
    "    v1_parts    = list(v1patterns.PART_PATTERNS) + list(v1patterns.FULL_PART_FORMATS)", "    v1_parts    = list(v1patterns.PART_PATTERNS)")
exp(N, CL, "break", "engines exchanged (`if not has_v1_part`)",
    "    if has_v1_part:\n        return v1version.incr(", "    if not has_v1_part:\n        return v1version.incr(")
exp(N, CL, "break", "legacy call: `major=major` -> `major=minor`",
    "            major=major,\n            minor=minor,\n            patch=patch,\n            tag=tag,\n            tag_num=tag_num,\n            pin_date=pin_date,",
    "            major=minor,\n            minor=minor,\n            patch=patch,\n            tag=tag,\n            tag_num=tag_num,\n            pin_date=pin_date,")
exp(N, CL, "break", "new-engine call: `pin_increments` not passed on",
    "            pin_increments=pin_increments,\n            pin_date=pin_date,\n            maybe_date=maybe_date,\n        )\n\n\ndef _update",
    "            pin_date=pin_date,\n            maybe_date=maybe_date,\n        )\n\n\ndef _update")
exp(N, CL, "break", "legacy call: `maybe_date` not passed on (always TODAY)",
    "            tag_num=tag_num,\n            pin_date=pin_date,\n            maybe_date=maybe_date,\n        )\n    else:",
    "            tag_num=tag_num,\n            pin_date=pin_date,\n        )\n    else:")
exp(N, CL, "break", "brace test on the bare characters (`\"{\" in raw_pattern and \"}\" in raw_pattern`, the gate's test)",
    "    has_v1_part = any(\"{\" + part + \"}\" in raw_pattern for part in v1_parts)", "    has_v1_part = \"{\" in raw_pattern and \"}\" in raw_pattern")
exp(N, CL, "harmless", "local renamed, list comprehension inside any()",
    "    has_v1_part = any(\"{\" + part + \"}\" in raw_pattern for part in v1_parts)\n",
    "    has_v1_part = any([(\"{\" + p + \"}\") in raw_pattern for p in v1_parts])\n")
exp(N, CL, "harmless", "branches exchanged with a negated test",
    "    if has_v1_part:\n        return v1version.incr(", "    use_v2 = not has_v1_part\n    if not use_v2:\n        return v1version.incr(")
exp(N, CL, "harmless", "result of the legacy call through a local; keyword order changed",
    "    if has_v1_part:\n        return v1version.incr(\n            old_version,\n            raw_pattern=raw_pattern,\n            major=major,\n            minor=minor,",
    "    if has_v1_part:\n        return v1version.incr(\n            old_version,\n            minor=minor,\n            raw_pattern=raw_pattern,\n            major=major,")


# ---- rewrite kinds of the three independent harmless refactorings (harmless1/2/3.diff), plus semantic edits next to them --
N = "v1IncrDispatch"
ANY = "    has_v1_part = any(\"{\" + part + \"}\" in raw_pattern for part in v1_parts)\n"
exp(N, CL, "harmless", "explicit flag loop with `break` instead of any(...) (harmless2)", ANY,
    "    has_v1_part = False\n    for part in v1_parts:\n        if \"{\" + part + \"}\" in raw_pattern:\n            has_v1_part = True\n            break\n")
exp(N, CL, "break", "flag loop that sets the flag to False (never legacy)", ANY,
    "    has_v1_part = False\n    for part in v1_parts:\n        if \"{\" + part + \"}\" in raw_pattern:\n            has_v1_part = False\n            break\n")
exp(N, CL, "break", "flag loop testing `part in raw_pattern`", ANY,
    "    has_v1_part = False\n    for part in v1_parts:\n        if part in raw_pattern:\n            has_v1_part = True\n            break\n")
N = "v1IsValid"
TRY = "    try:\n        parse_version_info(version_str, raw_pattern)\n        return True\n    except version.PatternError:\n        return False"
exp(N, V1, "harmless", "try / except / else (harmless3)", TRY,
    "    try:\n        parse_version_info(version_str, raw_pattern)\n    except version.PatternError:\n        return False\n    else:\n        return True")
exp(N, V1, "break", "try / except / else with `else: return False`", TRY,
    "    try:\n        parse_version_info(version_str, raw_pattern)\n    except version.PatternError:\n        return False\n    else:\n        return False")
N = "v1NormalizedPattern"
OR4 = ("    elif version_pattern == r\"v{year}{month}{build}{release}\":\n        res = res.replace(r\"{pep440_version}\", r\"{year}{month}.{BID}{pep440_tag}\")\n"
       "    elif version_pattern == r\"{year}{month}{build}{release}\":\n        res = res.replace(r\"{pep440_version}\", r\"{year}{month}.{BID}{pep440_tag}\")\n")
exp(N, P1, "harmless", "`version_pattern in (a, b)` for two branches with the same replacement (harmless3)", OR4,
    "    elif version_pattern in (r\"v{year}{month}{build}{release}\", r\"{year}{month}{build}{release}\"):\n"
    "        res = res.replace(r\"{pep440_version}\", r\"{year}{month}.{BID}{pep440_tag}\")\n")
exp(N, P1, "break", "`version_pattern in (a, b)` with a wrong member", OR4,
    "    elif version_pattern in (r\"v{year}{month}{build}{release}\", r\"{year}{month}{build}\"):\n"
    "        res = res.replace(r\"{pep440_version}\", r\"{year}{month}.{BID}{pep440_tag}\")\n")
N = "v1ParseFieldValues"
exp(N, V1, "harmless", "nested ifs for the century, `month and quarter is None`, bid default first (harmless3)",
    "    if year is not None and year < 100:\n        year += 2000", "    if year is not None:\n        if year < 100:\n            year += 2000",
    also=[("    if quarter is None and month:", "    if month and quarter is None:"),
          ("    bid = fvals['bid'] if 'bid' in fvals else \"0001\"", "    bid = \"0001\" if 'bid' not in fvals else fvals['bid']")])
exp(N, V1, "break", "`month and quarter is None` -> `month or quarter is None`",
    "    if quarter is None and month:", "    if month or quarter is None:")
N = "v1FormatVersion"
exp(N, V1, "harmless", "commuted `.lower()` comparison, conditional expression with isinstance, inlined width (harmless3)",
    "        if part_name.lower() == field.lower():\n            if isinstance(val, str):\n                kwargs[part_name] = int(val, base=10)\n"
    "            else:\n                kwargs[part_name] = val",
    "        if field.lower() == part_name.lower():\n            kwargs[part_name] = int(val, base=10) if isinstance(val, str) else val",
    also=[("            padded_len = len(part_name)\n            kwargs[part_name] = str(val).zfill(padded_len)",
           "            kwargs[part_name] = str(val).zfill(len(part_name))")])
exp(N, V1, "break", "conditional expression with the isinstance branches exchanged",
    "            if isinstance(val, str):\n                kwargs[part_name] = int(val, base=10)\n            else:\n                kwargs[part_name] = val",
    "            kwargs[part_name] = val if isinstance(val, str) else int(val, base=10)")


# ---- the five seeded C20 changes of the earlier rounds, applied as the original patches ---------------------------
def exp_patch(name, seeded_dir):
    E.append(dict(name=name, file=None, kind="break", label="seeded/%s (patch.diff as committed)" % seeded_dir,
                  patch=os.path.join(VERIF, "seeded", seeded_dir, "patch.diff"), old="", new="", also=[]))


exp_patch("v1ParseFieldValues", "C20-doy-366-rejected")
exp_patch("v1ParseFieldValues", "C20-quarter-derived-before-doy")
exp_patch("v1Incr", "C20-overflow-falls-back-to-int")
exp_patch("v1NormalizedPattern", "C20-pep440-month-dropped")
exp_patch("v1FormatVersion", "C20-pep440-tag-dotted-post")


# ---- the three independent behaviour-preserving refactorings (whole-file patches): every function of the group must
#      still translate and prove.  The patches live outside the repository ($HARMLESS_DIR, default /tmp/proofwork).
ALL_NAMES = ["v1ParseFieldValues", "v1ParseGroups", "v1ParseVersionInfo", "v1IsValid", "v1Incr", "v1FormatVersion",
             "v1ReplacePatternParts", "v1CompilePatternRe", "v1NormalizedPattern", "v1CompilePattern", "v1IncrDispatch"]
for _n in (1, 2, 3):
    _p = os.path.join(os.environ.get("HARMLESS_DIR", "/tmp/proofwork"), "harmless%d.diff" % _n)
    if os.path.exists(_p):
        for _name in ALL_NAMES:
            E.append(dict(name=_name, file=None, kind="harmless", label="harmless%d.diff (whole patch)" % _n,
                          patch=_p, refactoring=True, old="", new="", also=[]))


def run(cmd, **kw):
    return subprocess.run(cmd, stdout=subprocess.PIPE, stderr=subprocess.STDOUT, text=True, **kw)


def main():
    only = set(a for a in sys.argv[1:] if not a.startswith("-"))
    seeded_only = "--seeded" in sys.argv
    refac_only = "--refactorings" in sys.argv
    import translate_v1
    results = []
    scratch = tempfile.mkdtemp(prefix="v1tie_")
    out_lines = []

    def say(s):
        print(s, flush=True)
        out_lines.append(s)
    try:
        for e in E:
            if only and e["name"] not in only:
                continue
            if seeded_only and not (e.get("patch") and not e.get("refactoring")):
                continue
            if refac_only and not e.get("refactoring"):
                continue
            if os.path.exists(os.path.join(scratch, "src")):
                shutil.rmtree(os.path.join(scratch, "src"))
            shutil.copytree("/repo/src", os.path.join(scratch, "src"))
            if e.get("patch"):
                pr = subprocess.run(["patch", "-p1", "-s", "-d", scratch, "-i", e["patch"]],
                                    stdout=subprocess.PIPE, stderr=subprocess.STDOUT, text=True)
                if pr.returncode != 0:
                    say("!! patch does not apply: %s: %s" % (e["patch"], pr.stdout[:200]))
                    return 2
            else:
                path = os.path.join(scratch, "src", "bumpver", e["file"])
                src = open(path, encoding="utf-8").read()
                bad = False
                for old, new in [(e["old"], e["new"])] + e["also"]:
                    if src.count(old) != 1:
                        say("!! edit text occurs %d times: %r" % (src.count(old), old))
                        bad = True
                        break
                    src = src.replace(old, new)
                if bad:
                    return 2
                open(path, "w", encoding="utf-8").write(src)
                # the edited module must still be valid Python
                c = run(["/venv/bin/python", "-m", "py_compile", path])
                if c.returncode != 0:
                    say("!! edited source does not compile: %s" % e["label"])
                    return 2
            os.environ["VERIF_REPO"] = scratch
            rep = []
            files = translate_v1.generate(rep)
            del os.environ["VERIF_REPO"]
            fname = "F_%s.lean" % e["name"]
            err = [x for x in rep if x[1] == fname][0][2]
            open(os.path.join(GEN, fname), "w", encoding="utf-8").write(files[fname])
            b = run(["timeout", "900", "lake", "build", "BumpverVerif.Gen.F_%s" % e["name"]], cwd=LEAN)
            if b.returncode != 0:
                first = [ln for ln in b.stdout.splitlines() if "error" in ln][:1]
                outcome = "generated file does not compile: %s" % (first[0][:90] if first else "")
                ok = False
            else:
                t = run(["timeout", "900", "lake", "env", "lean", "BumpverVerif/Proofs/Tie_%s.lean" % e["name"]], cwd=LEAN)
                ok = t.returncode == 0 and "error" not in t.stdout
                if ok:
                    outcome = "Tie_%s.lean compiles" % e["name"]
                else:
                    first = [ln for ln in t.stdout.splitlines() if "error" in ln][:1]
                    outcome = "Tie_%s.lean FAILS: %s" % (e["name"], (first[0] if first else "rc=%d" % t.returncode)[:110])
            if err is not None:
                outcome = "UNTRANSLATABLE (%s); %s" % (getattr(err, "reason", err), outcome[:60])
            verdict = "as intended" if ok == (e["kind"] == "harmless") else "** NOT as intended **"
            results.append((e, outcome, verdict))
            say("%-22s %-9s %-78s -> %s [%s]" % (e["name"], e["kind"], e["label"], outcome, verdict))
    finally:
        shutil.rmtree(scratch, ignore_errors=True)
        # restore
        r = run(["/venv/bin/python", os.path.join(HARNESS, "translate_v1.py"), "--write"])
        say(r.stdout.strip())
        mods = sorted({"BumpverVerif.Proofs.Tie_%s" % e["name"] for e, _, _ in results})
        if mods:
            b = run(["timeout", "1800", "lake", "build"] + mods, cwd=LEAN)
            say("restore build: " + ("ok" if b.returncode == 0 else b.stdout[-2000:]))
    nb = sum(1 for e, _, v in results if e["kind"] == "break")
    nh = sum(1 for e, _, v in results if e["kind"] == "harmless")
    okb = sum(1 for e, _, v in results if e["kind"] == "break" and v == "as intended")
    okh = sum(1 for e, _, v in results if e["kind"] == "harmless" and v == "as intended")
    say("SUMMARY: %d/%d semantic edits break the tie, %d/%d harmless rewrites still prove" % (okb, nb, okh, nh))
    if not only and not seeded_only and not refac_only:
        with open(os.path.join(HERE, "v1_tie_experiments.out.txt"), "w", encoding="utf-8") as f:
            f.write("\n".join(out_lines) + "\n")
    return 0


if __name__ == "__main__":
    sys.exit(main())
