#!/venv/bin/python
"""Differential test of the GENERATED Lean definitions of the group `parse` against the real Python functions
(a check of harness/translate_parse.py and of the trusted primitives of Model/PyPrims.lean, independent of the ties).

Random field dicts / dates are run through
    version.date_from_doy, v2version.cal_info, parse_field_values_to_cinfo, parse_field_values_to_vinfo
(with version.TODAY pinned) and through BV.GenF.dateFromDoy / calInfo / parseCinfo / parseVinfo, evaluated with
`lake env lean` on a scratch file (#eval, interpreter).  No regex is involved.  Prints the number of mismatches.
Usage: /venv/bin/python harness/dev/parse_gen_difftest.py [N] [seed]
"""
import datetime as dt
import os
import random
import subprocess
import sys
import tempfile

HERE = os.path.dirname(os.path.abspath(__file__))
VERIF = os.path.dirname(os.path.dirname(HERE))
LEAN = os.path.join(VERIF, "lean")
sys.path.insert(0, "/repo/src")

from bumpver import version, v2version  # noqa: E402

TODAY = dt.date(2024, 5, 17)
version.TODAY = TODAY

CAL = ["year_y", "year_g", "quarter", "month", "dom", "doy", "week_w", "week_u", "week_v"]
EXC = {ValueError: "valueError", OverflowError: "overflow", KeyError: "keyError", TypeError: "typeError",
       AssertionError: "unsupported", version.PatternError: "pattern"}


def lstr(s):
    return '"%s".toList' % s


def ldict(d):
    return "[" + ", ".join("(%s, %s)" % (lstr(k), lstr(v)) for k, v in d.items()) + "]"


def opt(x):
    return "none" if x is None else "(some %d)" % x


def show_cal(c):
    return "cal " + " ".join(opt(getattr(c, f)) for f in CAL)


def show_v(v):
    return "vinfo %s | %d %d %d %s %s %s %d %d %d" % (
        " ".join(opt(getattr(v, f)) for f in CAL), v.major, v.minor, v.patch, v.bid, v.tag, v.pytag, v.num, v.inc0, v.inc1)


def py(f, *a):
    try:
        return f(*a)
    except tuple(EXC) as ex:
        for cls, name in EXC.items():
            if type(ex) is cls:
                return "error " + name
        raise


def rnd_year(r):
    return r.choice(["2021", "1999", "21", "0", "999", "1000", "9999", "10000", "2024", "2020", "5", "0021"])


def rnd_dict(r):
    d = {}
    if r.random() < 0.7:
        d["year_y"] = rnd_year(r)
    if r.random() < 0.2:
        d["year_g"] = rnd_year(r)
    for k, hi in [("month", 13), ("dom", 32), ("doy", 367), ("week_w", 54), ("week_u", 54), ("week_v", 54), ("quarter", 5)]:
        if r.random() < 0.3:
            d[k] = r.choice(["0", "00", str(r.randint(0, hi)), "%02d" % r.randint(0, hi)])
    for k in ["major", "minor", "patch", "num", "inc0", "inc1"]:
        if r.random() < 0.3:
            d[k] = r.choice(["0", "1", "007", str(r.randint(0, 500))])
    if r.random() < 0.4:
        d["bid"] = r.choice(["1000", "0099", "33"])
    if r.random() < 0.4:
        d["tag"] = r.choice(["alpha", "beta", "final", "rc", "dev", "post", "pre", "nope"])
    if r.random() < 0.3:
        d["pytag"] = r.choice(["a", "b", "rc", "", "dev", "post", "x"])
    if r.random() < 0.05:
        d["foo"] = "1"
    if r.random() < 0.05:
        d["version"] = "1"
    items = list(d.items())
    r.shuffle(items)
    return dict(items)


def main():
    n = int(sys.argv[1]) if len(sys.argv) > 1 else 300
    r = random.Random(int(sys.argv[2]) if len(sys.argv) > 2 else 1)
    today = "(%d, %d, %d)" % (TODAY.year, TODAY.month, TODAY.day)
    lines, expect = [], []

    def case(lean, want):
        lines.append("#eval IO.println (%s)" % lean)
        expect.append(want)
    for _ in range(n):
        d = rnd_dict(r)
        c = py(v2version.parse_field_values_to_cinfo, d)
        case("showC (BV.GenF.parseCinfo %s %s)" % (ldict(d), today), c if isinstance(c, str) else show_cal(c))
        v = py(v2version.parse_field_values_to_vinfo, d)
        case("showV (BV.GenF.parseVinfo %s %s)" % (ldict(d), today), v if isinstance(v, str) else show_v(v))
    for _ in range(n):
        y, doy = r.choice([1, 4, 1999, 2000, 2021, 2024, 9999, 10000, 0]), r.choice([0, 1, 59, 60, 61, 365, 366, 367, 400, 5000000])
        dte = py(version.date_from_doy, y, doy)
        case("showD (BV.GenF.dateFromDoy %d %d)" % (y, doy),
             dte if isinstance(dte, str) else "date %d %d %d" % (dte.year, dte.month, dte.day))
        o = r.randint(1, 3652059)
        x = dt.date.fromordinal(o)
        case("showCal (BV.GenF.calInfo (some (%d, %d, %d)) %s)" % (x.year, x.month, x.day, today), show_cal(v2version.cal_info(x)))
    case("showCal (BV.GenF.calInfo none %s)" % today, show_cal(v2version.cal_info()))
    prelude = """import BumpverVerif.Gen.F_parseVinfo
import BumpverVerif.Gen.F_calInfo
open BV
def so : Option Nat → String | none => "none" | some n => s!"(some {n})"
def errName : PErr → String
  | .pattern => "pattern" | .typeError => "typeError" | .valueError => "valueError" | .overflow => "overflow"
  | .keyError => "keyError" | .unsupported => "unsupported"
def calS (c : CalOpt) : String :=
  s!"{so c.yearY} {so c.yearG} {so c.quarter} {so c.month} {so c.dom} {so c.doy} {so c.weekW} {so c.weekU} {so c.weekV}"
def showCal (c : CalOpt) : String := "cal " ++ calS c
def showC : Except PErr CalOpt → String | .error e => "error " ++ errName e | .ok c => "cal " ++ calS c
def showV : Except PErr VInfo → String
  | .error e => "error " ++ errName e
  | .ok v => s!"vinfo {calS v.cal} | {v.major} {v.minor} {v.patch} {String.ofList v.bid} {String.ofList v.tag} {String.ofList v.pytag} {v.num} {v.inc0} {v.inc1}"
def showD : Except PErr PDate → String | .error e => "error " ++ errName e | .ok d => s!"date {d.1} {d.2.1} {d.2.2}"
"""
    with tempfile.NamedTemporaryFile("w", suffix=".lean", delete=False, dir="/tmp") as f:
        f.write(prelude + "\n".join(lines) + "\n")
        path = f.name
    out = subprocess.run(["timeout", "1200", "lake", "env", "lean", path], cwd=LEAN, stdout=subprocess.PIPE,
                         stderr=subprocess.STDOUT, text=True).stdout.splitlines()
    os.unlink(path)
    bad = 0
    if len(out) != len(expect):
        print("!! %d output lines for %d cases" % (len(out), len(expect)))
        print("\n".join(out[:20]))
        return 2
    for i, (got, want) in enumerate(zip(out, expect)):
        if got.strip() != want.strip():
            bad += 1
            if bad <= 10:
                print("MISMATCH\n  case  : %s\n  python: %s\n  lean  : %s" % (lines[i], want, got))
    print("%d cases, %d mismatches" % (len(expect), bad))
    return 1 if bad else 0


if __name__ == "__main__":
    sys.exit(main())
