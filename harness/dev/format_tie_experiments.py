#!/venv/bin/python
"""Robustness demonstration for harness/translate_format.py + Proofs/Tie_<name>.lean (group `format`).

For every experiment: copy /repo/src to a scratch tree, apply ONE textual edit to the Python source, run the
translator with VERIF_REPO pointing at the scratch tree, write the regenerated Gen/F_*.lean and build
`BumpverVerif.Proofs.Tie_<name>` (lake builds the changed Gen modules and the ties it depends on first).

  kind 'break'   : a plausible semantic one-token edit  -> the tie must NO LONGER build
  kind 'harmless': a semantics-preserving rewrite        -> the tie must still build
  kind 'limit'   : equivalent only on the states the function can reach -> reported (the tie compares loop bodies on ALL states)

Afterwards the generated files are restored from the unmodified /repo.
Usage: /venv/bin/python harness/dev/format_tie_experiments.py [name ...]      (names = Lean names of FUNCS)
"""
import os
import shutil
import subprocess
import sys

HERE = os.path.dirname(os.path.abspath(__file__))
HARNESS = os.path.dirname(HERE)
VERIF = os.path.dirname(HARNESS)
LEAN = os.path.join(VERIF, "lean")
GEN = os.path.join(LEAN, "BumpverVerif", "Gen")
SCRATCH = os.environ.get("FORMAT_TIE_SCRATCH", os.path.join(os.path.dirname(VERIF), "src-scratch"))
sys.path.insert(0, HARNESS)

E = []


def exp(name, file, kind, label, old, new, also=()):
    E.append(dict(name=name, file=file, kind=kind, label=label, old=old, new=new, also=list(also)))


V2 = "v2version.py"

# ---- version.is_zero_val -----------------------------------------------------------------------
Z = "    return part in PART_ZERO_VALUES and part_value == PART_ZERO_VALUES[part]"
exp("isZeroVal", "version.py", "break", "`==` -> `!=`", Z,
    "    return part in PART_ZERO_VALUES and part_value != PART_ZERO_VALUES[part]")
exp("isZeroVal", "version.py", "break", "`in` -> `not in` (then KeyError)", Z,
    "    return part not in PART_ZERO_VALUES and part_value == PART_ZERO_VALUES[part]")
exp("isZeroVal", "version.py", "break", "`and` -> `or`", Z,
    "    return part in PART_ZERO_VALUES or part_value == PART_ZERO_VALUES[part]")
exp("isZeroVal", "version.py", "break", "value compared with the part NAME", Z,
    "    return part in PART_ZERO_VALUES and part_value == part")
exp("isZeroVal", "version.py", "break", "guard dropped (KeyError for parts without zero value: seeded bug)", Z,
    "    return part_value == PART_ZERO_VALUES[part]")
exp("isZeroVal", "version.py", "break", "other table (V2_FIELD_INITIAL_VALUES)", Z,
    "    return part in V2_FIELD_INITIAL_VALUES and part_value == V2_FIELD_INITIAL_VALUES[part]")
exp("isZeroVal", "version.py", "harmless", "operands of `==` exchanged", Z,
    "    return part in PART_ZERO_VALUES and PART_ZERO_VALUES[part] == part_value")
exp("isZeroVal", "version.py", "harmless", "if / return form", Z,
    "    if part in PART_ZERO_VALUES:\n        return part_value == PART_ZERO_VALUES[part]\n    return False")
exp("isZeroVal", "version.py", "harmless", "negated test, branches exchanged, local", Z,
    "    if part not in PART_ZERO_VALUES:\n        return False\n    else:\n        zero = PART_ZERO_VALUES[part]\n        return zero == part_value")

# ---- _format_segment -----------------------------------------------------------------------------
exp("formatSegment", V2, "break", "`part in seg` -> `part not in seg`",
    "        if part in seg:\n            used_parts.append", "        if part not in seg:\n            used_parts.append")
exp("formatSegment", V2, "break", "zero test ignored (every used part counts as zero)",
    "            if version.is_zero_val(part, part_value):\n                zero_part_count += 1",
    "            if True:\n                zero_part_count += 1")
exp("formatSegment", V2, "break", "`zero_part_count == len(used_parts)` -> `<=` (seeded bug: parts without zero value ignored)",
    "zero_part_count > 0 and zero_part_count == len(used_parts)", "zero_part_count > 0 and zero_part_count <= len(used_parts)")
exp("formatSegment", V2, "harmless", "`zero_part_count > 0` -> `>= 0` (equivalent: in the elif `len(used_parts) >= 1`)",
    "zero_part_count > 0 and zero_part_count == len(used_parts)", "zero_part_count >= 0 and zero_part_count == len(used_parts)")
exp("formatSegment", V2, "break", "`len(used_parts) == 0` -> `!= 0`",
    "    is_literal_seg = len(used_parts) == 0", "    is_literal_seg = len(used_parts) != 0")
exp("formatSegment", V2, "break", "all-zero branch returns is_zero=False",
    "        return FormatedSeg(False, True, result)", "        return FormatedSeg(False, False, result)")
exp("formatSegment", V2, "break", "literal branch returns is_literal=False",
    "        return FormatedSeg(True, False, result)", "        return FormatedSeg(False, False, result)")
exp("formatSegment", V2, "break", "`zero_part_count += 1` outside the `part in seg` guard",
    "            if version.is_zero_val(part, part_value):\n                zero_part_count += 1",
    "        if version.is_zero_val(part, part_value):\n            zero_part_count += 1")
exp("formatSegment", V2, "break", "unescape of `\\]` dropped",
    "    result = result.replace(r\"\\]\", r\"]\")\n", "")
exp("formatSegment", V2, "break", "substitution `replace(part, part_value)` -> `replace(part_value, part)`",
    "        result = result.replace(part, part_value)", "        result = result.replace(part_value, part)")
exp("formatSegment", V2, "break", "substitution loop over ALL part_values instead of used_parts (same result? no: order/guard differ)",
    "    for part, part_value in used_parts:\n        result = result.replace(part, part_value)",
    "    for part, part_value in reversed(part_values):\n        result = result.replace(part, part_value)")
exp("formatSegment", V2, "harmless", "locals renamed",
    "    zero_part_count = 0", "    nzero = 0",
    also=[("                zero_part_count += 1", "                nzero += 1"),
          ("    elif zero_part_count > 0 and zero_part_count == len(used_parts):", "    elif nzero > 0 and nzero == len(used_parts):")])
exp("formatSegment", V2, "harmless", "conjuncts commuted, `==` operands exchanged",
    "    elif zero_part_count > 0 and zero_part_count == len(used_parts):",
    "    elif len(used_parts) == zero_part_count and 0 < zero_part_count:")
exp("formatSegment", V2, "harmless", "if/elif/else flipped with negated tests",
    "    if is_literal_seg:\n        return FormatedSeg(True, False, result)\n    elif zero_part_count > 0 and zero_part_count == len(used_parts):\n        # all zero, omit segment completely\n        return FormatedSeg(False, True, result)\n    else:\n        return FormatedSeg(False, False, result)",
    "    if not is_literal_seg:\n        if not (zero_part_count > 0 and zero_part_count == len(used_parts)):\n            return FormatedSeg(False, False, result)\n        return FormatedSeg(False, True, result)\n    return FormatedSeg(True, False, result)")
exp("formatSegment", V2, "harmless", "`len(used_parts) == 0` -> `not used_parts`; `+= 1` -> `= .. + 1`",
    "    is_literal_seg = len(used_parts) == 0", "    is_literal_seg = not used_parts",
    also=[("                zero_part_count += 1", "                zero_part_count = 1 + zero_part_count")])
exp("formatSegment", V2, "harmless", "guard as `continue`",
    "        if part in seg:\n            used_parts.append((part, part_value))\n            if version.is_zero_val(part, part_value):\n                zero_part_count += 1",
    "        if part not in seg:\n            continue\n        used_parts.append((part, part_value))\n        if version.is_zero_val(part, part_value):\n            zero_part_count += 1")

# ---- _format_segment_tree ---------------------------------------------------------------------------
T = "formatSegmentTree"
exp(T, V2, "break", "`is_omitted = is_zero and not is_root` -> `is_zero` (seeded bug: root omitted like an optional group)",
    "    is_omitted = is_zero and not is_root", "    is_omitted = is_zero")
exp(T, V2, "break", "`if formatted_seg.is_literal` -> `if not ...` (literal segments decide, parts do not)",
    "        if formatted_seg.is_literal:", "        if not formatted_seg.is_literal:")
exp(T, V2, "break", "literal test dropped: a literal segment blocks omission (seeded bug)",
    "        if formatted_seg.is_literal:\n            result_parts.append(formatted_seg.result)\n        else:\n            is_zero = is_zero and formatted_seg.is_zero\n            result_parts.append(formatted_seg.result)",
    "        is_zero = is_zero and formatted_seg.is_zero\n        result_parts.append(formatted_seg.result)")
exp(T, V2, "break", "`is_zero = True` -> `False`", "    is_zero = True\n    for seg in segtree:", "    is_zero = False\n    for seg in segtree:")
exp(T, V2, "break", "`is_zero and formatted_seg.is_zero` -> `or`",
    "            is_zero = is_zero and formatted_seg.is_zero", "            is_zero = is_zero or formatted_seg.is_zero")
exp(T, V2, "break", "branches of the conditional expression exchanged",
    "    result     = \"\" if is_omitted else \"\".join(result_parts)", "    result     = \"\".join(result_parts) if is_omitted else \"\"")
exp(T, V2, "break", "result flagged literal", "    return FormatedSeg(False, is_zero, result)", "    return FormatedSeg(True, is_zero, result)")
exp(T, V2, "break", "recursive call hands `is_root` down (a nested all-zero group is then rendered)",
    "            formatted_seg = _format_segment_tree(seg, part_values)", "            formatted_seg = _format_segment_tree(seg, part_values, is_root)")
exp(T, V2, "break", "`isinstance(seg, list)` -> `isinstance(seg, str)`",
    "        if isinstance(seg, list):", "        if isinstance(seg, str):")
exp(T, V2, "break", "non-literal result not appended",
    "            is_zero = is_zero and formatted_seg.is_zero\n            result_parts.append(formatted_seg.result)",
    "            is_zero = is_zero and formatted_seg.is_zero")
exp(T, V2, "break", "`\"\".join` -> `\"-\".join`", "else \"\".join(result_parts)", "else \"-\".join(result_parts)")
exp(T, V2, "break", "is_zero of the result negated", "    return FormatedSeg(False, is_zero, result)", "    return FormatedSeg(False, not is_zero, result)")
exp(T, V2, "harmless", "locals renamed",
    "            formatted_seg = _format_segment_tree(seg, part_values)\n        else:\n            formatted_seg = _format_segment(seg, part_values)\n\n        if formatted_seg.is_literal:\n            result_parts.append(formatted_seg.result)\n        else:\n            is_zero = is_zero and formatted_seg.is_zero\n            result_parts.append(formatted_seg.result)",
    "            fs = _format_segment_tree(seg, part_values)\n        else:\n            fs = _format_segment(seg, part_values)\n\n        if fs.is_literal:\n            result_parts.append(fs.result)\n        else:\n            is_zero = is_zero and fs.is_zero\n            result_parts.append(fs.result)")
exp(T, V2, "harmless", "`not isinstance(seg, list)` with exchanged branches",
    "        if isinstance(seg, list):\n            formatted_seg = _format_segment_tree(seg, part_values)\n        else:\n            formatted_seg = _format_segment(seg, part_values)",
    "        if not isinstance(seg, list):\n            formatted_seg = _format_segment(seg, part_values)\n        else:\n            formatted_seg = _format_segment_tree(seg, part_values)")
exp(T, V2, "harmless", "`isinstance(seg, str)` with exchanged branches; explicit `is_root=False`",
    "        if isinstance(seg, list):\n            formatted_seg = _format_segment_tree(seg, part_values)\n        else:\n            formatted_seg = _format_segment(seg, part_values)",
    "        if isinstance(seg, str):\n            formatted_seg = _format_segment(seg, part_values)\n        else:\n            formatted_seg = _format_segment_tree(seg, part_values, is_root=False)")
exp(T, V2, "harmless", "common append hoisted out of the if/else; conjuncts commuted",
    "        if formatted_seg.is_literal:\n            result_parts.append(formatted_seg.result)\n        else:\n            is_zero = is_zero and formatted_seg.is_zero\n            result_parts.append(formatted_seg.result)",
    "        if not formatted_seg.is_literal:\n            is_zero = formatted_seg.is_zero and is_zero\n        result_parts.append(formatted_seg.result)")
exp(T, V2, "harmless", "`not is_root and is_zero`; if statement instead of conditional expression",
    "    is_omitted = is_zero and not is_root\n    result     = \"\" if is_omitted else \"\".join(result_parts)",
    "    is_omitted = not is_root and is_zero\n    if is_omitted:\n        result = \"\"\n    else:\n        result = \"\".join(result_parts)")

# ---- _parse_segtree -------------------------------------------------------------------------------------
P = "parseSegtree"
exp(P, V2, "break", "escape test looks at the character itself (`raw_pattern[i]`)",
    "        is_escaped = i > 0 and raw_pattern[i - 1] == \"\\\\\"", "        is_escaped = i > 0 and raw_pattern[i] == \"\\\\\"")
exp(P, V2, "break", "escape test `==` -> `!=`",
    "        is_escaped = i > 0 and raw_pattern[i - 1] == \"\\\\\"", "        is_escaped = i > 0 and raw_pattern[i - 1] != \"\\\\\"")
exp(P, V2, "break", "`char in \"[]\"` -> `char in \"[\"`",
    "        if char in \"[]\" and not is_escaped:", "        if char in \"[\" and not is_escaped:")
exp(P, V2, "break", "`not is_escaped` dropped (escaped brackets open groups: seeded bug)",
    "        if char in \"[]\" and not is_escaped:", "        if char in \"[]\":")
exp(P, V2, "break", "`start = segment_start_index + 1` -> `segment_start_index`",
    "            start = segment_start_index + 1", "            start = segment_start_index")
exp(P, V2, "break", "`start < end` -> `start <= end` (empty segments appended)",
    "            if start < end:", "            if start <= end:")
exp(P, V2, "break", "new branch not attached to its parent",
    "                branch_stack[-1].append(new_branch)\n", "")
exp(P, V2, "break", "new branch not pushed",
    "                branch_stack.append(new_branch)\n", "")
exp(P, V2, "break", "new branch pushed BEFORE it is attached (attached to itself: a cycle)",
    "                branch_stack[-1].append(new_branch)\n                branch_stack.append(new_branch)\n",
    "                branch_stack.append(new_branch)\n                branch_stack[-1].append(new_branch)\n")
exp(P, V2, "break", "`len(branch_stack) == 1` -> `== 0` (closing the root is then an IndexError later / accepted)",
    "                if len(branch_stack) == 1:", "                if len(branch_stack) == 0:")
exp(P, V2, "break", "`branch_stack.pop()` dropped",
    "                branch_stack.pop()\n", "")
exp(P, V2, "break", "`segment_start_index = i` dropped after `]`",
    "                branch_stack.pop()\n                segment_start_index = i", "                branch_stack.pop()")
exp(P, V2, "break", "unclosed check `> 1` -> `> 2`",
    "    if len(branch_stack) > 1:", "    if len(branch_stack) > 2:")
exp(P, V2, "break", "`return internal_root[0]` -> `internal_root[-1]`",
    "    return internal_root[0]", "    return internal_root[-1]")
exp(P, V2, "break", "closing bracket not appended to the pattern",
    "    raw_pattern = \"[\" + raw_pattern + \"]\"", "    raw_pattern = \"[\" + raw_pattern")
exp(P, V2, "break", "segment appended to the ROOT (`branch_stack[0]`)",
    "                branch_stack[-1].append(raw_pattern[start:end])", "                branch_stack[0].append(raw_pattern[start:end])")
exp(P, V2, "break", "segment text one character short (`raw_pattern[start:end - 1]`)",
    "                branch_stack[-1].append(raw_pattern[start:end])", "                branch_stack[-1].append(raw_pattern[start:end - 1])")
exp(P, V2, "break", "new branch is an alias of the current one (`new_branch = branch_stack[-1]`)",
    "                new_branch: SegmentTree = []", "                new_branch = branch_stack[-1]")
exp(P, V2, "harmless", "locals renamed",
    "            start = segment_start_index + 1\n            end   = i\n            if start < end:\n                branch_stack[-1].append(raw_pattern[start:end])",
    "            lo = segment_start_index + 1\n            hi = i\n            if lo < hi:\n                branch_stack[-1].append(raw_pattern[lo:hi])")
exp(P, V2, "harmless", "`char in \"[]\"` -> `char == \"[\" or char == \"]\"`; conjuncts commuted",
    "        if char in \"[]\" and not is_escaped:", "        if not is_escaped and (char == \"[\" or char == \"]\"):")
exp(P, V2, "harmless", "`]` tested before `[`",
    "            if char == \"[\":\n                new_branch: SegmentTree = []\n                branch_stack[-1].append(new_branch)\n                branch_stack.append(new_branch)\n                segment_start_index = i\n            elif char == \"]\":\n                if len(branch_stack) == 1:\n                    err = f\"Unbalanced brace(s) in '{raw_pattern}'\"\n                    raise ValueError(err)\n\n                branch_stack.pop()\n                segment_start_index = i\n",
    "            if char == \"]\":\n                if len(branch_stack) == 1:\n                    err = f\"Unbalanced brace(s) in '{raw_pattern}'\"\n                    raise ValueError(err)\n\n                branch_stack.pop()\n                segment_start_index = i\n            elif char == \"[\":\n                new_branch: SegmentTree = []\n                branch_stack[-1].append(new_branch)\n                branch_stack.append(new_branch)\n                segment_start_index = i\n")
exp(P, V2, "harmless", "`end > start`; `1 + segment_start_index`",
    "            start = segment_start_index + 1\n            end   = i\n            if start < end:",
    "            start = 1 + segment_start_index\n            end   = i\n            if end > start:")
exp(P, V2, "limit", "`len(branch_stack) == 1` -> `< 2`: equal only on REACHABLE states (differs for an empty stack: ValueError vs IndexError)",
    "                if len(branch_stack) == 1:", "                if len(branch_stack) < 2:")
exp(P, V2, "harmless", "`is_escaped` inlined; early `continue`",
    "        is_escaped = i > 0 and raw_pattern[i - 1] == \"\\\\\"\n        if char in \"[]\" and not is_escaped:\n            start = segment_start_index + 1",
    "        if i > 0 and raw_pattern[i - 1] == \"\\\\\":\n            continue\n        if char in \"[]\":\n            start = segment_start_index + 1")
exp(P, V2, "harmless", "final check inverted (`if len(...) <= 1: return ...; raise`)",
    "    if len(branch_stack) > 1:\n        err = f\"Unclosed brace in '{raw_pattern}'\"\n        raise ValueError(err)\n\n    return internal_root[0]",
    "    if len(branch_stack) <= 1:\n        return internal_root[0]\n    raise ValueError(\"Unclosed brace\")")

# ---- _format_part_values ------------------------------------------------------------------------------
FP = "formatPartValues"
exp(FP, V2, "break", "`is not None` -> truthiness (a part whose value is 0 vanishes)",
    "        if field_val is not None:", "        if field_val:")
exp(FP, V2, "break", "`is not None` -> `is None`", "        if field_val is not None:", "        if field_val is None:")
exp(FP, V2, "break", "sort key `-len` -> `len` (shortest part names first: `YY` would be substituted inside `YYYY`)",
    "key=lambda item: -len(item[0])", "key=lambda item: len(item[0])")
exp(FP, V2, "break", "sort by the length of the VALUE (`item[1]`)",
    "key=lambda item: -len(item[0])", "key=lambda item: -len(item[1])")
exp(FP, V2, "break", "result not sorted", "    return sorted(kwargs.items(), key=lambda item: -len(item[0]))", "    return list(kwargs.items())")
exp(FP, V2, "break", "dict keyed by the FIELD name", "            kwargs[part] = format_fn(field_val)", "            kwargs[field] = format_fn(field_val)")
exp(FP, V2, "break", "formatter looked up by the field name (KeyError)",
    "            format_fn = v2patterns.PART_FORMATS[part]", "            format_fn = v2patterns.PART_FORMATS[field]")
exp(FP, V2, "break", "value looked up by the part name (KeyError)",
    "        field_val = vnfo_kwargs[field]", "        field_val = vnfo_kwargs[part]")
exp(FP, V2, "break", "loop over PART_FORMATS instead of PATTERN_PART_FIELDS",
    "    for part, field in v2patterns.PATTERN_PART_FIELDS.items():", "    for part, field in v2patterns.PART_FORMATS.items():")
exp(FP, V2, "harmless", "locals renamed",
    "        field_val = vnfo_kwargs[field]\n        if field_val is not None:\n            format_fn = v2patterns.PART_FORMATS[part]\n            kwargs[part] = format_fn(field_val)",
    "        val = vnfo_kwargs[field]\n        if val is not None:\n            fmt = v2patterns.PART_FORMATS[part]\n            kwargs[part] = fmt(val)")
exp(FP, V2, "harmless", "`is None: continue` form; formatter applied in one expression",
    "        if field_val is not None:\n            format_fn = v2patterns.PART_FORMATS[part]\n            kwargs[part] = format_fn(field_val)",
    "        if field_val is None:\n            continue\n        kwargs[part] = v2patterns.PART_FORMATS[part](field_val)")
exp(FP, V2, "harmless", "`key=lambda kv: 0 - len(kv[0])`",
    "key=lambda item: -len(item[0])", "key=lambda kv: 0 - len(kv[0])")
exp(FP, V2, "harmless", "`key=lambda item: len(item[0]), reverse=True` (Python's reverse sort is stable)",
    "key=lambda item: -len(item[0])", "key=lambda item: len(item[0]), reverse=True")

# ---- format_version -------------------------------------------------------------------------------------
FV = "formatVersion"
exp(FV, V2, "break", "`is_root=True` -> `is_root=False` (seeded bug: an all-zero version renders as the empty string)",
    "    formatted_seg = _format_segment_tree(segtree, part_values, is_root=True)", "    formatted_seg = _format_segment_tree(segtree, part_values, is_root=False)")
exp(FV, V2, "break", "`is_root=True` dropped (the default is False)",
    "    formatted_seg = _format_segment_tree(segtree, part_values, is_root=True)", "    formatted_seg = _format_segment_tree(segtree, part_values)")
exp(FV, V2, "break", "returns the pattern instead of the result", "    return formatted_seg.result", "    return raw_pattern")
exp(FV, V2, "break", "no part values", "    part_values   = _format_part_values(vinfo)", "    part_values   = []")
exp(FV, V2, "break", "first (longest-named) part value dropped",
    "    formatted_seg = _format_segment_tree(segtree, part_values, is_root=True)", "    formatted_seg = _format_segment_tree(segtree, part_values[1:], is_root=True)")
exp(FV, V2, "break", "first item of the tree dropped",
    "    formatted_seg = _format_segment_tree(segtree, part_values, is_root=True)", "    formatted_seg = _format_segment_tree(segtree[1:], part_values, is_root=True)")
exp(FV, V2, "break", "pattern parsed with an extra closing bracket", "    segtree       = _parse_segtree(raw_pattern)", "    segtree       = _parse_segtree(raw_pattern + \"]\")")
exp(FV, V2, "harmless", "locals renamed, flag passed positionally",
    "    part_values   = _format_part_values(vinfo)\n    segtree       = _parse_segtree(raw_pattern)\n    formatted_seg = _format_segment_tree(segtree, part_values, is_root=True)\n    return formatted_seg.result",
    "    pvs  = _format_part_values(vinfo)\n    tree = _parse_segtree(raw_pattern)\n    fseg = _format_segment_tree(tree, pvs, True)\n    return fseg.result")
exp(FV, V2, "harmless", "independent statements exchanged (the pattern is parsed first)",
    "    part_values   = _format_part_values(vinfo)\n    segtree       = _parse_segtree(raw_pattern)\n",
    "    segtree       = _parse_segtree(raw_pattern)\n    part_values   = _format_part_values(vinfo)\n")
exp(FV, V2, "harmless", "calls inlined",
    "    part_values   = _format_part_values(vinfo)\n    segtree       = _parse_segtree(raw_pattern)\n    formatted_seg = _format_segment_tree(segtree, part_values, is_root=True)\n    return formatted_seg.result",
    "    return _format_segment_tree(_parse_segtree(raw_pattern), _format_part_values(vinfo), is_root=True).result")

# ---- _iter_flat_segtree -----------------------------------------------------------------------------------
IF = "iterFlatSegtree"
exp(IF, V2, "break", "`isinstance(subtree, list)` -> `isinstance(subtree, str)`",
    "        if isinstance(subtree, list):\n            for seg in _iter_flat_segtree(subtree):", "        if isinstance(subtree, str):\n            for seg in _iter_flat_segtree(subtree):")
exp(IF, V2, "break", "segments of groups not yielded", "                yield seg\n        else:", "                pass\n        else:")
exp(IF, V2, "break", "plain segments not yielded", "        else:\n            yield subtree\n\n\ndef _parse_pattern_fields", "        else:\n            pass\n\n\ndef _parse_pattern_fields")
exp(IF, V2, "break", "recursion on the whole tree instead of the subtree (does not terminate)",
    "            for seg in _iter_flat_segtree(subtree):", "            for seg in _iter_flat_segtree(segtree):")
exp(IF, V2, "break", "nested segments yielded twice", "                yield seg\n        else:", "                yield seg\n                yield seg\n        else:")
exp(IF, V2, "break", "nested segments doubled (`seg + seg`)", "                yield seg\n        else:", "                yield seg + seg\n        else:")
exp(IF, V2, "break", "a group also yields nothing for its first level: recursion one level too deep is skipped (`subtree[1:]`)",
    "            for seg in _iter_flat_segtree(subtree):", "            for seg in _iter_flat_segtree(subtree[1:]):")
exp(IF, V2, "harmless", "locals renamed",
    "    for subtree in segtree:\n        if isinstance(subtree, list):\n            for seg in _iter_flat_segtree(subtree):\n                yield seg\n        else:\n            yield subtree",
    "    for item in segtree:\n        if isinstance(item, list):\n            for s in _iter_flat_segtree(item):\n                yield s\n        else:\n            yield item")
exp(IF, V2, "harmless", "`not isinstance(subtree, list)` with exchanged branches",
    "        if isinstance(subtree, list):\n            for seg in _iter_flat_segtree(subtree):\n                yield seg\n        else:\n            yield subtree",
    "        if not isinstance(subtree, list):\n            yield subtree\n        else:\n            for seg in _iter_flat_segtree(subtree):\n                yield seg")
exp(IF, V2, "harmless", "`isinstance(subtree, str)`; `continue` instead of else",
    "        if isinstance(subtree, list):\n            for seg in _iter_flat_segtree(subtree):\n                yield seg\n        else:\n            yield subtree",
    "        if isinstance(subtree, str):\n            yield subtree\n            continue\n        for seg in _iter_flat_segtree(subtree):\n            yield seg")

# ---- _parse_pattern_fields ----------------------------------------------------------------------------------
PP = "parsePatternFields"
exp(PP, V2, "break", "`reverse=True` -> `reverse=False` (short part names first)",
    "    parts.sort(key=len, reverse=True)", "    parts.sort(key=len, reverse=False)")
exp(PP, V2, "break", "parts not sorted", "    parts.sort(key=len, reverse=True)\n", "")
exp(PP, V2, "break", "`segment.find(part, 0)` -> `part.find(segment, 0)`",
    "            part_index = segment.find(part, 0)", "            part_index = part.find(segment, 0)")
exp(PP, V2, "break", "`part_index >= 0` -> `> 0` (a part at the start of a segment is lost)",
    "            if part_index >= 0:", "            if part_index > 0:")
exp(PP, V2, "break", "key components exchanged", "                fields_by_index[segment_index, part_index] = field", "                fields_by_index[part_index, segment_index] = field")
exp(PP, V2, "break", "result in dict order, not sorted by position",
    "    return [field for _, field in sorted(fields_by_index.items())]", "    return [field for _, field in fields_by_index.items()]")
exp(PP, V2, "break", "the part NAME is recorded instead of its field",
    "                field = v2patterns.PATTERN_PART_FIELDS[part]", "                field = part")
exp(PP, V2, "break", "segments numbered from the tree, not flattened (`enumerate(segtree)`)",
    "    for segment_index, segment in enumerate(segments):", "    for segment_index, segment in enumerate(segtree):")
exp(PP, V2, "harmless", "locals renamed",
    "            part_index = segment.find(part, 0)\n            if part_index >= 0:\n                field = v2patterns.PATTERN_PART_FIELDS[part]\n                fields_by_index[segment_index, part_index] = field",
    "            pos = segment.find(part, 0)\n            if pos >= 0:\n                fld = v2patterns.PATTERN_PART_FIELDS[part]\n                fields_by_index[segment_index, pos] = fld")
exp(PP, V2, "harmless", "`if part_index < 0: continue`; explicit tuple key",
    "            if part_index >= 0:\n                field = v2patterns.PATTERN_PART_FIELDS[part]\n                fields_by_index[segment_index, part_index] = field",
    "            if part_index < 0:\n                continue\n            field = v2patterns.PATTERN_PART_FIELDS[part]\n            fields_by_index[(segment_index, part_index)] = field")
exp(PP, V2, "harmless", "`0 <= part_index`; `segment.find(part)`; `list(...)` around the generator",
    "            part_index = segment.find(part, 0)\n            if part_index >= 0:", "            part_index = segment.find(part)\n            if 0 <= part_index:",
    also=[("    segments = _iter_flat_segtree(segtree)", "    segments = list(_iter_flat_segtree(segtree))")])


def run(cmd, **kw):
    return subprocess.run(cmd, stdout=subprocess.PIPE, stderr=subprocess.STDOUT, text=True, **kw)


def write_gen(files):
    for name, content in files.items():
        path = os.path.join(GEN, name)
        old = open(path, encoding="utf-8").read() if os.path.exists(path) else None
        if old != content:
            with open(path, "w", encoding="utf-8") as f:
                f.write(content)


def main():
    only = set(sys.argv[1:])
    import translate_format
    results = []
    for e in E:
        if only and e["name"] not in only:
            continue
        if os.path.exists(SCRATCH):
            shutil.rmtree(SCRATCH)
        shutil.copytree("/repo/src", os.path.join(SCRATCH, "src"))
        path = os.path.join(SCRATCH, "src", "bumpver", e["file"])
        src = open(path, encoding="utf-8").read()
        for old, new in [(e["old"], e["new"])] + e["also"]:
            if src.count(old) != 1:
                print("!! edit text occurs %d times: %r" % (src.count(old), old))
                return 2
            src = src.replace(old, new)
        open(path, "w", encoding="utf-8").write(src)
        # the edited source must still be Python
        c = run(["/venv/bin/python", "-m", "py_compile", path])
        if c.returncode != 0:
            print("!! edited source does not compile: %s" % e["label"])
            return 2
        os.environ["VERIF_REPO"] = SCRATCH
        rep = []
        files = translate_format.generate(rep)
        del os.environ["VERIF_REPO"]
        fname = "F_%s.lean" % e["name"]
        err = [x for x in rep if x[1] == fname][0][2]
        write_gen(files)
        b = run(["timeout", "900", "lake", "build", "BumpverVerif.Proofs.Tie_%s" % e["name"]], cwd=LEAN)
        ok = b.returncode == 0
        if ok:
            outcome = "Tie_%s builds" % e["name"]
        else:
            first = [ln for ln in b.stdout.splitlines() if "error" in ln][:1]
            outcome = "FAILS: %s" % ((first[0] if first else "rc=%d" % b.returncode)[:150])
        if err is not None:
            outcome = "UNTRANSLATABLE (%s)" % (err.reason[:110])
        if e["kind"] == "limit":
            verdict = "documented limitation (tie %s)" % ("builds" if ok else "fails")
        else:
            verdict = "as intended" if ok == (e["kind"] == "harmless") else "** NOT as intended **"
        results.append((e, outcome, verdict))
        print("%-20s %-9s %-90s -> %s [%s]" % (e["name"], e["kind"], e["label"], outcome, verdict), flush=True)
    # restore
    shutil.rmtree(SCRATCH, ignore_errors=True)
    write_gen(translate_format.generate())
    mods = sorted({"BumpverVerif.Proofs.Tie_%s" % e["name"] for e, _, _ in results})
    if mods:
        b = run(["timeout", "1800", "lake", "build"] + mods, cwd=LEAN)
        print("restore build:", "ok" if b.returncode == 0 else b.stdout[-2000:])
    bad = [r for r in results if r[2].startswith("**")]
    print("%d experiments, %d not as intended" % (len(results), len(bad)))
    return 0


if __name__ == "__main__":
    sys.exit(main())
