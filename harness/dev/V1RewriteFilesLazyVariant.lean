/-
  harness/dev/V1RewriteFilesLazyVariant.lean — NOT part of the library.  Checked only by
  harness/dev/v1rewrite_tie_experiments.py in the experiment "lazy loop": when `list(...)` is removed from
  `v1rewrite.rewrite_files` (`for file_data in iter_rewritten(...)`), the generator is consumed lazily, the
  translator inlines it, and the GENERATED definition is the fused read-validate-WRITE loop.  This file proves
  that it is then exactly the model's variant `v1RewriteFilesLazy` (whose partial write is the witness
  `V1_C06_lazy_partial_write_witness`), while `tie_v1RewriteFiles` (= `v1RewriteFiles`) stops compiling.
-/
import BumpverVerif.Gen.F_v1RewriteFiles
import BumpverVerif.Proofs.Tie_v1IterRewritten
namespace BV
open GenF (Pattern RewrittenFileData)

theorem v1_pyForFS_lazy (v : V1Info) (body : Str × List Pattern → Unit → FS → FS × Except RwErr Unit)
    (hb : ∀ it u fs, (∀ p ∈ it.2, TieM.Wf1 p) → body it u fs =
      match lookup it.1 fs with
      | none => (fs, .error .missingFile)
      | some c =>
        match v1RewriteContent (it.2.map Pattern.abs) v c with
        | .error e => (fs, .error e)
        | .ok nc => (FS.write fs it.1 nc, .ok ()))
    (l : List (Str × List Pattern)) (hwf : TieM.WfFilePatterns1 l) (fs : FS) :
    GenF.pyForFS l body () fs = v1RewriteFilesLazy v fs (GenF.absFilePatterns l) := by
  induction l generalizing fs with
  | nil => rfl
  | cons it l ih =>
    rw [GenF.pyForFS_cons, hb it () fs (hwf it List.mem_cons_self)]
    have hcons : GenF.absFilePatterns (it :: l) = (it.1, it.2.map Pattern.abs) :: GenF.absFilePatterns l := rfl
    rw [hcons]
    simp only [v1RewriteFilesLazy, RwEngine.rewriteFilesLazy, v1RewriteContent]
    cases lookup it.1 fs with
    | none => rfl
    | some c =>
      simp only []
      cases v1Engine.rewriteContent (it.2.map Pattern.abs) v c with
      | error e => rfl
      | ok nc => exact ih (fun x hx => hwf x (List.mem_cons_of_mem _ hx)) _

theorem lazy_v1RewriteFiles_is_v1RewriteFilesLazy (file_patterns : List (Str × List Pattern)) (new_vinfo : V1Info)
    (fs : FS) (hwf : TieM.WfFilePatterns1 file_patterns) :
    GenF.v1RewriteFiles file_patterns new_vinfo fs
      = v1RewriteFilesLazy new_vinfo fs (GenF.absFilePatterns file_patterns) := by
  unfold GenF.v1RewriteFiles
  simp only []
  rw [v1_pyForFS_lazy new_vinfo _ ?hb file_patterns hwf]
  case hb =>
    intro it u fs' hit
    simp only [GenF.pyExists, GenF.pyRead]
    have hl : lookup it.1 fs' = none ∨ ∃ c, lookup it.1 fs' = some c := by
      cases lookup it.1 fs' <;> simp
    rcases hl with hl | ⟨content, hl⟩
    · simp [hl]
    · have hc := tie_v1RfdFromContent_content it.2 new_vinfo content "<path>".toList hit
      simp only [hl, Option.isSome_some, if_true]
      rw [← hc]
      cases GenF.v1RfdFromContent it.2 new_vinfo content "<path>".toList <;> rfl
  cases v1RewriteFilesLazy new_vinfo fs (GenF.absFilePatterns file_patterns) with
  | mk a b => cases b <;> rfl

end BV
