#!/venv/bin/python
"""Robustness demonstration for harness/translate_cli.py + Proofs/Tie_<name>.lean (the decision
functions of cli.py, `_cmpkey`, `_pick_config_filepath`).

For every experiment: copy /repo/src to a scratch tree, apply ONE textual edit to the Python source,
run the translator with VERIF_REPO pointing at the scratch tree, write the regenerated
Gen/F_<name>.lean, rebuild that module and type-check Proofs/Tie_<name>.lean.

  kind 'break'   : a plausible semantic one-token edit  -> the tie must NO LONGER compile
                   (or the function leaves the subset: UNTRANSLATABLE, the tie cannot compile either)
  kind 'harmless': a behaviour-preserving rewrite        -> the tie must still compile

Afterwards the generated files are restored from the unmodified /repo and the scratch tree removed.
Usage: /venv/bin/python harness/dev/cli_tie_experiments.py [name ...]     (output: cli_tie_experiments.out.txt)
"""
import os
import shutil
import subprocess
import sys

HERE = os.path.dirname(os.path.abspath(__file__))
HARNESS = os.path.dirname(HERE)
VERIF = os.path.dirname(HARNESS)
LEAN = os.path.join(VERIF, "lean")
GEN = os.path.join(LEAN, "BumpverVerif", "Gen")
SCRATCH = os.environ.get("VERIF_EXP_SCRATCH", os.path.join(VERIF, "scratch_repo_cli"))
sys.path.insert(0, HARNESS)

E = []


def exp(name, file, kind, label, old, new, also=()):
    E.append(dict(name=name, file=file, kind=kind, label=label, old=old, new=new, also=list(also)))


CLI = "cli.py"

# ---- _is_valid_version ----------------------------------------------------------------------------
N = "isValidVersion"
GATE_CMP = "    if version.parse_version(new_version) <= version.parse_version(old_version):"
exp(N, CLI, "break", "`<=` -> `<` (equal versions pass the gate)",
    GATE_CMP, "    if version.parse_version(new_version) < version.parse_version(old_version):")
exp(N, CLI, "break", "operands of the comparison swapped",
    GATE_CMP, "    if version.parse_version(old_version) <= version.parse_version(new_version):")
exp(N, CLI, "break", "uniqueness asked of `old_version`",
    "        if new_version in version_tags:", "        if old_version in version_tags:")
exp(N, CLI, "break", "`scope=TagScope.GLOBAL` -> `TagScope.BRANCH`",
    "        all_tags     = vcs.get_tags(fetch=False, scope=config.TagScope.GLOBAL)",
    "        all_tags     = vcs.get_tags(fetch=False, scope=config.TagScope.BRANCH)")
exp(N, CLI, "break", "PatternError handler returns True",
    "        logger.error(f\"Invalid version '{new_version}' for pattern '{raw_pattern}'\")\n        return False",
    "        logger.error(f\"Invalid version '{new_version}' for pattern '{raw_pattern}'\")\n        return True")
exp(N, CLI, "break", "`and` -> `or` in is_new_pattern",
    "    is_new_pattern = \"{\" not in raw_pattern and \"}\" not in raw_pattern\n\n    try:",
    "    is_new_pattern = \"{\" not in raw_pattern or \"}\" not in raw_pattern\n\n    try:")
exp(N, CLI, "break", "parser branches swapped (`if not is_new_pattern`)",
    "        if is_new_pattern:\n            v2version.parse_version_info(new_version, raw_pattern)",
    "        if not is_new_pattern:\n            v2version.parse_version_info(new_version, raw_pattern)")
exp(N, CLI, "break", "`if unique:` -> `if not unique:`",
    "    if unique:\n        all_tags     = vcs.get_tags(fetch=False",
    "    if not unique:\n        all_tags     = vcs.get_tags(fetch=False")
exp(N, CLI, "break", "default `unique=False` -> `True` (signature table)",
    "new_version: str, unique: bool = False) -> bool:", "new_version: str, unique: bool = True) -> bool:")
exp(N, CLI, "break", "the try/except around the parser removed (PatternError escapes)",
    "    try:\n        if is_new_pattern:\n            v2version.parse_version_info(new_version, raw_pattern)\n        else:\n            v1version.parse_version_info(new_version, raw_pattern)\n    except version.PatternError:\n        logger.error(f\"Invalid version '{new_version}' for pattern '{raw_pattern}'\")\n        return False\n",
    "    if is_new_pattern:\n        v2version.parse_version_info(new_version, raw_pattern)\n    else:\n        v1version.parse_version_info(new_version, raw_pattern)\n")
exp(N, CLI, "harmless", "`a <= b` -> `not (a > b)`",
    GATE_CMP, "    if not (version.parse_version(new_version) > version.parse_version(old_version)):")
exp(N, CLI, "harmless", "parsed versions bound to locals, operands flipped (`old_v >= new_v`)",
    GATE_CMP, "    new_v = version.parse_version(new_version)\n    old_v = version.parse_version(old_version)\n    if old_v >= new_v:")
exp(N, CLI, "harmless", "early `return True`, call inlined, keywords reordered, boolean returned",
    "    if unique:\n        all_tags     = vcs.get_tags(fetch=False, scope=config.TagScope.GLOBAL)\n        version_tags = _parse_version_tags(all_tags, raw_pattern, is_new_pattern)\n\n        if new_version in version_tags:\n            logger.error(\"Invariant violated: New version must be unique accross all branches\")\n            return False\n\n    return True\n",
    "    if not unique:\n        return True\n    version_tags = _parse_version_tags(vcs.get_tags(scope=config.TagScope.GLOBAL, fetch=False), raw_pattern, is_new_pattern)\n    return new_version not in version_tags\n")
exp(N, CLI, "harmless", "parser module selected by a conditional expression",
    "        if is_new_pattern:\n            v2version.parse_version_info(new_version, raw_pattern)\n        else:\n            v1version.parse_version_info(new_version, raw_pattern)\n",
    "        parser = v2version if is_new_pattern else v1version\n        parser.parse_version_info(new_version, raw_pattern)\n")

# ---- _parse_version_tags ---------------------------------------------------------------------------
N = "parseVersionTags"
PVT1 = "    version_parser = v2version if is_new_pattern else v1version\n"
PVT2 = "    return [tag for tag in all_tags if version_parser.is_valid(tag, version_pattern)]"
exp(N, CLI, "break", "engines exchanged", PVT1, "    version_parser = v1version if is_new_pattern else v2version\n")
exp(N, CLI, "break", "always the new engine", PVT1, "    version_parser = v2version if is_new_pattern else v2version\n")
exp(N, CLI, "break", "filter negated", PVT2,
    "    return [tag for tag in all_tags if not version_parser.is_valid(tag, version_pattern)]")
exp(N, CLI, "break", "arguments of is_valid swapped", PVT2,
    "    return [tag for tag in all_tags if version_parser.is_valid(version_pattern, tag)]")
exp(N, CLI, "break", "listing order reversed", PVT2,
    "    return [tag for tag in reversed(all_tags) if version_parser.is_valid(tag, version_pattern)]")
exp(N, CLI, "break", "first tag skipped (`all_tags[1:]`)", PVT2,
    "    return [tag for tag in all_tags[1:] if version_parser.is_valid(tag, version_pattern)]")
exp(N, CLI, "harmless", "locals renamed", PVT1, "    vp = v2version if is_new_pattern else v1version\n",
    also=[(PVT2, "    return [t for t in all_tags if vp.is_valid(t, version_pattern)]")])
exp(N, CLI, "harmless", "negated test, branches exchanged", PVT1,
    "    version_parser = v1version if not is_new_pattern else v2version\n")
exp(N, CLI, "harmless", "keyword argument, result bound to a local", PVT2,
    "    valid_tags = [tag for tag in all_tags if version_parser.is_valid(tag, raw_pattern=version_pattern)]\n    return valid_tags")

# rewrite kinds of the independent refactoring patches (harmless2.diff): module chosen by if/else, explicit loop
LOOP_FORM = ("    if is_new_pattern:\n        version_parser = v2version\n    else:\n        version_parser = v1version\n\n"
             "    version_tags = []\n    for tag in all_tags:\n        if version_parser.is_valid(tag, version_pattern):\n"
             "            version_tags.append(tag)\n    return version_tags")
exp(N, CLI, "harmless", "module chosen by if/else, explicit accumulation loop instead of the comprehension",
    PVT1 + PVT2, LOOP_FORM)
exp(N, CLI, "break", "explicit loop form with the filter negated",
    PVT1 + PVT2, LOOP_FORM.replace("if version_parser.is_valid(", "if not version_parser.is_valid("))
exp(N, CLI, "break", "explicit loop form, modules exchanged in the if/else",
    PVT1 + PVT2, LOOP_FORM.replace("version_parser = v2version", "version_parser = v1version", 1).replace(
        "    else:\n        version_parser = v1version", "    else:\n        version_parser = v2version"))

# ---- get_latest_vcs_version_tag ----------------------------------------------------------------------
N = "getLatestVcsVersionTag"
SORT = "        version_tags.sort(key=version.parse_version, reverse=True)\n"
exp(N, CLI, "break", "`reverse=True` removed (oldest first)", SORT, "        version_tags.sort(key=version.parse_version)\n")
exp(N, CLI, "break", "`key=` removed (string order)", SORT, "        version_tags.sort(reverse=True)\n")
exp(N, CLI, "break", "`version_tags[0]` -> `[-1]`", "        return version_tags[0]", "        return version_tags[-1]")
exp(N, CLI, "break", "scope ignored (`scope=TagScope.GLOBAL`)",
    "    all_tags     = vcs.get_tags(fetch=fetch, scope=cfg.tag_scope)",
    "    all_tags     = vcs.get_tags(fetch=fetch, scope=config.TagScope.GLOBAL)")
exp(N, CLI, "break", "`cfg.is_new_pattern` -> `not cfg.is_new_pattern`",
    "_parse_version_tags(all_tags, cfg.version_pattern, cfg.is_new_pattern)",
    "_parse_version_tags(all_tags, cfg.version_pattern, not cfg.is_new_pattern)")
exp(N, CLI, "break", "`cfg.version_pattern` -> `cfg.current_version`",
    "_parse_version_tags(all_tags, cfg.version_pattern, cfg.is_new_pattern)",
    "_parse_version_tags(all_tags, cfg.current_version, cfg.is_new_pattern)")
exp(N, CLI, "break", "`if version_tags:` -> `if not version_tags:`",
    "    if version_tags:\n        version_tags.sort(", "    if not version_tags:\n        version_tags.sort(")
exp(N, CLI, "break", "`max` -> `min`",
    SORT + "        _debug_tags = \", \".join(version_tags[:3])\n        logger.debug(f\"found tags: {_debug_tags} ... ({len(version_tags)} in total)\")\n        return version_tags[0]",
    "        return min(version_tags, key=version.parse_version)")
exp(N, CLI, "harmless", "`sorted(…)` instead of `list.sort`", SORT,
    "        version_tags = sorted(version_tags, key=version.parse_version, reverse=True)\n")
exp(N, CLI, "harmless", "`max(version_tags, key=parse_version)` instead of sort + [0]",
    SORT + "        _debug_tags = \", \".join(version_tags[:3])\n        logger.debug(f\"found tags: {_debug_tags} ... ({len(version_tags)} in total)\")\n        return version_tags[0]",
    "        return max(version_tags, key=version.parse_version)")
exp(N, CLI, "harmless", "early `return None`, debug lines dropped, positional arguments reordered by keyword",
    "    if version_tags:\n" + SORT + "        _debug_tags = \", \".join(version_tags[:3])\n        logger.debug(f\"found tags: {_debug_tags} ... ({len(version_tags)} in total)\")\n        return version_tags[0]\n    else:\n        return None",
    "    if not version_tags:\n        return None\n    version_tags.sort(reverse=True, key=version.parse_version)\n    return version_tags[0]",
    also=[("    all_tags     = vcs.get_tags(fetch=fetch, scope=cfg.tag_scope)", "    all_tags = vcs.get_tags(scope=cfg.tag_scope, fetch=fetch)")])

# ---- _update_cfg_from_vcs -----------------------------------------------------------------------------
N = "updateCfgFromVcs"
UCMP = "        if version.parse_version(latest_version_tag) <= version.parse_version(cfg.current_version):"
exp(N, CLI, "break", "`<=` -> `<`", UCMP,
    "        if version.parse_version(latest_version_tag) < version.parse_version(cfg.current_version):")
exp(N, CLI, "break", "operands swapped", UCMP,
    "        if version.parse_version(cfg.current_version) <= version.parse_version(latest_version_tag):")
exp(N, CLI, "break", "the config guard applies to scope GLOBAL instead of DEFAULT",
    "    if cfg.tag_scope == config.TagScope.DEFAULT:\n", "    if cfg.tag_scope == config.TagScope.GLOBAL:\n")
exp(N, CLI, "break", "`==` -> `!=` in the scope test",
    "    if cfg.tag_scope == config.TagScope.DEFAULT:\n", "    if cfg.tag_scope != config.TagScope.DEFAULT:\n")
exp(N, CLI, "break", "`current_version=latest_version_tag` -> `cfg.current_version`",
    "        current_version=latest_version_tag,", "        current_version=cfg.current_version,")
exp(N, CLI, "break", "`pep440_version` not converted",
    "        pep440_version=latest_version_pep440,", "        pep440_version=latest_version_tag,")
exp(N, CLI, "break", "`is None` -> `is not None`",
    "    if latest_version_tag is None:", "    if latest_version_tag is not None:")
exp(N, CLI, "harmless", "`a <= b` -> `not (a > b)`", UCMP,
    "        if not (version.parse_version(latest_version_tag) > version.parse_version(cfg.current_version)):")
exp(N, CLI, "harmless", "the two nested ifs merged into one `and`",
    "    if cfg.tag_scope == config.TagScope.DEFAULT:\n        logger.info(f\"Working dir version        : {cfg.current_version}\")\n" + UCMP + "\n            # current_version already newer/up-to-date\n            return cfg\n",
    "    if cfg.tag_scope == config.TagScope.DEFAULT and version.parse_version(latest_version_tag) <= version.parse_version(cfg.current_version):\n        return cfg\n")
exp(N, CLI, "harmless", "pep440 conversion inlined, local renamed, log lines dropped",
    "    latest_version_pep440 = version.to_pep440(latest_version_tag)\n\n    scope_str = f\"({cfg.tag_scope.value})\" if not cfg.tag_scope == config.TagScope.DEFAULT else \"\"\n    logger.info(f\"Latest version from VCS tag: {latest_version_tag} {scope_str}\")\n",
    "",
    also=[("        pep440_version=latest_version_pep440,", "        pep440_version=version.to_pep440(latest_version_tag),")])

# ---- _validate_release_tag ---------------------------------------------------------------------------------
N = "validateReleaseTag"
exp(N, CLI, "break", "`tag is None` -> `not tag` (the empty string passes)",
    "    if tag is None:\n        return\n\n    if tag in VALID_RELEASE_TAG_VALUES:", "    if not tag:\n        return\n\n    if tag in VALID_RELEASE_TAG_VALUES:")
exp(N, CLI, "break", "`in` -> `not in`",
    "    if tag in VALID_RELEASE_TAG_VALUES:\n        return", "    if tag not in VALID_RELEASE_TAG_VALUES:\n        return")
exp(N, CLI, "break", "`sys.exit(1)` -> `sys.exit(0)`",
    "    logger.error(f\"Valid arguments are: {', '.join(VALID_RELEASE_TAG_VALUES)}\")\n    sys.exit(1)",
    "    logger.error(f\"Valid arguments are: {', '.join(VALID_RELEASE_TAG_VALUES)}\")\n    sys.exit(0)")
exp(N, CLI, "break", "`sys.exit(1)` removed (only logs)",
    "    logger.error(f\"Valid arguments are: {', '.join(VALID_RELEASE_TAG_VALUES)}\")\n    sys.exit(1)",
    "    logger.error(f\"Valid arguments are: {', '.join(VALID_RELEASE_TAG_VALUES)}\")")
exp(N, CLI, "break", "the `None` guard removed",
    "    if tag is None:\n        return\n\n    if tag in VALID_RELEASE_TAG_VALUES:", "    if tag in VALID_RELEASE_TAG_VALUES:")
exp(N, CLI, "break", "a missing tag is an error",
    "    if tag is None:\n        return\n\n    if tag in VALID_RELEASE_TAG_VALUES:", "    if tag is None:\n        sys.exit(1)\n\n    if tag in VALID_RELEASE_TAG_VALUES:")
exp(N, CLI, "harmless", "the two returns merged (`is None or in`)",
    "    if tag is None:\n        return\n\n    if tag in VALID_RELEASE_TAG_VALUES:\n        return\n",
    "    if tag is None or tag in VALID_RELEASE_TAG_VALUES:\n        return\n")
exp(N, CLI, "harmless", "inverted structure (`is not None and not in` -> exit)",
    "    if tag is None:\n        return\n\n    if tag in VALID_RELEASE_TAG_VALUES:\n        return\n\n    logger.error(f\"Invalid argument --tag={tag}\")\n    logger.error(f\"Valid arguments are: {', '.join(VALID_RELEASE_TAG_VALUES)}\")\n    sys.exit(1)",
    "    if tag is not None and tag not in VALID_RELEASE_TAG_VALUES:\n        logger.error(f\"Invalid argument --tag={tag}\")\n        sys.exit(1)")
exp(N, CLI, "harmless", "nested if/else",
    "    if tag is None:\n        return\n\n    if tag in VALID_RELEASE_TAG_VALUES:\n        return\n",
    "    if tag is not None:\n        if tag in VALID_RELEASE_TAG_VALUES:\n            return\n    else:\n        return\n")

# ---- _validate_flags -------------------------------------------------------------------------------------------
N = "validateFlags"
exp(N, CLI, "break", "`and` -> `or` in the legacy-pattern test",
    "    if \"{\" in raw_pattern and \"}\" in raw_pattern:", "    if \"{\" in raw_pattern or \"}\" in raw_pattern:")
exp(N, CLI, "break", "`\"MAJOR\" not in` -> `in`",
    "    if major and \"MAJOR\" not in raw_pattern:", "    if major and \"MAJOR\" in raw_pattern:")
exp(N, CLI, "break", "`--minor` checked under the `major` flag",
    "    if minor and \"MINOR\" not in raw_pattern:", "    if major and \"MINOR\" not in raw_pattern:")
exp(N, CLI, "break", "`\"PATCH\"` -> `\"PATH\"`",
    "    if patch and \"PATCH\" not in raw_pattern:", "    if patch and \"PATH\" not in raw_pattern:")
exp(N, CLI, "break", "`if not valid` -> `if valid`", "    if not valid:\n        sys.exit(1)", "    if valid:\n        sys.exit(1)")
exp(N, CLI, "break", "the patch check no longer invalidates",
    "        logger.error(f\"Flag --patch is not applicable to pattern '{raw_pattern}'\")\n        valid = False",
    "        logger.error(f\"Flag --patch is not applicable to pattern '{raw_pattern}'\")\n        valid = True")
exp(N, CLI, "harmless", "the three checks reordered",
    "    if major and \"MAJOR\" not in raw_pattern:\n        logger.error(f\"Flag --major is not applicable to pattern '{raw_pattern}'\")\n        valid = False\n    if minor and \"MINOR\" not in raw_pattern:\n        logger.error(f\"Flag --minor is not applicable to pattern '{raw_pattern}'\")\n        valid = False\n",
    "    if minor and \"MINOR\" not in raw_pattern:\n        logger.error(f\"Flag --minor is not applicable to pattern '{raw_pattern}'\")\n        valid = False\n    if major and \"MAJOR\" not in raw_pattern:\n        logger.error(f\"Flag --major is not applicable to pattern '{raw_pattern}'\")\n        valid = False\n")
exp(N, CLI, "harmless", "`if valid: return` + unconditional exit",
    "    if not valid:\n        sys.exit(1)", "    if valid:\n        return\n    sys.exit(1)")
exp(N, CLI, "harmless", "one boolean expression instead of three ifs",
    "    valid = True\n    if major and \"MAJOR\" not in raw_pattern:\n        logger.error(f\"Flag --major is not applicable to pattern '{raw_pattern}'\")\n        valid = False\n    if minor and \"MINOR\" not in raw_pattern:\n        logger.error(f\"Flag --minor is not applicable to pattern '{raw_pattern}'\")\n        valid = False\n    if patch and \"PATCH\" not in raw_pattern:\n        logger.error(f\"Flag --patch is not applicable to pattern '{raw_pattern}'\")\n        valid = False\n",
    "    valid = not ((major and \"MAJOR\" not in raw_pattern) or (minor and \"MINOR\" not in raw_pattern) or (patch and \"PATCH\" not in raw_pattern))\n")
exp(N, CLI, "harmless", "immediate exits instead of the flag variable",
    "        logger.error(f\"Flag --major is not applicable to pattern '{raw_pattern}'\")\n        valid = False",
    "        sys.exit(1)",
    also=[("        logger.error(f\"Flag --minor is not applicable to pattern '{raw_pattern}'\")\n        valid = False", "        sys.exit(1)")])

# ---- _validate_date -------------------------------------------------------------------------------------------------
N = "validateDate"
exp(N, CLI, "break", "`date and pin_date` -> `date or pin_date`", "    if date and pin_date:", "    if date or pin_date:")
exp(N, CLI, "break", "conjunct `date` dropped", "    if date and pin_date:", "    if pin_date:")
exp(N, CLI, "break", "the `None` guard removed (strptime(None))",
    "    if date is None:\n        return None\n\n    try:", "    try:")
exp(N, CLI, "break", "format `%Y-%m-%d` -> `%Y-%d-%m`",
    "        dt_val = dt.datetime.strptime(date, \"%Y-%m-%d\")", "        dt_val = dt.datetime.strptime(date, \"%Y-%d-%m\")")
exp(N, CLI, "break", "exit code of the ValueError handler 1 -> 2",
    "must match format YYYY-0M-0D.\", exc_info=True)\n        sys.exit(1)", "must match format YYYY-0M-0D.\", exc_info=True)\n        sys.exit(2)")
exp(N, CLI, "break", "the parsed date is dropped (`return None`)", "        return dt_val.date()", "        return None")
exp(N, CLI, "break", "the handler catches PatternError instead of ValueError",
    "    except ValueError:\n        logger.error(f\"Invalid parameter --date", "    except version.PatternError:\n        logger.error(f\"Invalid parameter --date")
exp(N, CLI, "harmless", "the `None` guard moved before the conflict test",
    "    if date and pin_date:\n        logger.error(f\"Can only use either --pin-date or --date='{date}', not both.\")\n        sys.exit(1)\n\n    if date is None:\n        return None\n",
    "    if date is None:\n        return None\n\n    if date and pin_date:\n        logger.error(f\"Can only use either --pin-date or --date='{date}', not both.\")\n        sys.exit(1)\n")
exp(N, CLI, "harmless", "local inlined", "        dt_val = dt.datetime.strptime(date, \"%Y-%m-%d\")\n        return dt_val.date()",
    "        return dt.datetime.strptime(date, \"%Y-%m-%d\").date()")
exp(N, CLI, "harmless", "conjuncts commuted", "    if date and pin_date:", "    if pin_date and date:")

# ---- incr_dispatch ------------------------------------------------------------------------------------------------------
N = "incrDispatch"
V1CALL = "        return v1version.incr(\n            old_version,\n            raw_pattern=raw_pattern,\n            major=major,\n            minor=minor,\n            patch=patch,\n            tag=tag,\n            tag_num=tag_num,\n            pin_date=pin_date,\n            maybe_date=maybe_date,\n        )\n"
V2CALL = "        return v2version.incr(\n            old_version,\n            raw_pattern=raw_pattern,\n            major=major,\n            minor=minor,\n            patch=patch,\n            tag=tag,\n            tag_num=tag_num,\n            pin_increments=pin_increments,\n            pin_date=pin_date,\n            maybe_date=maybe_date,\n        )\n"
exp(N, CLI, "break", "engines exchanged (`if not has_v1_part`)",
    "    if has_v1_part:\n        return v1version.incr(", "    if not has_v1_part:\n        return v1version.incr(")
exp(N, CLI, "break", "closing brace dropped from the part test",
    "any(\"{\" + part + \"}\" in raw_pattern for part in v1_parts)", "any(\"{\" + part in raw_pattern for part in v1_parts)")
exp(N, CLI, "break", "`any` -> `all`",
    "any(\"{\" + part + \"}\" in raw_pattern for part in v1_parts)", "all(\"{\" + part + \"}\" in raw_pattern for part in v1_parts)")
exp(N, CLI, "break", "FULL_PART_FORMATS not consulted",
    "    v1_parts    = list(v1patterns.PART_PATTERNS) + list(v1patterns.FULL_PART_FORMATS)", "    v1_parts    = list(v1patterns.PART_PATTERNS)")
exp(N, CLI, "break", "`pin_increments=pin_increments` -> `pin_increments=pin_date`",
    V2CALL, V2CALL.replace("pin_increments=pin_increments", "pin_increments=pin_date"))
exp(N, CLI, "break", "legacy call: `minor=patch, patch=minor`", V1CALL,
    V1CALL.replace("minor=minor", "minor=patch").replace("patch=patch", "patch=minor"))
exp(N, CLI, "break", "new-engine call: `maybe_date` not passed on", V2CALL, V2CALL.replace("            maybe_date=maybe_date,\n", ""))
exp(N, CLI, "break", "legacy call: `old_version` -> `raw_pattern`", V1CALL,
    V1CALL.replace("            old_version,\n", "            raw_pattern,\n", 1))
exp(N, CLI, "harmless", "`else:` dropped (fall-through return)",
    "    else:\n" + V2CALL, "\n".join(ln[4:] if ln.startswith("        ") else ln for ln in V2CALL.split("\n")))
exp(N, CLI, "harmless", "keyword arguments of the new-engine call reordered", V2CALL,
    "        return v2version.incr(\n            old_version,\n            maybe_date=maybe_date,\n            pin_date=pin_date,\n            pin_increments=pin_increments,\n            tag_num=tag_num,\n            tag=tag,\n            patch=patch,\n            minor=minor,\n            major=major,\n            raw_pattern=raw_pattern,\n        )\n")
exp(N, CLI, "harmless", "part list inlined, generator variable renamed",
    "    v1_parts    = list(v1patterns.PART_PATTERNS) + list(v1patterns.FULL_PART_FORMATS)\n    has_v1_part = any(\"{\" + part + \"}\" in raw_pattern for part in v1_parts)",
    "    has_v1_part = any((\"{\" + p + \"}\") in raw_pattern for p in list(v1patterns.PART_PATTERNS) + list(v1patterns.FULL_PART_FORMATS))")
exp(N, CLI, "harmless", "negated test with exchanged branches",
    "    if has_v1_part:\n" + V1CALL + "    else:\n" + V2CALL,
    "    if not has_v1_part:\n" + V2CALL + "    else:\n" + V1CALL)

ANY = "    has_v1_part = any(\"{\" + part + \"}\" in raw_pattern for part in v1_parts)"
FLAG = ("    has_v1_part = False\n    for part in v1_parts:\n        if \"{\" + part + \"}\" in raw_pattern:\n"
        "            has_v1_part = True\n            break")
exp(N, CLI, "harmless", "flag + `for … if …: flag = True; break` instead of `any(…)` (harmless2.diff)", ANY, FLAG)
exp(N, CLI, "break", "flag loop that never sets the flag", ANY, FLAG.replace("has_v1_part = True", "has_v1_part = False"))
exp(N, CLI, "break", "flag loop with the test negated", ANY, FLAG.replace("        if \"{\"", "        if not \"{\""))

# ---- _cmpkey ----------------------------------------------------------------------------------------------------------------
N = "cmpkey"
F65 = "setuptools_v65_version.py"
REL = "    _release = tuple(reversed(list(itertools.dropwhile(lambda x: x == 0, reversed(release)))))"
exp(N, F65, "break", "the `post is None` guard of the dev-only trick dropped",
    "    if pre is None and post is None and dev is not None:", "    if pre is None and dev is not None:")
exp(N, F65, "break", "dev-only trick removed (`_pre = Infinity`)",
    "        _pre: PrePostDevType = NegativeInfinity", "        _pre: PrePostDevType = Infinity")
exp(N, F65, "break", "`dev is not None` -> `dev is None`",
    "    if pre is None and post is None and dev is not None:", "    if pre is None and post is None and dev is None:")
exp(N, F65, "break", "no dev segment sorts BEFORE (`_dev = NegativeInfinity`)",
    "        _dev: PrePostDevType = Infinity", "        _dev: PrePostDevType = NegativeInfinity")
exp(N, F65, "break", "`x == 0` -> `x != 0`", REL, REL.replace("x == 0", "x != 0"))
exp(N, F65, "break", "leading instead of trailing zeros stripped (inner `reversed` dropped)", REL,
    "    _release = tuple(reversed(list(itertools.dropwhile(lambda x: x == 0, release))))")
exp(N, F65, "break", "`_pre` and `_post` exchanged in the result",
    "    return epoch, _release, _pre, _post, _dev, _local", "    return epoch, _release, _post, _pre, _dev, _local")
exp(N, F65, "break", "no local segment sorts AFTER (`_local = Infinity`)",
    "        _local: LocalType = NegativeInfinity", "        _local: LocalType = Infinity")
exp(N, F65, "break", "`isinstance(i, int)` -> `isinstance(i, str)`",
    "(i, \"\") if isinstance(i, int) else (NegativeInfinity, i)", "(i, \"\") if isinstance(i, str) else (NegativeInfinity, i)")
exp(N, F65, "break", "`elif pre is None: _pre = Infinity` -> `NegativeInfinity`",
    "    elif pre is None:\n        _pre = Infinity", "    elif pre is None:\n        _pre = NegativeInfinity")
exp(N, F65, "harmless", "`post is None` -> `not post` (a tuple is always truthy)",
    "    if post is None:\n        _post: PrePostDevType = NegativeInfinity", "    if not post:\n        _post: PrePostDevType = NegativeInfinity")
exp(N, F65, "harmless", "the three-way `_pre` decision reordered",
    "    if pre is None and post is None and dev is not None:\n        _pre: PrePostDevType = NegativeInfinity\n    # Versions without a pre-release (except as noted above) should sort after\n    # those with one.\n    elif pre is None:\n        _pre = Infinity\n    else:\n        _pre = pre\n",
    "    if pre is not None:\n        _pre = pre\n    elif post is None and dev is not None:\n        _pre = NegativeInfinity\n    else:\n        _pre = Infinity\n")
exp(N, F65, "harmless", "conditional expressions for `_post` / `_dev`",
    "    if post is None:\n        _post: PrePostDevType = NegativeInfinity\n\n    else:\n        _post = post\n",
    "    _post = NegativeInfinity if post is None else post\n",
    also=[("    if dev is None:\n        _dev: PrePostDevType = Infinity\n\n    else:\n        _dev = dev\n", "    _dev = dev if dev is not None else Infinity\n")])
exp(N, F65, "harmless", "`0 == x`, `tuple`/`list` wrappers dropped", REL,
    "    _release = list(reversed(list(itertools.dropwhile(lambda z: 0 == z, reversed(release)))))")
exp(N, F65, "harmless", "`isinstance(i, str)` with exchanged branches",
    "(i, \"\") if isinstance(i, int) else (NegativeInfinity, i)", "(NegativeInfinity, i) if isinstance(i, str) else (i, \"\")")

# ---- _pick_config_filepath ------------------------------------------------------------------------------------------------------
N = "pickConfigFilepath"
CFGF = "config.py"
SEC = "            has_bumpver_section = (b\"bumpver]\" in data or b\"pycalver]\" in data) and b\"current_version\" in data"
exp(N, CFGF, "break", "candidate order: `.bumpver.toml` before `bumpver.toml`",
    "        path / \"bumpver.toml\",\n        path / \".bumpver.toml\",", "        path / \".bumpver.toml\",\n        path / \"bumpver.toml\",")
exp(N, CFGF, "break", "candidate `setup.cfg` dropped", "        path / \"setup.cfg\",\n    ]", "    ]")
exp(N, CFGF, "break", "`and b\"current_version\"` -> `or`", SEC, SEC.replace(") and b\"current_version\"", ") or b\"current_version\""))
exp(N, CFGF, "break", "marker `pycalver]` -> `pycalver`", SEC, SEC.replace("b\"pycalver]\"", "b\"pycalver\""))
exp(N, CFGF, "break", "fallback `bumpver.toml` -> `pyproject.toml`",
    "    return path / \"bumpver.toml\"", "    return path / \"pyproject.toml\"")
exp(N, CFGF, "break", "second pass picks a file that does NOT exist",
    "        if config_filepath.exists():\n            return config_filepath", "        if not config_filepath.exists():\n            return config_filepath")
exp(N, CFGF, "break", "first pass returns without looking at the section",
    "            if has_bumpver_section:\n                return config_filepath", "            if has_bumpver_section or True:\n                return config_filepath")
exp(N, CFGF, "harmless", "locals renamed, `open(\"rb\")` positional",
    "            with config_filepath.open(mode=\"rb\") as fobj:\n                data = fobj.read()\n\n" + SEC + "\n            if has_bumpver_section:",
    "            with config_filepath.open(\"rb\") as fh:\n                raw = fh.read()\n\n            ok = (b\"bumpver]\" in raw or b\"pycalver]\" in raw) and b\"current_version\" in raw\n            if ok:")
exp(N, CFGF, "harmless", "conjuncts / disjuncts of the section test reordered", SEC,
    "            has_bumpver_section = b\"current_version\" in data and (b\"pycalver]\" in data or b\"bumpver]\" in data)")
exp(N, CFGF, "harmless", "section test inlined into the `if`",
    SEC + "\n            if has_bumpver_section:",
    "            if (b\"bumpver]\" in data or b\"pycalver]\" in data) and b\"current_version\" in data:")
exp(N, CFGF, "harmless", "fallback bound to a local first",
    "    return path / \"bumpver.toml\"", "    fallback = path / \"bumpver.toml\"\n    return fallback")


FIRST_LOOP = ("        if config_filepath.exists():\n            with config_filepath.open(mode=\"rb\") as fobj:\n                data = fobj.read()\n\n"
              + SEC + "\n            if has_bumpver_section:\n                return config_filepath\n")
CONT_LOOP = ("        if not config_filepath.exists():\n            continue\n\n        with config_filepath.open(mode=\"rb\") as fobj:\n"
             "            raw_bytes = fobj.read()\n\n        has_section_header = b\"bumpver]\" in raw_bytes or b\"pycalver]\" in raw_bytes\n"
             "        if has_section_header and b\"current_version\" in raw_bytes:\n            return config_filepath\n")
exp(N, CFGF, "harmless", "`continue` for missing candidates, section test split into two steps (harmless3.diff)", FIRST_LOOP, CONT_LOOP)
exp(N, CFGF, "break", "`continue` form that skips the EXISTING candidates", FIRST_LOOP,
    CONT_LOOP.replace("if not config_filepath.exists():", "if config_filepath.exists():"))

# ---- _is_valid_version, rewrite kinds of harmless2.diff ---------------------------------------------------------------
N = "isValidVersion"
exp(N, CLI, "harmless", "`not (\"{\" in p or \"}\" in p)`, parser branches exchanged under `if not`",
    "    is_new_pattern = \"{\" not in raw_pattern and \"}\" not in raw_pattern\n\n    try:\n        if is_new_pattern:\n            v2version.parse_version_info(new_version, raw_pattern)\n        else:\n            v1version.parse_version_info(new_version, raw_pattern)\n",
    "    is_new_pattern = not (\"{\" in raw_pattern or \"}\" in raw_pattern)\n\n    try:\n        if not is_new_pattern:\n            v1version.parse_version_info(new_version, raw_pattern)\n        else:\n            v2version.parse_version_info(new_version, raw_pattern)\n")
exp(N, CLI, "break", "`not (\"{\" in p and \"}\" in p)`",
    "    is_new_pattern = \"{\" not in raw_pattern and \"}\" not in raw_pattern\n\n    try:",
    "    is_new_pattern = not (\"{\" in raw_pattern and \"}\" in raw_pattern)\n\n    try:")


def run(cmd, **kw):
    return subprocess.run(cmd, stdout=subprocess.PIPE, stderr=subprocess.STDOUT, text=True, **kw)


def main():
    only = set(sys.argv[1:])
    import translate_cli
    baseline = translate_cli.generate([])
    results = []
    out_lines = []
    for e in E:
        if only and e["name"] not in only:
            continue
        if os.path.exists(SCRATCH):
            shutil.rmtree(SCRATCH)
        shutil.copytree("/repo/src", os.path.join(SCRATCH, "src"))
        path = os.path.join(SCRATCH, "src", "bumpver", e["file"])
        src = open(path, encoding="utf-8").read()
        for old, new in [(e["old"], e["new"])] + e["also"]:
            if src.count(old) != 1:
                print("!! edit text occurs %d times: %r" % (src.count(old), old))
                return 2
            src = src.replace(old, new)
        open(path, "w", encoding="utf-8").write(src)
        os.environ["VERIF_REPO"] = SCRATCH
        rep = []
        files = translate_cli.generate(rep)
        del os.environ["VERIF_REPO"]
        fname = "F_%s.lean" % e["name"]
        err = [x for x in rep if x[1] == fname][0][2]
        # only the function under test may change (other generated files: written too, restored afterwards)
        for name, content in files.items():
            if content != baseline[name] or name == fname:
                open(os.path.join(GEN, name), "w", encoding="utf-8").write(content)
        b = run(["timeout", "600", "lake", "build", "BumpverVerif.Gen.F_%s" % e["name"]], cwd=LEAN)
        if b.returncode != 0:
            outcome = "generated file does not compile"
            ok = False
        else:
            t = run(["timeout", "300", "lake", "env", "lean", "BumpverVerif/Proofs/Tie_%s.lean" % e["name"]], cwd=LEAN)
            ok = t.returncode == 0 and "error" not in t.stdout
            if ok:
                outcome = "Tie_%s.lean compiles" % e["name"]
            else:
                first = [ln for ln in t.stdout.splitlines() if "error" in ln][:1]
                outcome = "Tie_%s.lean FAILS: %s" % (e["name"], (first[0] if first else "rc=%d" % t.returncode)[:110])
        if err is not None:
            outcome = "UNTRANSLATABLE (%s); %s" % (getattr(err, "reason", err), outcome[:60])
        verdict = "as intended" if ok == (e["kind"] == "harmless") else "** NOT as intended **"
        results.append((e, outcome, verdict))
        line = "%-24s %-9s %-78s -> %s [%s]" % (e["name"], e["kind"], e["label"], outcome, verdict)
        out_lines.append(line)
        print(line, flush=True)
        # restore every generated file immediately (a later experiment may import this function's file)
        for name, content in files.items():
            if content != baseline[name]:
                open(os.path.join(GEN, name), "w", encoding="utf-8").write(baseline[name])
    # restore
    shutil.rmtree(SCRATCH, ignore_errors=True)
    for name, content in baseline.items():
        p = os.path.join(GEN, name)
        if open(p, encoding="utf-8").read() != content:
            open(p, "w", encoding="utf-8").write(content)
    mods = sorted({"BumpverVerif.Proofs.Tie_%s" % e["name"] for e, _, _ in results})
    if mods:
        b = run(["timeout", "1800", "lake", "build"] + mods, cwd=LEAN)
        print("restore build:", "ok" if b.returncode == 0 else b.stdout[-2000:])
    nb = [r for r in results if r[0]["kind"] == "break"]
    nh = [r for r in results if r[0]["kind"] == "harmless"]
    summary = "break: %d/%d as intended; harmless: %d/%d as intended" % (
        sum(1 for r in nb if r[2] == "as intended"), len(nb), sum(1 for r in nh if r[2] == "as intended"), len(nh))
    print(summary)
    if not only:
        with open(os.path.join(HERE, "cli_tie_experiments.out.txt"), "w", encoding="utf-8") as f:
            f.write("\n".join(out_lines) + "\n" + summary + "\n")
    return 0


if __name__ == "__main__":
    sys.exit(main())
