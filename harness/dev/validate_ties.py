#!/usr/bin/env python3
"""Every theorem registered in harness/ties.json must exist in its module and depend on the standard axioms only
(run after registering new ties: a wrong module/theorem name would otherwise only show as a failing audit of some check)."""
import json, os, re, subprocess, sys
VERIF = os.path.dirname(os.path.dirname(os.path.dirname(os.path.abspath(__file__))))
d = json.load(open(os.path.join(VERIF, "harness", "ties.json")))
mods, thms = set(), set()
for pid, lst in d.items():
    for e in lst:
        m = e["module"] if "." in e["module"] else "BumpverVerif.Proofs." + e["module"]
        mods.add(m)
        thms.add((m, e["theorem"]))
src = "".join("import %s\n" % m for m in sorted(mods)) + "open BV\n" + "".join("#print axioms %s\n" % t for m, t in sorted(thms))
os.makedirs(os.path.join(VERIF, "lean", ".lake"), exist_ok=True)
f = os.path.join(VERIF, "lean", ".lake", "all-ties-audit.lean")
open(f, "w").write(src)
r = subprocess.run(["lake", "env", "lean", f], cwd=os.path.join(VERIF, "lean"), capture_output=True, text=True)
out = r.stdout + r.stderr
errs = [l for l in out.splitlines() if re.search(r"(^|: )error", l) and "depends on axioms" not in l]
bad = []
for m in re.finditer(r"'([^']+)' depends on axioms: \[([^\]]*)\]", out.replace("\n", " ")):
    if any(a.strip() not in ("propext", "Classical.choice", "Quot.sound") for a in m.group(2).split(",") if a.strip()):
        bad.append(m.group(0))
print("%d theorems in %d modules; rc %d; errors %d; non-standard axioms %d" % (len(thms), len(mods), r.returncode, len(errs), len(bad)))
for l in errs[:20] + bad[:20]:
    print("  " + l)
sys.exit(1 if (r.returncode or errs or bad) else 0)
