#!/venv/bin/python
"""Robustness demonstration for harness/translate_rewrite.py + Proofs/Tie_<name>.lean (the file REWRITE path).

For every experiment: copy /repo/src to a scratch tree, apply ONE textual edit to the Python source,
run the translator with VERIF_REPO pointing at the scratch tree, write the regenerated Gen/F_*.lean of the
group, and `lake build` the tie module(s) of the edited function (which rebuilds what they depend on).

  kind 'break'   : a plausible semantic one-token edit  -> the tie must NO LONGER build
                   (either the proof breaks or the function has become UNTRANSLATABLE)
  kind 'harmless': a behaviour-preserving rewrite        -> the tie must still build

Afterwards the generated files are restored from the unmodified /repo and the scratch tree removed.
Usage: /venv/bin/python harness/dev/rewrite_tie_experiments.py [name ...]   (name = iterForPattern, ...)
Output: one line per experiment; the table is copied to harness/dev/rewrite_tie_experiments.out.txt.
"""
import os
import shutil
import subprocess
import sys

HERE = os.path.dirname(os.path.abspath(__file__))
HARNESS = os.path.dirname(HERE)
VERIF = os.path.dirname(HARNESS)
LEAN = os.path.join(VERIF, "lean")
GEN = os.path.join(LEAN, "BumpverVerif", "Gen")
SCRATCH = os.path.join(VERIF, "scratch_repo_rewrite")
sys.path.insert(0, HARNESS)

E = []


def exp(name, file, kind, label, old, new, ties=None, also=None, variant=None):
    """variant: a Lean file (relative to harness/dev) that must COMPILE under the edit: it proves what the
    edited function has become"""
    E.append(dict(name=name, file=file, kind=kind, label=label, old=old, new=new,
                  ties=ties or ["Tie_%s" % name], also=also or [], variant=variant))


P = "parse.py"
R = "rewrite.py"
V = "v2rewrite.py"

# ---- parse._iter_for_pattern ----------------------------------------------------------------------
N = "iterForPattern"
exp(N, P, "break", "`len(match.group(0)) > 0` -> `>= 0` (empty matches kept)",
    "if match and len(match.group(0)) > 0:", "if match and len(match.group(0)) >= 0:")
exp(N, P, "break", "`> 0` -> `> 1` (one-character matches dropped)",
    "if match and len(match.group(0)) > 0:", "if match and len(match.group(0)) > 1:")
exp(N, P, "break", "emptiness conjunct dropped",
    "if match and len(match.group(0)) > 0:", "if match:")
exp(N, P, "break", "`enumerate(lines)` -> `enumerate(lines, 1)` (one-based line numbers)",
    "for lineno, line in enumerate(lines):", "for lineno, line in enumerate(lines, 1):")
exp(N, P, "break", "`lineno` -> `lineno + 1` in the yielded match",
    "yield PatternMatch(lineno, line, pattern,", "yield PatternMatch(lineno + 1, line, pattern,")
exp(N, P, "break", "`match.span()` -> `(match.start(), match.start())`",
    "pattern, match.span(), match.group(0))", "pattern, (match.start(), match.start()), match.group(0))")
exp(N, P, "break", "span reversed `(match.end(), match.start())`",
    "pattern, match.span(), match.group(0))", "pattern, (match.end(), match.start()), match.group(0))")
exp(N, P, "break", "`if match and ...` -> `if not match or ...`",
    "if match and len(match.group(0)) > 0:", "if not match or len(match.group(0)) > 0:")
exp(N, P, "harmless", "local `match` renamed to `m`",
    "        match = pattern.regexp.search(line)\n        if match and len(match.group(0)) > 0:\n"
    "            yield PatternMatch(lineno, line, pattern, match.span(), match.group(0))",
    "        m = pattern.regexp.search(line)\n        if m and len(m.group(0)) > 0:\n"
    "            yield PatternMatch(lineno, line, pattern, m.span(), m.group(0))")
exp(N, P, "harmless", "`len(x) > 0` -> `0 < len(x)`",
    "if match and len(match.group(0)) > 0:", "if match and 0 < len(match.group(0)):")
exp(N, P, "harmless", "`and` -> nested `if`",
    "        if match and len(match.group(0)) > 0:\n            yield PatternMatch(lineno, line, pattern, match.span(), match.group(0))",
    "        if match:\n            if len(match.group(0)) > 0:\n"
    "                yield PatternMatch(lineno, line, pattern, match.span(), match.group(0))")
exp(N, P, "harmless", "`match.group(0)` -> `match.group()`, `match` -> `match is not None`",
    "        if match and len(match.group(0)) > 0:\n            yield PatternMatch(lineno, line, pattern, match.span(), match.group(0))",
    "        if match is not None and len(match.group()) > 0:\n"
    "            yield PatternMatch(lineno, line, pattern, match.span(), match.group())")
exp(N, P, "harmless", "`match.span()` -> `(match.start(), match.end())`, keyword constructor",
    "yield PatternMatch(lineno, line, pattern, match.span(), match.group(0))",
    "yield PatternMatch(lineno=lineno, line=line, pattern=pattern, span=(match.start(), match.end()), match=match.group(0))")

# ---- parse.iter_matches ---------------------------------------------------------------------------
N = "iterMatches"
exp(N, P, "break", "`if not _has_overlap` -> `if _has_overlap`",
    "if not _has_overlap(needle_span, matched_spans):", "if _has_overlap(needle_span, matched_spans):")
exp(N, P, "break", "span recorded only when yielded (append moved into the `if`)",
    "                yield match\n            matched_spans.append(needle_span)",
    "                yield match\n                matched_spans.append(needle_span)")
exp(N, P, "break", "span recorded BEFORE the overlap test",
    "            if not _has_overlap(needle_span, matched_spans):\n                yield match\n            matched_spans.append(needle_span)",
    "            matched_spans.append(needle_span)\n            if not _has_overlap(needle_span, matched_spans):\n                yield match")
exp(N, P, "break", "`matched_spans` reset for every pattern",
    "    matched_spans: LineSpans = []\n    for pattern in patterns:",
    "    for pattern in patterns:\n        matched_spans: LineSpans = []")
exp(N, P, "break", "needle `LineSpan(lineno, start, start)`",
    "needle_span = LineSpan(match.lineno, *match.span)", "needle_span = LineSpan(match.lineno, match.span[0], match.span[0])")
exp(N, P, "break", "first pattern skipped `patterns[1:]`",
    "    for pattern in patterns:\n        for match in _iter_for_pattern", "    for pattern in patterns[1:]:\n        for match in _iter_for_pattern")
exp(N, P, "break", "overlap tested against an empty list",
    "if not _has_overlap(needle_span, matched_spans):", "if not _has_overlap(needle_span, []):")
exp(N, P, "break", "overlap test dropped (`yield` unconditional)",
    "            if not _has_overlap(needle_span, matched_spans):\n                yield match\n", "            yield match\n")
exp(N, P, "harmless", "local `needle_span` renamed",
    "            needle_span = LineSpan(match.lineno, *match.span)\n            if not _has_overlap(needle_span, matched_spans):\n                yield match\n            matched_spans.append(needle_span)",
    "            sp = LineSpan(match.lineno, *match.span)\n            if not _has_overlap(sp, matched_spans):\n                yield match\n            matched_spans.append(sp)")
exp(N, P, "harmless", "`if not c: yield` -> `if c: pass else: yield`",
    "            if not _has_overlap(needle_span, matched_spans):\n                yield match\n",
    "            if _has_overlap(needle_span, matched_spans):\n                pass\n            else:\n                yield match\n")
exp(N, P, "harmless", "`*match.span` -> explicit components, keyword constructor",
    "needle_span = LineSpan(match.lineno, *match.span)",
    "needle_span = LineSpan(lineno=match.lineno, start=match.span[0], end=match.span[1])")
exp(N, P, "harmless", "overlap test bound to a local first",
    "            if not _has_overlap(needle_span, matched_spans):\n                yield match\n",
    "            overlaps = _has_overlap(needle_span, matched_spans)\n            if not overlaps:\n                yield match\n")

# ---- v2rewrite.rewrite_lines ------------------------------------------------------------------------
N = "rewriteLines"
exp(N, V, "break", "sort key `-m.span[0]` -> `m.span[0]` (replacements left to right)",
    "key=lambda m: (m.lineno, -m.span[0]))", "key=lambda m: (m.lineno, m.span[0]))")
exp(N, V, "break", "the sort dropped",
    "matches = sorted(parse.iter_matches(old_lines, patterns), key=lambda m: (m.lineno, -m.span[0]))",
    "matches = list(parse.iter_matches(old_lines, patterns))")
exp(N, V, "break", "replacement built from the OLD line (`new_lines[...]` -> `old_lines[...]`)",
    "cur_line = new_lines[match.lineno]", "cur_line = old_lines[match.lineno]")
exp(N, V, "break", "`cur_line[:span_l]` -> `cur_line[:span_r]`",
    "cur_line[:span_l] + replacement", "cur_line[:span_r] + replacement")
exp(N, V, "break", "`cur_line[span_r:]` -> `cur_line[span_l:]`",
    "replacement + cur_line[span_r:]", "replacement + cur_line[span_l:]")
exp(N, V, "break", "a COUNT instead of a set: `len(patterns) == len(found_patterns)`",
    "if set(patterns) == found_patterns:", "if len(patterns) == len(found_patterns):")
exp(N, V, "break", "`found_patterns.add(...)` dropped",
    "        found_patterns.add(match.pattern)\n", "")
exp(N, V, "break", "`old_lines[:]` -> `old_lines` (aliasing: the caller's old lines are mutated)",
    "new_lines = old_lines[:]", "new_lines = old_lines")
exp(N, V, "break", "`return new_lines` -> `return old_lines`",
    "    if set(patterns) == found_patterns:\n        return new_lines", "    if set(patterns) == found_patterns:\n        return old_lines")
exp(N, V, "break", "normalize_pattern arguments swapped",
    "            match.pattern.version_pattern, match.pattern.raw_pattern\n", "            match.pattern.raw_pattern, match.pattern.version_pattern\n")
exp(N, V, "break", "partial match accepted (`raise` -> `return new_lines` when some pattern was found)",
    "        raise rewrite.NoPatternMatch(errmsg)\n\n    for nmp", "        return new_lines\n\n    for nmp")
exp(N, V, "break", "the written line index off by one",
    "        new_lines[match.lineno] = cur_line[:span_l]", "        new_lines[match.lineno + 1] = cur_line[:span_l]")
exp(N, V, "break", "raw pattern rendered without normalisation",
    "replacement = v2version.format_version(new_vinfo, normalized_pattern)",
    "replacement = v2version.format_version(new_vinfo, match.pattern.raw_pattern)")
exp(N, V, "harmless", "local `cur_line` renamed",
    "        cur_line = new_lines[match.lineno]\n        new_lines[match.lineno] = cur_line[:span_l] + replacement + cur_line[span_r:]",
    "        ln = new_lines[match.lineno]\n        new_lines[match.lineno] = ln[:span_l] + replacement + ln[span_r:]")
exp(N, V, "harmless", "tuple unpacking -> two subscripts",
    "        span_l, span_r = match.span\n", "        span_l = match.span[0]\n        span_r = match.span[1]\n")
exp(N, V, "harmless", "`set(patterns) == found_patterns` commuted",
    "if set(patterns) == found_patterns:", "if found_patterns == set(patterns):")
exp(N, V, "harmless", "the 'greedy pattern' special case removed (both paths raise NoPatternMatch)",
    "    if len(found_patterns) > 0:\n        errmsg = \"Possible greedy pattern. See: https://github.com/mbarkhau/bumpver/issues/215\"\n        raise rewrite.NoPatternMatch(errmsg)\n",
    "")
exp(N, V, "harmless", "test negated, branches exchanged",
    "    if set(patterns) == found_patterns:\n        return new_lines\n\n    non_matched_patterns = set(patterns) - found_patterns\n    if len(found_patterns) > 0:\n        errmsg = \"Possible greedy pattern. See: https://github.com/mbarkhau/bumpver/issues/215\"\n        raise rewrite.NoPatternMatch(errmsg)\n\n    for nmp in non_matched_patterns:",
    "    if set(patterns) != found_patterns:\n        non_matched_patterns = set(patterns) - found_patterns\n        if len(found_patterns) > 0:\n            raise rewrite.NoPatternMatch(\"Possible greedy pattern.\")\n        raise rewrite.NoPatternMatch(\"Invalid pattern(s)\")\n    else:\n        return new_lines\n\n    non_matched_patterns = set(patterns) - found_patterns\n    for nmp in non_matched_patterns:")
exp(N, V, "harmless", "`sorted(...)` of an explicit `list(...)`, key components named",
    "matches = sorted(parse.iter_matches(old_lines, patterns), key=lambda m: (m.lineno, -m.span[0]))",
    "found = list(parse.iter_matches(old_lines, patterns))\n    matches = sorted(found, key=lambda pm: (pm.lineno, -pm.span[0]))")

# ---- v2rewrite.rfd_from_content ---------------------------------------------------------------------
N = "rfdFromContent"
RFD = "return rewrite.RewrittenFileData(path, line_sep, old_lines, new_lines)"
exp(N, V, "break", "`content.split(line_sep)` -> `content.split(\"\\n\")`",
    "old_lines = content.split(line_sep)", "old_lines = content.split(\"\\n\")")
exp(N, V, "break", "record carries `\"\\n\"` instead of the detected separator",
    RFD, "return rewrite.RewrittenFileData(path, \"\\n\", old_lines, new_lines)")
exp(N, V, "break", "record carries new_lines twice",
    RFD, "return rewrite.RewrittenFileData(path, line_sep, new_lines, new_lines)")
exp(N, V, "break", "record carries old_lines twice (nothing is rewritten)",
    RFD, "return rewrite.RewrittenFileData(path, line_sep, old_lines, old_lines)")
exp(N, V, "break", "`detect_line_sep(content)` replaced by the constant `\"\\n\"`",
    "line_sep  = rewrite.detect_line_sep(content)", "line_sep  = \"\\n\"")
exp(N, V, "break", "only the first pattern is passed on",
    "new_lines = rewrite_lines(patterns, new_vinfo, old_lines)", "new_lines = rewrite_lines(patterns[:1], new_vinfo, old_lines)")
exp(N, V, "break", "`split` -> `splitlines()`",
    "old_lines = content.split(line_sep)", "old_lines = content.splitlines()")
exp(N, V, "harmless", "locals renamed",
    "    line_sep  = rewrite.detect_line_sep(content)\n    old_lines = content.split(line_sep)\n    new_lines = rewrite_lines(patterns, new_vinfo, old_lines)\n    " + RFD,
    "    sep = rewrite.detect_line_sep(content)\n    before = content.split(sep)\n    after = rewrite_lines(patterns, new_vinfo, before)\n    return rewrite.RewrittenFileData(path, sep, before, after)")
exp(N, V, "harmless", "keyword constructor, fields in another order",
    RFD, "return rewrite.RewrittenFileData(new_lines=new_lines, old_lines=old_lines, path=path, line_sep=line_sep)")
exp(N, V, "harmless", "record built first, then `_replace`d",
    RFD, "rfd = rewrite.RewrittenFileData(path, line_sep, old_lines, old_lines)\n    return rfd._replace(new_lines=new_lines)")
exp(N, V, "harmless", "another default for `path`",
    "    path     : str = \"<path>\",\n) -> rewrite.RewrittenFileData:\n    r\"\"\"Rewrite pattern occurrences with version string.\n\n    >>> from .v2patterns",
    "    path     : str = \"<unknown>\",\n) -> rewrite.RewrittenFileData:\n    r\"\"\"Rewrite pattern occurrences with version string.\n\n    >>> from .v2patterns")

# ---- v2rewrite.iter_rewritten (+ rewrite.iter_path_patterns_items, inlined) ---------------------------
N = "iterRewritten"
T4 = ["Tie_iterRewritten", "Tie_rewriteFiles"]
exp(N, V, "break", "`_replace(path=...)` dropped: the records keep the path \"<path>\"",
    "yield rfd._replace(path=str(file_path))", "yield rfd", ties=T4)
exp(N, V, "break", "only the first pattern of each file",
    "        rfd = rfd_from_content(patterns, new_vinfo, content)\n        yield", "        rfd = rfd_from_content(patterns[:1], new_vinfo, content)\n        yield", ties=T4)
exp(N, V, "break", "read without `newline=''`",
    "        with file_path.open(mode=\"rt\", newline='', encoding=\"utf-8\") as fobj:\n            content = fobj.read()\n\n        rfd = rfd_from_content(patterns, new_vinfo, content)\n        yield",
    "        with file_path.open(mode=\"rt\", encoding=\"utf-8\") as fobj:\n            content = fobj.read()\n\n        rfd = rfd_from_content(patterns, new_vinfo, content)\n        yield", ties=T4)
exp(N, V, "break", "read without `encoding=`",
    "        with file_path.open(mode=\"rt\", newline='', encoding=\"utf-8\") as fobj:\n            content = fobj.read()\n\n        rfd = rfd_from_content(patterns, new_vinfo, content)\n        yield",
    "        with file_path.open(mode=\"rt\", newline='') as fobj:\n            content = fobj.read()\n\n        rfd = rfd_from_content(patterns, new_vinfo, content)\n        yield", ties=T4)
exp(N, R, "break", "iter_path_patterns_items: a missing file is skipped instead of raising",
    "            errmsg = f\"File does not exist: '{filepath_str}'\"\n            raise IOError(errmsg)", "            pass", ties=T4)
exp(N, R, "break", "iter_path_patterns_items: `if exists` -> `if not exists`",
    "        if filepath_obj.exists():", "        if not filepath_obj.exists():", ties=T4)
exp(N, R, "break", "iter_path_patterns_items: raises NoPatternMatch instead of IOError",
    "            raise IOError(errmsg)", "            raise NoPatternMatch(errmsg)", ties=T4)
exp(N, V, "break", "a file whose patterns do not match is skipped (try/except/continue)",
    "        rfd = rfd_from_content(patterns, new_vinfo, content)\n        yield rfd._replace(path=str(file_path))",
    "        try:\n            rfd = rfd_from_content(patterns, new_vinfo, content)\n        except rewrite.NoPatternMatch:\n            continue\n        yield rfd._replace(path=str(file_path))", ties=T4)
exp(N, V, "harmless", "path passed to rfd_from_content instead of `_replace`",
    "        rfd = rfd_from_content(patterns, new_vinfo, content)\n        yield rfd._replace(path=str(file_path))",
    "        rfd = rfd_from_content(patterns, new_vinfo, content, str(file_path))\n        yield rfd", ties=T4)
exp(N, V, "harmless", "locals renamed",
    "            content = fobj.read()\n\n        rfd = rfd_from_content(patterns, new_vinfo, content)\n        yield rfd._replace(path=str(file_path))",
    "            text = fobj.read()\n\n        data = rfd_from_content(patterns, new_vinfo, text)\n        yield data._replace(path=str(file_path))", ties=T4)
exp(N, R, "harmless", "iter_path_patterns_items: test negated, branches exchanged",
    "        if filepath_obj.exists():\n            yield (filepath_obj, patterns)\n        else:\n            errmsg = f\"File does not exist: '{filepath_str}'\"\n            raise IOError(errmsg)",
    "        if not filepath_obj.exists():\n            errmsg = f\"File does not exist: '{filepath_str}'\"\n            raise IOError(errmsg)\n        else:\n            yield (filepath_obj, patterns)", ties=T4)
exp(N, R, "harmless", "iter_path_patterns_items: early raise, `yield` after the `if`",
    "        if filepath_obj.exists():\n            yield (filepath_obj, patterns)\n        else:\n            errmsg = f\"File does not exist: '{filepath_str}'\"\n            raise IOError(errmsg)",
    "        if not filepath_obj.exists():\n            raise IOError(f\"File does not exist: '{filepath_str}'\")\n        yield (filepath_obj, patterns)", ties=T4)
exp(N, R, "harmless", "iter_path_patterns_items: the existence test dropped (open() raises the same IOError class)",
    "        if filepath_obj.exists():\n            yield (filepath_obj, patterns)\n        else:\n            errmsg = f\"File does not exist: '{filepath_str}'\"\n            raise IOError(errmsg)",
    "        yield (filepath_obj, patterns)", ties=T4)

# ---- v2rewrite.rewrite_files ---------------------------------------------------------------------------
N = "rewriteFiles"
exp(N, V, "break", "the LAZY loop: `list(...)` removed (files are written before the next one is validated)",
    "for file_data in list(iter_rewritten(file_patterns, new_vinfo)):", "for file_data in iter_rewritten(file_patterns, new_vinfo):",
    variant="RewriteFilesLazyVariant.lean")
exp(N, V, "break", "`\"\\n\".join` instead of the detected separator",
    "new_content = file_data.line_sep.join(file_data.new_lines)", "new_content = \"\\n\".join(file_data.new_lines)")
exp(N, V, "break", "old lines written back",
    "new_content = file_data.line_sep.join(file_data.new_lines)", "new_content = file_data.line_sep.join(file_data.old_lines)")
exp(N, V, "break", "write without `newline=''`",
    "with io.open(file_data.path, mode=\"wt\", newline='', encoding=\"utf-8\") as fobj:", "with io.open(file_data.path, mode=\"wt\", encoding=\"utf-8\") as fobj:")
exp(N, V, "break", "mode \"wt\" -> \"at\" (append)",
    "with io.open(file_data.path, mode=\"wt\", newline='', encoding=\"utf-8\") as fobj:", "with io.open(file_data.path, mode=\"at\", newline='', encoding=\"utf-8\") as fobj:")
exp(N, V, "break", "only the first file is written `[:1]`",
    "for file_data in list(iter_rewritten(file_patterns, new_vinfo)):", "for file_data in list(iter_rewritten(file_patterns, new_vinfo))[:1]:")
exp(N, V, "break", "a trailing separator is appended to the content",
    "fobj.write(new_content)", "fobj.write(new_content + file_data.line_sep)")
exp(N, V, "harmless", "loop variable renamed",
    "    for file_data in list(iter_rewritten(file_patterns, new_vinfo)):\n        new_content = file_data.line_sep.join(file_data.new_lines)\n        with io.open(file_data.path, mode=\"wt\", newline='', encoding=\"utf-8\") as fobj:",
    "    for fd in list(iter_rewritten(file_patterns, new_vinfo)):\n        new_content = fd.line_sep.join(fd.new_lines)\n        with io.open(fd.path, mode=\"wt\", newline='', encoding=\"utf-8\") as fobj:")
exp(N, V, "harmless", "the list bound to a local first",
    "    for file_data in list(iter_rewritten(file_patterns, new_vinfo)):", "    all_data = list(iter_rewritten(file_patterns, new_vinfo))\n    for file_data in all_data:")
exp(N, V, "harmless", "`new_content` inlined into the write",
    "        new_content = file_data.line_sep.join(file_data.new_lines)\n        with io.open(file_data.path, mode=\"wt\", newline='', encoding=\"utf-8\") as fobj:\n            fobj.write(new_content)",
    "        with io.open(file_data.path, mode=\"wt\", newline='', encoding=\"utf-8\") as fobj:\n            fobj.write(file_data.line_sep.join(file_data.new_lines))")
exp(N, V, "harmless", "separator and lines bound to locals",
    "        new_content = file_data.line_sep.join(file_data.new_lines)\n",
    "        sep = file_data.line_sep\n        lines = file_data.new_lines\n        new_content = sep.join(lines)\n")

# ---- v2rewrite._patterns_with_change ---------------------------------------------------------------------
N = "patternsWithChange"
T5 = ["Tie_patternsWithChange", "Tie_diff"]
exp(N, V, "break", "`old_str != new_str` -> `==`", "        if old_str != new_str:", "        if old_str == new_str:", ties=T5)
exp(N, V, "break", "`+= 1` -> `+= 2`", "            patterns_with_change += 1", "            patterns_with_change += 2", ties=T5)
exp(N, V, "break", "both renderings from the new record",
    "old_str = v2version.format_version(old_vinfo, pattern.raw_pattern)", "old_str = v2version.format_version(new_vinfo, pattern.raw_pattern)", ties=T5)
exp(N, V, "break", "`raw_pattern` -> `version_pattern` for the new rendering",
    "new_str = v2version.format_version(new_vinfo, pattern.raw_pattern)", "new_str = v2version.format_version(new_vinfo, pattern.version_pattern)", ties=T5)
exp(N, V, "break", "counter starts at 1", "    patterns_with_change = 0\n", "    patterns_with_change = 1\n", ties=T5)
exp(N, V, "harmless", "locals renamed, `x += 1` -> `x = x + 1`",
    "        if old_str != new_str:\n            patterns_with_change += 1", "        if old_str != new_str:\n            patterns_with_change = patterns_with_change + 1", ties=T5)
exp(N, V, "harmless", "test negated, branches exchanged",
    "        if old_str != new_str:\n            patterns_with_change += 1", "        if old_str == new_str:\n            pass\n        else:\n            patterns_with_change += 1", ties=T5)
exp(N, V, "harmless", "the two renderings computed in the other order",
    "        old_str = v2version.format_version(old_vinfo, pattern.raw_pattern)\n        new_str = v2version.format_version(new_vinfo, pattern.raw_pattern)\n",
    "        raw = pattern.raw_pattern\n        old_str = v2version.format_version(old_vinfo, raw)\n        new_str = v2version.format_version(new_vinfo, raw)\n", ties=T5)

# ---- rewrite.iter_path_patterns_items, run to exhaustion (as `sorted(...)` in diff consumes it) -----------
N = "iterPathPatternsItems"
T6 = ["Tie_iterPathPatternsItems", "Tie_diff"]
exp(N, R, "break", "a missing file is skipped instead of raising",
    "            errmsg = f\"File does not exist: '{filepath_str}'\"\n            raise IOError(errmsg)", "            pass", ties=T6)
exp(N, R, "break", "`if exists` -> `if not exists`", "        if filepath_obj.exists():", "        if not filepath_obj.exists():", ties=T6)
exp(N, R, "break", "raises NoPatternMatch instead of IOError", "            raise IOError(errmsg)", "            raise NoPatternMatch(errmsg)", ties=T6)
exp(N, R, "break", "the patterns of the item dropped (`[]`)", "            yield (filepath_obj, patterns)", "            yield (filepath_obj, [])", ties=T6)
exp(N, R, "break", "the item yielded twice", "            yield (filepath_obj, patterns)\n", "            yield (filepath_obj, patterns)\n            yield (filepath_obj, patterns)\n", ties=T6)
exp(N, R, "harmless", "test negated, branches exchanged",
    "        if filepath_obj.exists():\n            yield (filepath_obj, patterns)\n        else:\n            errmsg = f\"File does not exist: '{filepath_str}'\"\n            raise IOError(errmsg)",
    "        if not filepath_obj.exists():\n            errmsg = f\"File does not exist: '{filepath_str}'\"\n            raise IOError(errmsg)\n        else:\n            yield (filepath_obj, patterns)", ties=T6)
exp(N, R, "harmless", "early raise, `yield` after the `if`, local renamed",
    "        filepath_obj = pl.Path(filepath_str)\n        if filepath_obj.exists():\n            yield (filepath_obj, patterns)\n        else:\n            errmsg = f\"File does not exist: '{filepath_str}'\"\n            raise IOError(errmsg)",
    "        p = pl.Path(filepath_str)\n        if not p.exists():\n            raise IOError(f\"File does not exist: '{filepath_str}'\")\n        yield (p, patterns)", ties=T6)
exp(N, R, "harmless", "`IOError` -> `OSError` (the same class)", "            raise IOError(errmsg)", "            raise OSError(errmsg)", ties=T6)

# ---- v2rewrite.diff -------------------------------------------------------------------------------------------
N = "diff"
exp(N, V, "break", "`sorted(...)` dropped (lazy existence check, configuration order)",
    "for file_path, patterns in sorted(rewrite.iter_path_patterns_items(file_patterns)):", "for file_path, patterns in rewrite.iter_path_patterns_items(file_patterns):")
exp(N, V, "break", "`and` -> `or` in the 'nothing changed' test",
    "if len(lines) == 0 and patterns_with_change > 0:", "if len(lines) == 0 or patterns_with_change > 0:")
exp(N, V, "break", "`patterns_with_change > 0` -> `>= 0`",
    "if len(lines) == 0 and patterns_with_change > 0:", "if len(lines) == 0 and patterns_with_change >= 0:")
exp(N, V, "break", "the diff is computed for the OLD version record",
    "            rfd = rfd_from_content(patterns, new_vinfo, content)\n        except", "            rfd = rfd_from_content(patterns, old_vinfo, content)\n        except")
exp(N, V, "break", "a file whose patterns do not match is SKIPPED by the diff path (`raise` -> `continue`)",
    "            errmsg = f\"No patterns matched for file '{file_path}'. \" + \" \".join(ex.args)\n            raise rewrite.NoPatternMatch(errmsg)",
    "            continue")
exp(N, V, "break", "`full_diff +=` -> `full_diff =` (only the last file is shown)",
    "        full_diff += \"\\n\".join(lines) + \"\\n\"", "        full_diff = \"\\n\".join(lines) + \"\\n\"")
exp(N, V, "break", "`.rstrip(\"\\n\")` dropped", "    full_diff = full_diff.rstrip(\"\\n\")\n", "")
exp(N, V, "break", "`_patterns_with_change(new_vinfo, new_vinfo, ...)`",
    "patterns_with_change = _patterns_with_change(old_vinfo, new_vinfo, patterns)", "patterns_with_change = _patterns_with_change(new_vinfo, new_vinfo, patterns)")
exp(N, V, "break", "the 'nothing changed' error removed",
    "        if len(lines) == 0 and patterns_with_change > 0:\n            errmsg = f\"No patterns matched for file '{file_path}'\"\n            raise rewrite.NoPatternMatch(errmsg)\n", "")
exp(N, V, "break", "read without `newline=''`",
    "        with file_path.open(mode=\"rt\", newline='', encoding=\"utf-8\") as fobj:\n            content = fobj.read()\n\n        try:",
    "        with file_path.open(mode=\"rt\", encoding=\"utf-8\") as fobj:\n            content = fobj.read()\n\n        try:")
exp(N, V, "harmless", "local `lines` renamed",
    "        lines = rewrite.diff_lines(rfd)\n\n        patterns_with_change = _patterns_with_change(old_vinfo, new_vinfo, patterns)\n        if len(lines) == 0 and patterns_with_change > 0:\n            errmsg = f\"No patterns matched for file '{file_path}'\"\n            raise rewrite.NoPatternMatch(errmsg)\n\n        full_diff += \"\\n\".join(lines) + \"\\n\"",
    "        dl = rewrite.diff_lines(rfd)\n\n        patterns_with_change = _patterns_with_change(old_vinfo, new_vinfo, patterns)\n        if len(dl) == 0 and patterns_with_change > 0:\n            errmsg = f\"No patterns matched for file '{file_path}'\"\n            raise rewrite.NoPatternMatch(errmsg)\n\n        full_diff += \"\\n\".join(dl) + \"\\n\"")
exp(N, V, "harmless", "conjuncts commuted",
    "if len(lines) == 0 and patterns_with_change > 0:", "if patterns_with_change > 0 and len(lines) == 0:")
exp(N, V, "harmless", "`len(lines) == 0` -> `not lines`, `x > 0` -> `0 < x`",
    "if len(lines) == 0 and patterns_with_change > 0:", "if not lines and 0 < patterns_with_change:")
exp(N, V, "harmless", "handler without the caught object, other message",
    "        except rewrite.NoPatternMatch as ex:\n            # pylint:disable=raise-missing-from  ; we support py2, so not an option\n            errmsg = f\"No patterns matched for file '{file_path}'. \" + \" \".join(ex.args)\n            raise rewrite.NoPatternMatch(errmsg)",
    "        except rewrite.NoPatternMatch:\n            raise rewrite.NoPatternMatch(\"No patterns matched\")")
exp(N, V, "harmless", "path passed to rfd_from_content instead of `_replace`",
    "            rfd = rfd_from_content(patterns, new_vinfo, content)\n        except rewrite.NoPatternMatch as ex:\n            # pylint:disable=raise-missing-from  ; we support py2, so not an option\n            errmsg = f\"No patterns matched for file '{file_path}'. \" + \" \".join(ex.args)\n            raise rewrite.NoPatternMatch(errmsg)\n\n        rfd   = rfd._replace(path=str(file_path))\n",
    "            rfd = rfd_from_content(patterns, new_vinfo, content, str(file_path))\n        except rewrite.NoPatternMatch as ex:\n            errmsg = f\"No patterns matched for file '{file_path}'. \" + \" \".join(ex.args)\n            raise rewrite.NoPatternMatch(errmsg)\n\n")


def run(cmd, **kw):
    return subprocess.run(cmd, stdout=subprocess.PIPE, stderr=subprocess.STDOUT, text=True, **kw)


def write_gen(files):
    for name, content in files.items():
        path = os.path.join(GEN, name)
        old = open(path, encoding="utf-8").read() if os.path.exists(path) else None
        if old != content:
            open(path, "w", encoding="utf-8").write(content)


def main():
    only = set(sys.argv[1:])
    import translate_rewrite
    results = []
    for e in E:
        if only and e["name"] not in only:
            continue
        if os.path.exists(SCRATCH):
            shutil.rmtree(SCRATCH)
        shutil.copytree("/repo/src", os.path.join(SCRATCH, "src"))
        path = os.path.join(SCRATCH, "src", "bumpver", e["file"])
        src = open(path, encoding="utf-8").read()
        for old, new in [(e["old"], e["new"])] + e["also"]:
            if src.count(old) != 1:
                print("!! edit text occurs %d times: %r" % (src.count(old), old))
                return 2
            src = src.replace(old, new)
        open(path, "w", encoding="utf-8").write(src)
        os.environ["VERIF_REPO"] = SCRATCH
        rep = []
        files = translate_rewrite.generate(rep)
        del os.environ["VERIF_REPO"]
        errs = [(x[1], x[2]) for x in rep if x[2] is not None]
        write_gen(files)
        ok = True
        outcome = []
        for tie in e["ties"]:
            b = run(["timeout", "900", "lake", "build", "BumpverVerif.Proofs.%s" % tie], cwd=LEAN)
            if b.returncode == 0:
                outcome.append("%s builds" % tie)
            else:
                ok = False
                first = [ln for ln in b.stdout.splitlines() if "error" in ln][:1]
                outcome.append("%s FAILS: %s" % (tie, (first[0] if first else "rc=%d" % b.returncode)[:100]))
        if e["variant"]:
            run(["timeout", "900", "lake", "build", "BumpverVerif.Gen.F_%s" % e["name"], "BumpverVerif.Proofs.Tie_iterRewritten"], cwd=LEAN)
            t = run(["timeout", "600", "lake", "env", "lean", os.path.join(HERE, e["variant"])], cwd=LEAN)
            good = t.returncode == 0 and "error" not in t.stdout
            outcome.append("variant proof %s %s" % (e["variant"], "COMPILES" if good else "fails: " + t.stdout[:200]))
            ok = ok or not good
        outcome = "; ".join(outcome)
        if errs:
            outcome = "UNTRANSLATABLE %s (%s); %s" % (errs[0][0], errs[0][1].reason[:90], outcome[:70])
        verdict = "as intended" if ok == (e["kind"] == "harmless") else "** NOT as intended **"
        results.append((e, outcome, verdict))
        print("%-16s %-9s %-86s -> %s [%s]" % (e["name"], e["kind"], e["label"], outcome, verdict), flush=True)
    # restore
    shutil.rmtree(SCRATCH, ignore_errors=True)
    write_gen(translate_rewrite.generate())
    mods = sorted({"BumpverVerif.Proofs.%s" % t for e, _, _ in results for t in e["ties"]})
    if mods:
        b = run(["timeout", "1800", "lake", "build"] + mods, cwd=LEAN)
        print("restore build:", "ok" if b.returncode == 0 else b.stdout[-2000:])
    bad = [r for r in results if r[2] != "as intended"]
    print("%d experiments, %d not as intended" % (len(results), len(bad)))
    return 0


if __name__ == "__main__":
    sys.exit(main())
