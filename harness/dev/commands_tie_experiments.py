#!/venv/bin/python
"""Robustness demonstration for harness/translate_commands.py + the command ties
(Proofs/Tie_cmdNormalizeSetVersion, Tie_cmdIsValidVersion, Tie_cmdUpdateCfgFromVcs, Tie_cmdTest, Tie_cmdTestAny,
Tie_cmdUpdate).

For every experiment: copy /repo/src to a scratch tree, apply ONE textual edit to cli.py, run the command
translator with VERIF_REPO pointing at the scratch tree, write the regenerated Gen/F_cmd*.lean and rebuild the
tie modules.

  kind 'break'   : a plausible semantic one-token / one-statement edit -> a tie must NO LONGER build (or the
                   function becomes UNTRANSLATABLE)
  kind 'harmless': a behaviour-preserving rewrite                      -> every tie must still build

Afterwards the generated files are restored from the unmodified /repo and the scratch tree is removed.
Usage: /venv/bin/python harness/dev/commands_tie_experiments.py [group ...]
       (groups: normalize gate start test update show)
Output table: harness/dev/commands_tie_experiments.out.txt
"""
import os
import re
import shutil
import subprocess
import sys
import time

HERE = os.path.dirname(os.path.abspath(__file__))
HARNESS = os.path.dirname(HERE)
VERIF = os.path.dirname(HARNESS)
LEAN = os.path.join(VERIF, "lean")
GEN = os.path.join(LEAN, "BumpverVerif", "Gen")
SCRATCH = os.path.join(VERIF, "scratch_repo_commands")
sys.path.insert(0, HARNESS)

TIES = ["BumpverVerif.Proofs.Tie_cmdNormalizeSetVersion", "BumpverVerif.Proofs.Tie_cmdIsValidVersion",
        "BumpverVerif.Proofs.Tie_cmdUpdateCfgFromVcs", "BumpverVerif.Proofs.Tie_cmdTest", "BumpverVerif.Proofs.Tie_cmdTestAny",
        "BumpverVerif.Proofs.Tie_cmdUpdate", "BumpverVerif.Proofs.Tie_cmdShow"]

E = []
C = "cli.py"


def exp(group, func, kind, label, old, new, also=()):
    E.append(dict(group=group, func=func, file=C, kind=kind, label=label, edits=[(old, new)] + list(also)))


# ---------------------------------------------------------------------------------------------------
# _normalize_set_version
# ---------------------------------------------------------------------------------------------------
N = "cli._normalize_set_version"
NORM_HEAD = "def _normalize_set_version(raw_pattern: str, set_version: str) -> str:\n"
NORM_BODY = ("    is_new_pattern = \"{\" not in raw_pattern and \"}\" not in raw_pattern\n"
             "    try:\n"
             "        if is_new_pattern:\n"
             "            v2_vinfo = v2version.parse_version_info(set_version, raw_pattern)\n"
             "            return v2version.format_version(v2_vinfo, raw_pattern)\n"
             "        else:\n"
             "            v1_vinfo = v1version.parse_version_info(set_version, raw_pattern)\n"
             "            return v1version.format_version(v1_vinfo, raw_pattern)\n"
             "    except version.PatternError:\n"
             "        # reported by _is_valid_version\n"
             "        return set_version\n")
exp("normalize", N, "break", "`and` -> `or` in the pattern-style test",
    NORM_BODY, NORM_BODY.replace("not in raw_pattern and", "not in raw_pattern or"))
exp("normalize", N, "break", "engines exchanged (`if not is_new_pattern`)",
    NORM_BODY, NORM_BODY.replace("        if is_new_pattern:", "        if not is_new_pattern:"))
exp("normalize", N, "break", "the handler returns the pattern instead of the text",
    NORM_BODY, NORM_BODY.replace("        return set_version\n", "        return raw_pattern\n"))
exp("normalize", N, "break", "no normalisation: the text is returned after parsing (the defect D20 again)",
    NORM_BODY, NORM_BODY.replace("            return v2version.format_version(v2_vinfo, raw_pattern)\n", "            return set_version\n"))
exp("normalize", N, "break", "arguments of parse_version_info exchanged",
    NORM_BODY, NORM_BODY.replace("v2version.parse_version_info(set_version, raw_pattern)", "v2version.parse_version_info(raw_pattern, set_version)"))
exp("normalize", N, "break", "handler for another class (`except ValueError`)",
    NORM_BODY, NORM_BODY.replace("    except version.PatternError:", "    except ValueError:"))
exp("normalize", N, "break", "the legacy branch formats with the new-style formatter's pattern argument dropped to the text",
    NORM_BODY, NORM_BODY.replace("v1version.format_version(v1_vinfo, raw_pattern)", "v1version.format_version(v1_vinfo, set_version)"))
exp("normalize", N, "harmless", "locals renamed",
    NORM_BODY, NORM_BODY.replace("v2_vinfo", "info2").replace("v1_vinfo", "info1").replace("is_new_pattern", "new_style"))
exp("normalize", N, "harmless", "if/else flipped with a negated test",
    NORM_BODY, NORM_BODY.replace(
        "        if is_new_pattern:\n"
        "            v2_vinfo = v2version.parse_version_info(set_version, raw_pattern)\n"
        "            return v2version.format_version(v2_vinfo, raw_pattern)\n"
        "        else:\n"
        "            v1_vinfo = v1version.parse_version_info(set_version, raw_pattern)\n"
        "            return v1version.format_version(v1_vinfo, raw_pattern)\n",
        "        if not is_new_pattern:\n"
        "            v1_vinfo = v1version.parse_version_info(set_version, raw_pattern)\n"
        "            return v1version.format_version(v1_vinfo, raw_pattern)\n"
        "        else:\n"
        "            v2_vinfo = v2version.parse_version_info(set_version, raw_pattern)\n"
        "            return v2version.format_version(v2_vinfo, raw_pattern)\n"))
exp("normalize", N, "harmless", "conjuncts commuted; result through a local variable",
    NORM_BODY, NORM_BODY.replace("\"{\" not in raw_pattern and \"}\" not in raw_pattern", "\"}\" not in raw_pattern and \"{\" not in raw_pattern")
    .replace("            return v2version.format_version(v2_vinfo, raw_pattern)\n",
             "            rendered = v2version.format_version(v2_vinfo, raw_pattern)\n            return rendered\n"))

# ---------------------------------------------------------------------------------------------------
# _is_valid_version (as a command: with the call of vcs.get_tags)
# ---------------------------------------------------------------------------------------------------
G = "cli._is_valid_version"
exp("gate", G, "break", "the uniqueness listing fetches (`fetch=True`)",
    "        all_tags     = vcs.get_tags(fetch=False, scope=config.TagScope.GLOBAL)",
    "        all_tags     = vcs.get_tags(fetch=True, scope=config.TagScope.GLOBAL)")
exp("gate", G, "break", "the uniqueness listing only looks at the branch (`scope=BRANCH`)",
    "        all_tags     = vcs.get_tags(fetch=False, scope=config.TagScope.GLOBAL)",
    "        all_tags     = vcs.get_tags(fetch=False, scope=config.TagScope.BRANCH)")
exp("gate", G, "break", "`<=` -> `<` (an equal version passes)",
    "    if version.parse_version(new_version) <= version.parse_version(old_version):",
    "    if version.parse_version(new_version) < version.parse_version(old_version):")
exp("gate", G, "break", "tags listed BEFORE the order test (a VCS call also for rejected versions)",
    "    if version.parse_version(new_version) <= version.parse_version(old_version):",
    "    if unique:\n        vcs.get_tags(fetch=False, scope=config.TagScope.GLOBAL)\n"
    "    if version.parse_version(new_version) <= version.parse_version(old_version):")
exp("gate", G, "break", "the PatternError handler answers True",
    "        logger.error(f\"Invalid version '{new_version}' for pattern '{raw_pattern}'\")\n        return False",
    "        logger.error(f\"Invalid version '{new_version}' for pattern '{raw_pattern}'\")\n        return True")
exp("gate", G, "break", "membership test negated (`not in`)",
    "        if new_version in version_tags:", "        if new_version not in version_tags:")
exp("gate", G, "break", "uniqueness checked whatever `unique` says",
    "    if unique:\n        all_tags", "    if True:\n        all_tags")
exp("gate", G, "harmless", "locals renamed, positional keyword order changed",
    "        all_tags     = vcs.get_tags(fetch=False, scope=config.TagScope.GLOBAL)\n"
    "        version_tags = _parse_version_tags(all_tags, raw_pattern, is_new_pattern)\n\n"
    "        if new_version in version_tags:",
    "        listing = vcs.get_tags(scope=config.TagScope.GLOBAL, fetch=False)\n"
    "        valid = _parse_version_tags(listing, raw_pattern, is_new_pattern)\n\n"
    "        if new_version in valid:")
exp("gate", G, "harmless", "early `return True` when not unique",
    "    if unique:\n        all_tags     = vcs.get_tags(fetch=False, scope=config.TagScope.GLOBAL)\n"
    "        version_tags = _parse_version_tags(all_tags, raw_pattern, is_new_pattern)\n\n"
    "        if new_version in version_tags:\n"
    "            logger.error(\"Invariant violated: New version must be unique accross all branches\")\n"
    "            return False\n\n    return True\n",
    "    if not unique:\n        return True\n\n"
    "    all_tags     = vcs.get_tags(fetch=False, scope=config.TagScope.GLOBAL)\n"
    "    version_tags = _parse_version_tags(all_tags, raw_pattern, is_new_pattern)\n\n"
    "    if new_version in version_tags:\n"
    "        logger.error(\"Invariant violated: New version must be unique accross all branches\")\n"
    "        return False\n\n    return True\n")
exp("gate", G, "harmless", "the order test as `not (new > old)`",
    "    if version.parse_version(new_version) <= version.parse_version(old_version):",
    "    if not version.parse_version(new_version) > version.parse_version(old_version):")

# ---------------------------------------------------------------------------------------------------
# get_latest_vcs_version_tag / _update_cfg_from_vcs (as commands)
# ---------------------------------------------------------------------------------------------------
S1 = "cli.get_latest_vcs_version_tag"
S2 = "cli._update_cfg_from_vcs"
exp("start", S1, "break", "never fetches (`fetch=False`)",
    "    all_tags     = vcs.get_tags(fetch=fetch, scope=cfg.tag_scope)", "    all_tags     = vcs.get_tags(fetch=False, scope=cfg.tag_scope)")
exp("start", S1, "break", "always lists all branches (`scope=GLOBAL`)",
    "    all_tags     = vcs.get_tags(fetch=fetch, scope=cfg.tag_scope)",
    "    all_tags     = vcs.get_tags(fetch=fetch, scope=config.TagScope.GLOBAL)")
exp("start", S1, "break", "ascending sort (`reverse=False`): the OLDEST tag",
    "        version_tags.sort(key=version.parse_version, reverse=True)", "        version_tags.sort(key=version.parse_version, reverse=False)")
exp("start", S1, "break", "last instead of first element",
    "        return version_tags[0]", "        return version_tags[-1]")
exp("start", S1, "break", "the pattern test uses the wrong engine (`not cfg.is_new_pattern`)",
    "    version_tags = _parse_version_tags(all_tags, cfg.version_pattern, cfg.is_new_pattern)",
    "    version_tags = _parse_version_tags(all_tags, cfg.version_pattern, not cfg.is_new_pattern)")
exp("start", S1, "harmless", "locals renamed",
    "    all_tags     = vcs.get_tags(fetch=fetch, scope=cfg.tag_scope)\n"
    "    version_tags = _parse_version_tags(all_tags, cfg.version_pattern, cfg.is_new_pattern)\n",
    "    listing = vcs.get_tags(fetch=fetch, scope=cfg.tag_scope)\n"
    "    version_tags = _parse_version_tags(listing, cfg.version_pattern, cfg.is_new_pattern)\n")
exp("start", S1, "harmless", "`if version_tags:` flipped into an early `return None`",
    "    if version_tags:\n        version_tags.sort(key=version.parse_version, reverse=True)\n"
    "        _debug_tags = \", \".join(version_tags[:3])\n"
    "        logger.debug(f\"found tags: {_debug_tags} ... ({len(version_tags)} in total)\")\n"
    "        return version_tags[0]\n    else:\n        return None\n",
    "    if not version_tags:\n        return None\n\n    version_tags.sort(key=version.parse_version, reverse=True)\n"
    "    return version_tags[0]\n")
exp("start", S1, "harmless", "the result through a local variable; keyword arguments reordered",
    "        return version_tags[0]\n", "        latest = version_tags[0]\n        return latest\n",
    also=[("    all_tags     = vcs.get_tags(fetch=fetch, scope=cfg.tag_scope)", "    all_tags     = vcs.get_tags(scope=cfg.tag_scope, fetch=fetch)")])
exp("start", S2, "break", "`<=` -> `<` in the default scope",
    "        if version.parse_version(latest_version_tag) <= version.parse_version(cfg.current_version):",
    "        if version.parse_version(latest_version_tag) < version.parse_version(cfg.current_version):")
exp("start", S2, "break", "the config-wins rule applied in the GLOBAL scope instead of DEFAULT",
    "    if cfg.tag_scope == config.TagScope.DEFAULT:\n        logger.info(f\"Working dir",
    "    if cfg.tag_scope == config.TagScope.GLOBAL:\n        logger.info(f\"Working dir")
exp("start", S2, "break", "pep440_version not updated",
    "        current_version=latest_version_tag,\n        pep440_version=latest_version_pep440,",
    "        current_version=latest_version_tag,\n        pep440_version=cfg.pep440_version,")
exp("start", S2, "break", "no tag: the config is returned with an emptied version",
    "        logger.debug(\"no vcs tags found\")\n        return cfg",
    "        logger.debug(\"no vcs tags found\")\n        return cfg._replace(current_version=\"\")")
exp("start", S2, "harmless", "the two nested tests of the default scope as one conjunction",
    "    if cfg.tag_scope == config.TagScope.DEFAULT:\n        logger.info(f\"Working dir version        : {cfg.current_version}\")\n"
    "        if version.parse_version(latest_version_tag) <= version.parse_version(cfg.current_version):\n"
    "            # current_version already newer/up-to-date\n            return cfg\n",
    "    if cfg.tag_scope == config.TagScope.DEFAULT and version.parse_version(latest_version_tag) <= version.parse_version(cfg.current_version):\n"
    "        return cfg\n")
exp("start", S2, "harmless", "local renamed, the debug message dropped",
    "    if latest_version_tag is None:\n        logger.debug(\"no vcs tags found\")\n        return cfg\n\n"
    "    latest_version_pep440 = version.to_pep440(latest_version_tag)\n",
    "    if latest_version_tag is None:\n        return cfg\n\n"
    "    pep = version.to_pep440(latest_version_tag)\n",
    also=[("        pep440_version=latest_version_pep440,", "        pep440_version=pep,")])
exp("start", S2, "harmless", "the callee called with a keyword argument",
    "    latest_version_tag = get_latest_vcs_version_tag(cfg, fetch)\n\n    if latest_version_tag is None:",
    "    latest_version_tag = get_latest_vcs_version_tag(cfg, fetch=fetch)\n\n    if latest_version_tag is None:")

# ---------------------------------------------------------------------------------------------------
# test
# ---------------------------------------------------------------------------------------------------
T = "cli.test"
TEST_CAND = ("    if set_version is None:\n"
             "        new_version = incr_dispatch(\n"
             "            old_version,\n"
             "            raw_pattern=raw_pattern,\n"
             "            major=major,\n"
             "            minor=minor,\n"
             "            patch=patch,\n"
             "            tag=tag,\n"
             "            tag_num=tag_num,\n"
             "            pin_increments=pin_increments,\n"
             "            pin_date=pin_date,\n"
             "            maybe_date=maybe_date,\n"
             "        )\n"
             "    else:\n"
             "        new_version = _normalize_set_version(raw_pattern, set_version)\n\n"
             "    if new_version is None:\n"
             "        _log_no_change('test', raw_pattern)\n")
exp("test", T, "break", "`_validate_flags` dropped",
    "    _validate_flags(raw_pattern, major, minor, patch)\n    maybe_date = _validate_date(date, pin_date)\n\n    if set_version is None:\n        new_version = incr_dispatch(\n            old_version,\n            raw_pattern=raw_pattern,",
    "    maybe_date = _validate_date(date, pin_date)\n\n    if set_version is None:\n        new_version = incr_dispatch(\n            old_version,\n            raw_pattern=raw_pattern,")
exp("test", T, "break", "`set_version is None` -> `is not None` (the option is ignored exactly when given)",
    TEST_CAND, TEST_CAND.replace("    if set_version is None:\n", "    if set_version is not None:\n")
    .replace("_normalize_set_version(raw_pattern, set_version)", "_normalize_set_version(raw_pattern, old_version)"))
exp("test", T, "break", "--set-version used without normalisation",
    TEST_CAND, TEST_CAND.replace("        new_version = _normalize_set_version(raw_pattern, set_version)\n", "        new_version = set_version\n"))
exp("test", T, "break", "gate arguments exchanged (old, new)",
    "    if not _is_valid_version(raw_pattern, old_version, new_version):\n        if set_version:\n            logger.error(f\"Invalid argument --set-version='{set_version}'\")\n\n        sys.exit(1)\n\n    pep440_version",
    "    if not _is_valid_version(raw_pattern, new_version, old_version):\n        if set_version:\n            logger.error(f\"Invalid argument --set-version='{set_version}'\")\n\n        sys.exit(1)\n\n    pep440_version")
exp("test", T, "break", "gate with the uniqueness check (`unique=True`: asks the VCS)",
    "    if not _is_valid_version(raw_pattern, old_version, new_version):\n        if set_version:\n            logger.error(f\"Invalid argument --set-version='{set_version}'\")\n\n        sys.exit(1)\n\n    pep440_version",
    "    if not _is_valid_version(raw_pattern, old_version, new_version, unique=True):\n        if set_version:\n            logger.error(f\"Invalid argument --set-version='{set_version}'\")\n\n        sys.exit(1)\n\n    pep440_version")
exp("test", T, "break", "gate verdict negated",
    "    if not _is_valid_version(raw_pattern, old_version, new_version):\n        if set_version:\n            logger.error(f\"Invalid argument --set-version='{set_version}'\")\n\n        sys.exit(1)\n\n    pep440_version",
    "    if _is_valid_version(raw_pattern, old_version, new_version):\n        if set_version:\n            logger.error(f\"Invalid argument --set-version='{set_version}'\")\n\n        sys.exit(1)\n\n    pep440_version")
exp("test", T, "break", "the PEP 440 line shown when EQUAL (`!=` -> `==`)",
    "    if new_version != pep440_version:\n        click.echo(f\"PEP440     : {pep440_version}\")",
    "    if new_version == pep440_version:\n        click.echo(f\"PEP440     : {pep440_version}\")")
exp("test", T, "break", "the old version is announced",
    "    click.echo(f\"New Version: {new_version}\")", "    click.echo(f\"New Version: {old_version}\")")
exp("test", T, "break", "no new version: exit code 0",
    TEST_CAND + "        sys.exit(1)\n", TEST_CAND + "        sys.exit(0)\n")
exp("test", T, "break", "incr_dispatch: `minor=patch`",
    TEST_CAND, TEST_CAND.replace("            minor=minor,\n", "            minor=patch,\n"))
exp("test", T, "break", "release tag validated AFTER the announcement",
    "    _validate_release_tag(tag)\n\n    raw_pattern = pattern  # use internal naming convention\n",
    "    raw_pattern = pattern  # use internal naming convention\n",
    also=[("    if new_version != pep440_version:\n        click.echo(f\"PEP440     : {pep440_version}\")\n",
           "    if new_version != pep440_version:\n        click.echo(f\"PEP440     : {pep440_version}\")\n    _validate_release_tag(tag)\n")])
exp("test", T, "break", "the `new_version is None` test dropped (an Optional reaches the gate: leaves the subset)",
    TEST_CAND + "        sys.exit(1)\n", TEST_CAND.replace("    if new_version is None:\n        _log_no_change('test', raw_pattern)\n", ""))
exp("test", T, "harmless", "locals renamed, pep440 inlined",
    "    pep440_version = version.to_pep440(new_version)\n\n    click.echo(f\"New Version: {new_version}\")\n"
    "    if new_version != pep440_version:\n        click.echo(f\"PEP440     : {pep440_version}\")",
    "    pep = version.to_pep440(new_version)\n\n    click.echo(f\"New Version: {new_version}\")\n"
    "    if new_version != pep:\n        click.echo(f\"PEP440     : {pep}\")")
exp("test", T, "harmless", "if/else of the candidate flipped with a negated test",
    TEST_CAND,
    "    if set_version is not None:\n"
    "        new_version = _normalize_set_version(raw_pattern, set_version)\n"
    "    else:\n"
    "        new_version = incr_dispatch(\n"
    "            old_version,\n            raw_pattern=raw_pattern,\n            major=major,\n            minor=minor,\n"
    "            patch=patch,\n            tag=tag,\n            tag_num=tag_num,\n            pin_increments=pin_increments,\n"
    "            pin_date=pin_date,\n            maybe_date=maybe_date,\n        )\n\n"
    "    if new_version is None:\n        _log_no_change('test', raw_pattern)\n")
exp("test", T, "harmless", "the two independent validations in the other order; gate verdict in a local",
    "    _validate_release_tag(tag)\n\n    raw_pattern = pattern  # use internal naming convention\n\n    _validate_flags(raw_pattern, major, minor, patch)\n",
    "    raw_pattern = pattern  # use internal naming convention\n\n    _validate_flags(raw_pattern, major, minor, patch)\n    _validate_release_tag(tag)\n",
    also=[("    if not _is_valid_version(raw_pattern, old_version, new_version):\n        if set_version:\n            logger.error(f\"Invalid argument --set-version='{set_version}'\")\n\n        sys.exit(1)\n\n    pep440_version",
           "    accepted = _is_valid_version(raw_pattern, old_version, new_version)\n    if not accepted:\n        sys.exit(1)\n\n    pep440_version")])

# ---------------------------------------------------------------------------------------------------
# update
# ---------------------------------------------------------------------------------------------------
U = "cli.update"
PARSE_OPTS = ("    try:\n"
              "        cfg = _parse_vcs_options(cfg, commit, tag_commit, push, tag_scope, pre_commit_hook, post_commit_hook)\n"
              "    except ValueError as ex:\n"
              "        logger.warning(f\"Invalid argument: {ex}\")\n"
              "        sys.exit(1)\n\n")
FROM_VCS = "    if not ignore_vcs_tag:\n        cfg = _update_cfg_from_vcs(cfg, fetch)\n\n"
FROM_VCS_U = FROM_VCS + "    old_version = cfg.current_version\n"     # unique: `show` has the same two lines
OLD_VER = "    old_version = cfg.current_version\n"
UNIQ = "    uniqueness_check = cfg.tag_scope == config.TagScope.BRANCH or set_version is not None\n"
DRY_RET = "    if dry:\n        return\n\n"
TRY_UPD = "    _try_update(cfg, new_version, try_commit_message, try_tag_message, allow_dirty)\n"
UPD_GATE = ("    if not _is_valid_version(cfg.version_pattern, old_version, new_version, unique=uniqueness_check):\n"
            "        if set_version:\n"
            "            logger.error(f\"Invalid argument --set-version='{set_version}'\")\n"
            "        sys.exit(1)\n")

exp("update", U, "break", "reordered: tags looked up BEFORE the options are merged (the scope of --tag-scope is ignored, contradictions rejected late)",
    PARSE_OPTS + FROM_VCS, FROM_VCS + PARSE_OPTS)
exp("update", U, "break", "`if dry: return` dropped", DRY_RET + TRY_UPD, TRY_UPD)
exp("update", U, "break", "`uniqueness_check` computed from the CONFIGURED scope, before the CLI override",
    PARSE_OPTS, UNIQ + "\n" + PARSE_OPTS, also=[(UNIQ + "\n" + UPD_GATE, UPD_GATE)])
exp("update", U, "break", "`_update_cfg_from_vcs` gated wrongly (`if ignore_vcs_tag`)",
    FROM_VCS_U, "    if ignore_vcs_tag:\n        cfg = _update_cfg_from_vcs(cfg, fetch)\n\n" + OLD_VER)
exp("update", U, "break", "`_update_cfg_from_vcs` also gated by --fetch",
    FROM_VCS_U, "    if not ignore_vcs_tag and fetch:\n        cfg = _update_cfg_from_vcs(cfg, fetch)\n\n" + OLD_VER)
exp("update", U, "break", "`_update_cfg_from_vcs(cfg, False)`: never fetches",
    FROM_VCS_U, "    if not ignore_vcs_tag:\n        cfg = _update_cfg_from_vcs(cfg, False)\n\n" + OLD_VER)
exp("update", U, "break", "`or` -> `and` in uniqueness_check",
    UNIQ, UNIQ.replace(" or set_version", " and set_version"))
exp("update", U, "break", "uniqueness_check for the GLOBAL scope instead of BRANCH",
    UNIQ, UNIQ.replace("TagScope.BRANCH", "TagScope.GLOBAL"))
exp("update", U, "break", "uniqueness_check without the --set-version disjunct",
    UNIQ, "    uniqueness_check = cfg.tag_scope == config.TagScope.BRANCH\n")
exp("update", U, "break", "stale old version: read BEFORE the tag lookup",
    FROM_VCS + OLD_VER, OLD_VER + FROM_VCS)
exp("update", U, "break", "diff shown under `dry and verbose >= 2`",
    "    if dry or verbose >= 2:\n", "    if dry and verbose >= 2:\n")
exp("update", U, "break", "the diff is computed for the OLD version",
    "        _print_diff(cfg, new_version)\n\n    if commit_message is None:", "        _print_diff(cfg, old_version)\n\n    if commit_message is None:")
exp("update", U, "break", "commit and tag message exchanged in `_try_update`",
    TRY_UPD, "    _try_update(cfg, new_version, try_tag_message, try_commit_message, allow_dirty)\n")
exp("update", U, "break", "`allow_dirty` not handed on",
    TRY_UPD, "    _try_update(cfg, new_version, try_commit_message, try_tag_message)\n")
exp("update", U, "break", "no new version: exit code 0",
    "        _log_no_change('update', cfg.version_pattern)\n        sys.exit(1)", "        _log_no_change('update', cfg.version_pattern)\n        sys.exit(0)")
exp("update", U, "break", "rejected version: the exit is dropped (the update goes on)",
    UPD_GATE, UPD_GATE.replace("        sys.exit(1)\n", "        pass\n"))
exp("update", U, "break", "message kwargs: `old_version` bound to the new version",
    "        'old_version'       : old_version,", "        'old_version'       : new_version,")
exp("update", U, "break", "the tag message is rendered from the COMMIT template",
    "    tag_msg_template = cfg.tag_message if tag_message is None else _sub_msg_template(tag_message)",
    "    tag_msg_template = cfg.commit_message if tag_message is None else _sub_msg_template(tag_message)")
exp("update", U, "break", "contradicting options: exit code 0",
    "        logger.warning(f\"Invalid argument: {ex}\")\n        sys.exit(1)", "        logger.warning(f\"Invalid argument: {ex}\")\n        sys.exit(0)")
exp("update", U, "break", "--set-version used without normalisation",
    "        new_version = _normalize_set_version(cfg.version_pattern, set_version)\n\n    if new_version is None:\n        _log_no_change('update'",
    "        new_version = set_version\n\n    if new_version is None:\n        _log_no_change('update'")
exp("update", U, "break", "the gate compares against the configured version of the file (`_.current_version` read before the lookup is fine, here: gate gets (new, old))",
    "    if not _is_valid_version(cfg.version_pattern, old_version, new_version, unique=uniqueness_check):",
    "    if not _is_valid_version(cfg.version_pattern, new_version, old_version, unique=uniqueness_check):")
exp("update", U, "break", "options merged AFTER the whole version decision (contradictions rejected after the VCS was asked)",
    PARSE_OPTS, "", also=[("    logger.info(f\"Old Version: {old_version}\")\n", PARSE_OPTS + "    logger.info(f\"Old Version: {old_version}\")\n")])
exp("update", U, "break", "date validated after the config was loaded and the VCS asked",
    "    maybe_date = _validate_date(date, pin_date)\n\n    _, cfg = config.init(project_path=\".\")",
    "    _, cfg = config.init(project_path=\".\")",
    also=[(OLD_VER, "    maybe_date = _validate_date(date, pin_date)\n" + OLD_VER)])
exp("update", U, "break", "the `cfg is None` test dropped (an Optional config reaches `_parse_vcs_options`: leaves the subset)",
    "    if cfg is None:\n        logger.error(\"Could not parse configuration.\")\n        sys.exit(1)\n\n    try:\n        cfg = _parse_vcs_options",
    "    try:\n        cfg = _parse_vcs_options")
exp("update", U, "harmless", "locals renamed",
    "    uniqueness_check = cfg.tag_scope == config.TagScope.BRANCH or set_version is not None\n\n"
    "    if not _is_valid_version(cfg.version_pattern, old_version, new_version, unique=uniqueness_check):",
    "    must_be_unique = cfg.tag_scope == config.TagScope.BRANCH or set_version is not None\n\n"
    "    if not _is_valid_version(cfg.version_pattern, old_version, new_version, unique=must_be_unique):")
exp("update", U, "harmless", "disjuncts of uniqueness_check commuted",
    UNIQ, "    uniqueness_check = set_version is not None or cfg.tag_scope == config.TagScope.BRANCH\n")
exp("update", U, "harmless", "`if dry: return` as `if not dry: _try_update(...)`",
    DRY_RET + TRY_UPD, "    if not dry:\n        _try_update(cfg, new_version, try_commit_message, try_tag_message, allow_dirty)\n")
exp("update", U, "harmless", "conditional expression <-> if/else for the two templates",
    "    if commit_message is None:\n        commit_msg_template = cfg.commit_message\n    else:\n"
    "        commit_msg_template = _sub_msg_template(commit_message)\n\n"
    "    tag_msg_template = cfg.tag_message if tag_message is None else _sub_msg_template(tag_message)\n",
    "    commit_msg_template = cfg.commit_message if commit_message is None else _sub_msg_template(commit_message)\n\n"
    "    if tag_message is not None:\n        tag_msg_template = _sub_msg_template(tag_message)\n    else:\n"
    "        tag_msg_template = cfg.tag_message\n")
exp("update", U, "harmless", "`if ignore_vcs_tag: pass else: …`; keyword arguments for `_try_update`",
    FROM_VCS_U, "    if ignore_vcs_tag:\n        pass\n    else:\n        cfg = _update_cfg_from_vcs(cfg, fetch=fetch)\n\n" + OLD_VER,
    also=[(TRY_UPD, "    _try_update(cfg, new_version, try_commit_message, try_tag_message, allow_dirty=allow_dirty)\n")])
exp("update", U, "harmless", "the messages are rendered before the diff is shown (independent steps)",
    "    if dry or verbose >= 2:\n        _print_diff(cfg, new_version)\n\n", "",
    also=[(DRY_RET, "    if dry or verbose >= 2:\n        _print_diff(cfg, new_version)\n\n" + DRY_RET)])


# ---------------------------------------------------------------------------------------------------
# whole-function rewrites taken from an independent behaviour-preserving refactoring of cli.py
# (`not (a or b)` for `not a and not b`, `is_old_pattern` with exchanged branches, early returns instead of
# if/else, locals for sub-expressions, if/else for a conditional expression, a searching loop for `any(...)`)
# ---------------------------------------------------------------------------------------------------
def _swap(text, pairs):
    for a, b in pairs:
        assert text.count(a) == 1, a
        text = text.replace(a, b)
    return text


NORM_H = _swap(NORM_BODY, [
    ("    is_new_pattern = \"{\" not in raw_pattern and \"}\" not in raw_pattern\n",
     "    is_old_pattern = \"{\" in raw_pattern or \"}\" in raw_pattern\n"),
    ("        if is_new_pattern:\n"
     "            v2_vinfo = v2version.parse_version_info(set_version, raw_pattern)\n"
     "            return v2version.format_version(v2_vinfo, raw_pattern)\n"
     "        else:\n"
     "            v1_vinfo = v1version.parse_version_info(set_version, raw_pattern)\n"
     "            return v1version.format_version(v1_vinfo, raw_pattern)\n",
     "        if is_old_pattern:\n"
     "            v1_vinfo = v1version.parse_version_info(set_version, raw_pattern)\n"
     "            return v1version.format_version(v1_vinfo, raw_pattern)\n\n"
     "        v2_vinfo = v2version.parse_version_info(set_version, raw_pattern)\n"
     "        return v2version.format_version(v2_vinfo, raw_pattern)\n")])
exp("normalize", N, "harmless", "`is_old_pattern = a or b` with exchanged branches, early return instead of else", NORM_BODY, NORM_H)

GATE_O = ("    is_new_pattern = \"{\" not in raw_pattern and \"}\" not in raw_pattern\n\n"
          "    try:\n        if is_new_pattern:\n            v2version.parse_version_info(new_version, raw_pattern)\n"
          "        else:\n            v1version.parse_version_info(new_version, raw_pattern)\n"
          "    except version.PatternError:\n")
GATE_H = ("    is_new_pattern = not (\"{\" in raw_pattern or \"}\" in raw_pattern)\n\n"
          "    try:\n        if not is_new_pattern:\n            v1version.parse_version_info(new_version, raw_pattern)\n"
          "        else:\n            v2version.parse_version_info(new_version, raw_pattern)\n"
          "    except version.PatternError:\n")
exp("gate", G, "harmless", "`not (a or b)`, branches exchanged, parsed versions in locals, early `return True`",
    GATE_O, GATE_H,
    also=[("    if version.parse_version(new_version) <= version.parse_version(old_version):",
           "    new_parsed = version.parse_version(new_version)\n    old_parsed = version.parse_version(old_version)\n"
           "    if new_parsed <= old_parsed:"),
          ("    if unique:\n        all_tags     = vcs.get_tags(fetch=False, scope=config.TagScope.GLOBAL)\n"
           "        version_tags = _parse_version_tags(all_tags, raw_pattern, is_new_pattern)\n\n"
           "        if new_version in version_tags:\n"
           "            logger.error(\"Invariant violated: New version must be unique accross all branches\")\n"
           "            return False\n\n    return True\n",
           "    if not unique:\n        return True\n\n"
           "    all_tags     = vcs.get_tags(fetch=False, scope=config.TagScope.GLOBAL)\n"
           "    version_tags = _parse_version_tags(all_tags, raw_pattern, is_new_pattern)\n\n"
           "    if new_version in version_tags:\n"
           "        logger.error(\"Invariant violated: New version must be unique accross all branches\")\n"
           "        return False\n\n    return True\n")])
exp("start", S2, "harmless", "if/else for the conditional expression, parsed versions in locals",
    "    scope_str = f\"({cfg.tag_scope.value})\" if not cfg.tag_scope == config.TagScope.DEFAULT else \"\"\n",
    "    if cfg.tag_scope == config.TagScope.DEFAULT:\n        scope_str = \"\"\n    else:\n        scope_str = f\"({cfg.tag_scope.value})\"\n",
    also=[("        if version.parse_version(latest_version_tag) <= version.parse_version(cfg.current_version):",
           "        latest_parsed  = version.parse_version(latest_version_tag)\n"
           "        current_parsed = version.parse_version(cfg.current_version)\n"
           "        if latest_parsed <= current_parsed:")])
# a CALLEE translated by translate_cli.py (regenerated too for this experiment): the commands' ties use it under -v
E.append(dict(group="update", func="cli.incr_dispatch (callee)", file=C, kind="harmless", with_cli=True,
              label="`any(...)` as a searching loop with `break`; `if not has_v1_part: return v2…` then the legacy call",
              edits=[("    has_v1_part = any(\"{\" + part + \"}\" in raw_pattern for part in v1_parts)\n",
                      "    has_v1_part = False\n    for part in v1_parts:\n        if \"{\" + part + \"}\" in raw_pattern:\n"
                      "            has_v1_part = True\n            break\n")]))


# ---------------------------------------------------------------------------------------------------
# show
# ---------------------------------------------------------------------------------------------------
SH = "cli.show"
SHOW_CFG = ("    if cfg is None:\n"
            "        logger.error(\"Could not parse configuration. Perhaps try 'bumpver init'.\")\n"
            "        sys.exit(1)\n\n")
SHOW_VCS = "    if not ignore_vcs_tag:\n        cfg = _update_cfg_from_vcs(cfg, fetch)\n\n    if env:\n"
SHOW_ECHO = ("        click.echo(f\"Current Version: {cfg.current_version}\")\n"
             "        click.echo(f\"PEP440         : {cfg.pep440_version}\")\n")
exp("show", SH, "break", "`fetch` not passed on (`_update_cfg_from_vcs(cfg, False)`)",
    SHOW_VCS, SHOW_VCS.replace("(cfg, fetch)", "(cfg, False)"))
exp("show", SH, "break", "`ignore_vcs_tag` test inverted",
    SHOW_VCS, SHOW_VCS.replace("if not ignore_vcs_tag:", "if ignore_vcs_tag:"))
exp("show", SH, "break", "the tag lookup also gated by --fetch",
    SHOW_VCS, SHOW_VCS.replace("if not ignore_vcs_tag:", "if not ignore_vcs_tag and fetch:"))
exp("show", SH, "break", "`cfg.pep440_version` echoed as the current version",
    SHOW_ECHO, SHOW_ECHO.replace("Current Version: {cfg.current_version}", "Current Version: {cfg.pep440_version}"))
exp("show", SH, "break", "the PEP440 line shows the current version",
    SHOW_ECHO, SHOW_ECHO.replace("PEP440         : {cfg.pep440_version}", "PEP440         : {cfg.current_version}"))
exp("show", SH, "break", "update-from-VCS AFTER the echo (the configured version is reported)",
    SHOW_VCS, "    if env:\n",
    also=[(SHOW_ECHO, SHOW_ECHO + "\n    if not ignore_vcs_tag:\n        cfg = _update_cfg_from_vcs(cfg, fetch)\n")])
exp("show", SH, "break", "no configuration: exit code 0",
    SHOW_CFG, SHOW_CFG.replace("sys.exit(1)", "sys.exit(0)"))
exp("show", SH, "break", "the two lines in the other order",
    SHOW_ECHO, "        click.echo(f\"PEP440         : {cfg.pep440_version}\")\n        click.echo(f\"Current Version: {cfg.current_version}\")\n")
exp("show", SH, "break", "plain output under `--environ` (`elif not environ`)",
    "    elif environ:\n        version_info", "    elif not environ:\n        version_info")
exp("show", SH, "harmless", "locals renamed, `if ignore_vcs_tag: pass else:`",
    SHOW_VCS, "    if ignore_vcs_tag:\n        pass\n    else:\n        cfg = _update_cfg_from_vcs(cfg, fetch=fetch)\n\n    if env:\n")
exp("show", SH, "harmless", "the version in a local before it is echoed",
    SHOW_ECHO, "        current = cfg.current_version\n        click.echo(f\"Current Version: {current}\")\n"
               "        click.echo(f\"PEP440         : {cfg.pep440_version}\")\n")
exp("show", SH, "harmless", "f-strings as concatenations, explicit `return` after the plain output",
    "    else:\n" + SHOW_ECHO,
    "    else:\n        click.echo(\"Current Version: \" + cfg.current_version)\n"
    "        click.echo(\"PEP440         : \" + cfg.pep440_version)\n        return\n")
exp("show", SH, "harmless", "`env` / `environ` tested in nested ifs",
    "    elif environ:\n        version_info = v2version.parse_version_info(cfg.current_version, cfg.version_pattern)\n"
    "        for key, val in version_info._asdict().items():\n"
    "            click.echo(f\"{key.upper()}={'' if (val is False or val is None) else val}\")\n"
    "        click.echo(f\"CURRENT_VERSION={cfg.current_version}\")\n"
    "        click.echo(f\"PEP440_VERSION={cfg.pep440_version}\")\n    else:\n" + SHOW_ECHO,
    "    else:\n        if environ:\n"
    "            version_info = v2version.parse_version_info(cfg.current_version, cfg.version_pattern)\n"
    "            for key, val in version_info._asdict().items():\n"
    "                click.echo(f\"{key.upper()}={'' if (val is False or val is None) else val}\")\n"
    "            click.echo(f\"CURRENT_VERSION={cfg.current_version}\")\n"
    "            click.echo(f\"PEP440_VERSION={cfg.pep440_version}\")\n        else:\n"
    + SHOW_ECHO.replace("        click", "            click"))

def run(cmd, **kw):
    return subprocess.run(cmd, stdout=subprocess.PIPE, stderr=subprocess.STDOUT, text=True, **kw)


def write_gen(files):
    changed = []
    for name, content in files.items():
        path = os.path.join(GEN, name)
        old = open(path, encoding="utf-8").read() if os.path.exists(path) else None
        if old != content:
            with open(path, "w", encoding="utf-8") as f:
                f.write(content)
            changed.append(name)
    return changed


def main():
    only = set(sys.argv[1:])
    import translate_commands
    results = []
    out_lines = []
    for e in E:
        if only and e["group"] not in only and e["func"] not in only:
            continue
        if os.environ.get("ONLY_LABEL") and os.environ["ONLY_LABEL"] not in e["label"]:
            continue
        t0 = time.time()
        if os.path.exists(SCRATCH):
            shutil.rmtree(SCRATCH)
        shutil.copytree("/repo/src", os.path.join(SCRATCH, "src"))
        path = os.path.join(SCRATCH, "src", "bumpver", e["file"])
        src = open(path, encoding="utf-8").read()
        bad = False
        for old, new in e["edits"]:
            if src.count(old) != 1:
                print("!! edit text occurs %d times in %s (%s): %r" % (src.count(old), e["file"], e["label"], old[:80]))
                bad = True
                break
            src = src.replace(old, new)
        if bad:
            continue
        open(path, "w", encoding="utf-8").write(src)
        c = run(["/venv/bin/python", "-m", "py_compile", path])
        if c.returncode != 0:
            print("!! edited source does not compile: %s\n%s" % (e["label"], c.stdout))
            continue
        os.environ["VERIF_REPO"] = SCRATCH
        rep = []
        files = translate_commands.generate(rep)
        if e.get("with_cli"):
            import translate_cli
            files.update(translate_cli.generate([]))
        del os.environ["VERIF_REPO"]
        errs = [(f, x) for f, _n, x in rep if x is not None]
        changed = write_gen(files)
        b = run(["timeout", "1500", "lake", "build"] + TIES, cwd=LEAN)
        ok = b.returncode == 0
        if ok:
            outcome = "all ties build"
        else:
            failed = re.findall(r"^✖ \[\d+/\d+\] Building (\S+)", b.stdout, re.M)
            first = [ln for ln in b.stdout.splitlines() if "error" in ln][:1]
            outcome = "BREAKS %s" % ", ".join(m.replace("BumpverVerif.", "") for m in failed) if failed else \
                "build fails: %s" % (first[0][:100] if first else "rc=%d" % b.returncode)
        if errs:
            outcome = "UNTRANSLATABLE %s (%s); %s" % (errs[0][0], getattr(errs[0][1], "reason", str(errs[0][1]))[:90], outcome[:60])
        verdict = "as intended" if ok == (e["kind"] == "harmless") else "** NOT as intended **"
        results.append((e, outcome, verdict))
        line = "%-30s %-9s %-100s -> %s [%s] (%.0fs; regenerated: %s)" % (
            e["func"], e["kind"], e["label"][:100], outcome, verdict, time.time() - t0, ",".join(n[2:-5] for n in changed) or "-")
        print(line, flush=True)
        out_lines.append(line)
    # restore
    shutil.rmtree(SCRATCH, ignore_errors=True)
    rep = []
    files = translate_commands.generate(rep)
    import translate_cli
    files.update(translate_cli.generate([]))
    write_gen(files)
    b = run(["timeout", "1800", "lake", "build"] + TIES, cwd=LEAN)
    print("restore build:", "ok" if b.returncode == 0 else b.stdout[-2000:])
    nb = sum(1 for e, _, _ in results if e["kind"] == "break")
    nh = sum(1 for e, _, _ in results if e["kind"] == "harmless")
    okb = sum(1 for e, _, v in results if e["kind"] == "break" and v == "as intended")
    okh = sum(1 for e, _, v in results if e["kind"] == "harmless" and v == "as intended")
    summary = "SUMMARY: %d/%d breaking edits break a tie or leave the subset; %d/%d harmless rewrites still prove" % (okb, nb, okh, nh)
    print(summary)
    out_lines.append(summary)
    if not only:
        with open(os.path.join(HERE, "commands_tie_experiments.out.txt"), "w", encoding="utf-8") as f:
            f.write("\n".join(out_lines) + "\n")
    return 0


if __name__ == "__main__":
    sys.exit(main())
