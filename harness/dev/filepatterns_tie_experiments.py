#!/venv/bin/python
"""Robustness demonstration for harness/translate_filepatterns.py + Proofs/Tie_<name>.lean (group `filepatterns`).

For every experiment: copy /repo/src to a scratch tree, apply ONE textual edit to config.py, run the translator with
VERIF_REPO pointing at the scratch tree, write the regenerated Gen/F_*.lean of the group and `lake build` the tie
module of the edited function (so everything it depends on is rebuilt as well).

  kind 'break'   : a plausible semantic one-token edit  -> the tie must NO LONGER build (or the function is UNTRANSLATABLE)
  kind 'harmless': a semantics-preserving rewrite        -> the tie should still build

Afterwards the generated files are restored from the unmodified /repo and the scratch tree removed.
Usage: /venv/bin/python harness/dev/filepatterns_tie_experiments.py [name ...]  (output: filepatterns_tie_experiments.out.txt)
"""
import os
import shutil
import subprocess
import sys

HERE = os.path.dirname(os.path.abspath(__file__))
HARNESS = os.path.dirname(HERE)
VERIF = os.path.dirname(HARNESS)
LEAN = os.path.join(VERIF, "lean")
GEN = os.path.join(LEAN, "BumpverVerif", "Gen")
SCRATCH = os.path.join(VERIF, "scratch_repo_filepatterns")
sys.path.insert(0, HARNESS)

TIE_OF = {
    "iterGlobExpandedFilePatterns": "Tie_iterGlobExpandedFilePatterns",
    "compileV1FilePatterns": "Tie_compileV2FilePatterns",
    "compileV2FilePatterns": "Tie_compileV2FilePatterns",
    "compileFilePatterns": "Tie_compileFilePatterns",
    "validateVersionWithPattern": "Tie_validateVersionWithPattern",
    "parseRawConfig": "Tie_parseRawConfig",
}

E = []


def exp(name, kind, label, old, new, also=None):
    E.append(dict(name=name, file="config.py", kind=kind, label=label, old=old, new=new, also=also or [], tie=TIE_OF[name]))


# ---- _iter_glob_expanded_file_patterns ---------------------------------------------------------------
N = "iterGlobExpandedFilePatterns"
exp(N, "break", "`if filepaths:` -> `if not filepaths:`",
    "        if filepaths:\n            for filepath in filepaths:", "        if not filepaths:\n            for filepath in filepaths:")
exp(N, "break", "the key is yielded as written instead of the expanded path",
    "                yield str(filepath), raw_patterns", "                yield filepath_glob, raw_patterns")
exp(N, "break", "the fallback (no such file -> the key as written) dropped",
    "            # fallback to treating it as a simple path\n            yield filepath_glob, raw_patterns\n", "            pass\n")
exp(N, "break", "`pl.Path().glob` -> `glob.glob` (hidden files skipped; a seeded bug)",
    "        filepaths = list(pl.Path().glob(filepath_glob))", "        filepaths = list(glob.glob(filepath_glob))")
exp(N, "break", "the fallback also runs when the glob matched (the `else:` lost)",
    "        else:\n            logger.warning(f\"Invalid config, no such file: {filepath_glob}\")\n            # fallback to treating it as a simple path\n            yield filepath_glob, raw_patterns",
    "        yield filepath_glob, raw_patterns")
exp(N, "break", "the patterns of an expanded path are lost",
    "                yield str(filepath), raw_patterns", "                yield str(filepath), []")
exp(N, "break", "the fallback is yielded BEFORE the glob is looked at (always)",
    "        filepaths = list(pl.Path().glob(filepath_glob))\n",
    "        yield filepath_glob, raw_patterns\n        filepaths = list(pl.Path().glob(filepath_glob))\n")
exp(N, "break", "only the first match of a glob",
    "        filepaths = list(pl.Path().glob(filepath_glob))", "        filepaths = list(pl.Path().glob(filepath_glob))[:1]")
exp(N, "break", "an existing literal key bypasses the glob (a seeded bug)",
    "        filepaths = list(pl.Path().glob(filepath_glob))\n",
    "        if pl.Path(filepath_glob).exists():\n            yield filepath_glob, raw_patterns\n            continue\n        filepaths = list(pl.Path().glob(filepath_glob))\n")
exp(N, "harmless", "local renamed (filepaths -> paths)",
    "        filepaths = list(pl.Path().glob(filepath_glob))\n\n        if filepaths:\n            for filepath in filepaths:",
    "        paths = list(pl.Path().glob(filepath_glob))\n\n        if paths:\n            for filepath in paths:")
exp(N, "harmless", "negated test, branches exchanged",
    "        if filepaths:\n            for filepath in filepaths:\n                yield str(filepath), raw_patterns\n        else:\n            logger.warning(f\"Invalid config, no such file: {filepath_glob}\")\n            # fallback to treating it as a simple path\n            yield filepath_glob, raw_patterns",
    "        if not filepaths:\n            yield filepath_glob, raw_patterns\n        else:\n            for filepath in filepaths:\n                yield str(filepath), raw_patterns")
exp(N, "harmless", "a local for the path string",
    "                yield str(filepath), raw_patterns", "                path = str(filepath)\n                yield path, raw_patterns")
exp(N, "harmless", "a local for the items",
    "    for filepath_glob, raw_patterns in raw_patterns_by_file.items():",
    "    items = raw_patterns_by_file.items()\n    for filepath_glob, raw_patterns in items:")
exp(N, "harmless", "loop target not unpacked in the header",
    "    for filepath_glob, raw_patterns in raw_patterns_by_file.items():",
    "    for item in raw_patterns_by_file.items():\n        filepath_glob, raw_patterns = item")

# ---- _compile_v2_file_patterns ----------------------------------------------------------------------
N = "compileV2FilePatterns"
exp(N, "break", "`startswith(\"[\")` -> `startswith(\"(\")`",
    "            if raw_pattern.startswith(\"[\"):", "            if raw_pattern.startswith(\"(\"):")
exp(N, "break", "ValueError -> TypeError",
    "                raise ValueError(errmsg)\n\n            # provoke", "                raise TypeError(errmsg)\n\n            # provoke")
exp(N, "break", "the `[` guard dropped",
    "            if raw_pattern.startswith(\"[\"):\n                errmsg = (\n                    f\"Invalid pattern {raw_pattern} for {filepath}. \"\n                    + \"Character not valid in this position '[' \"\n                )\n                raise ValueError(errmsg)\n",
    "")
exp(N, "break", "the handler swallows re.error (bare `raise` -> `pass`)",
    "                logger.warning(f\"Invalid patterns for {filepath} ({raw_pattern})\")\n                raise",
    "                logger.warning(f\"Invalid patterns for {filepath} ({raw_pattern})\")\n                pass")
exp(N, "break", "the provoking compile_pattern call dropped",
    "            try:\n                v2patterns.compile_pattern(version_pattern, raw_pattern)\n            except re.error:\n                logger.warning(f\"Invalid patterns for {filepath} ({raw_pattern})\")\n                raise\n",
    "")
exp(N, "break", "`raw_cfg['version_pattern']` -> `raw_cfg['current_version']`",
    "    version_pattern     : str               = raw_cfg['version_pattern']\n    raw_patterns_by_file: RawPatternsByFile = raw_cfg['file_patterns']\n\n    for filepath, raw_patterns in _iter_glob_expanded_file_patterns(raw_patterns_by_file):\n        for raw_pattern",
    "    version_pattern     : str               = raw_cfg['current_version']\n    raw_patterns_by_file: RawPatternsByFile = raw_cfg['file_patterns']\n\n    for filepath, raw_patterns in _iter_glob_expanded_file_patterns(raw_patterns_by_file):\n        for raw_pattern")
exp(N, "break", "the `[` check after the provoked compile (order of the two errors)",
    "            if raw_pattern.startswith(\"[\"):\n                errmsg = (\n                    f\"Invalid pattern {raw_pattern} for {filepath}. \"\n                    + \"Character not valid in this position '[' \"\n                )\n                raise ValueError(errmsg)\n\n            # provoke error for specifc pattern\n            try:\n                v2patterns.compile_pattern(version_pattern, raw_pattern)\n            except re.error:\n                logger.warning(f\"Invalid patterns for {filepath} ({raw_pattern})\")\n                raise\n",
    "            try:\n                v2patterns.compile_pattern(version_pattern, raw_pattern)\n            except re.error:\n                logger.warning(f\"Invalid patterns for {filepath} ({raw_pattern})\")\n                raise\n            if raw_pattern.startswith(\"[\"):\n                raise ValueError(\"Character not valid in this position\")\n")
exp(N, "break", "the handler turns re.error into ValueError",
    "                logger.warning(f\"Invalid patterns for {filepath} ({raw_pattern})\")\n                raise",
    "                logger.warning(f\"Invalid patterns for {filepath} ({raw_pattern})\")\n                raise ValueError(raw_pattern)")
exp(N, "break", "the glob expansion skipped (the keys are used as written)",
    "    for filepath, raw_patterns in _iter_glob_expanded_file_patterns(raw_patterns_by_file):\n        for raw_pattern",
    "    for filepath, raw_patterns in raw_patterns_by_file.items():\n        for raw_pattern")
exp(N, "break", "the item is yielded before its patterns are checked",
    "    for filepath, raw_patterns in _iter_glob_expanded_file_patterns(raw_patterns_by_file):\n        for raw_pattern in raw_patterns:\n            if raw_pattern.startswith",
    "    for filepath, raw_patterns in _iter_glob_expanded_file_patterns(raw_patterns_by_file):\n        yield filepath, v2patterns.compile_patterns(version_pattern, raw_patterns)\n        for raw_pattern in raw_patterns:\n            if raw_pattern.startswith")
exp(N, "harmless", "message local renamed, message reworded",
    "                errmsg = (\n                    f\"Invalid pattern {raw_pattern} for {filepath}. \"\n                    + \"Character not valid in this position '[' \"\n                )\n                raise ValueError(errmsg)\n\n            # provoke",
    "                msg = f\"Pattern {raw_pattern} of {filepath} must not start with '['\"\n                raise ValueError(msg)\n\n            # provoke")
exp(N, "harmless", "`except re.error as ex:` with the exception logged",
    "            except re.error:\n                logger.warning(f\"Invalid patterns for {filepath} ({raw_pattern})\")\n                raise",
    "            except re.error as ex:\n                logger.warning(f\"Invalid patterns for {filepath} ({raw_pattern}): {ex}\")\n                raise")
exp(N, "harmless", "negated guard, branches exchanged",
    "            if raw_pattern.startswith(\"[\"):\n                errmsg = (\n                    f\"Invalid pattern {raw_pattern} for {filepath}. \"\n                    + \"Character not valid in this position '[' \"\n                )\n                raise ValueError(errmsg)\n",
    "            if not raw_pattern.startswith(\"[\"):\n                pass\n            else:\n                raise ValueError(\"Character not valid in this position '[' \")\n")
exp(N, "harmless", "the handler catches another class but still only re-raises",
    "            except re.error:\n                logger.warning(f\"Invalid patterns for {filepath} ({raw_pattern})\")\n                raise",
    "            except ValueError:\n                logger.warning(f\"Invalid patterns for {filepath} ({raw_pattern})\")\n                raise")
exp(N, "harmless", "the compiled patterns yielded without a local",
    "        compiled_patterns = v2patterns.compile_patterns(version_pattern, raw_patterns)\n        yield filepath, compiled_patterns\n\n\ndef _compile_file_patterns",
    "        yield filepath, v2patterns.compile_patterns(version_pattern, raw_patterns)\n\n\ndef _compile_file_patterns")

# ---- _compile_v1_file_patterns ----------------------------------------------------------------------
N = "compileV1FilePatterns"
V1HEAD = "    for filepath, raw_patterns in _iter_glob_expanded_file_patterns(raw_patterns_by_file):\n        compiled_patterns = v1patterns.compile_patterns(version_pattern, raw_patterns)\n        yield filepath, compiled_patterns"
exp(N, "break", "v1 patterns compiled by the v2 compiler",
    V1HEAD, V1HEAD.replace("v1patterns.compile_patterns", "v2patterns.compile_patterns"))
exp(N, "break", "the glob expansion skipped",
    V1HEAD, V1HEAD.replace("_iter_glob_expanded_file_patterns(raw_patterns_by_file)", "raw_patterns_by_file.items()"))
exp(N, "break", "the path replaced by the version pattern key",
    V1HEAD, V1HEAD.replace("yield filepath, compiled_patterns", "yield \"\", compiled_patterns"))
exp(N, "break", "`raw_cfg['file_patterns']` with a default (no KeyError)",
    "    version_pattern     : str               = raw_cfg['version_pattern']\n    raw_patterns_by_file: RawPatternsByFile = raw_cfg['file_patterns']\n\n    for filepath, raw_patterns in _iter_glob_expanded_file_patterns(raw_patterns_by_file):\n        compiled_patterns = v1",
    "    version_pattern     : str               = raw_cfg['version_pattern']\n    raw_patterns_by_file: RawPatternsByFile = raw_cfg.get('file_patterns', {})\n\n    for filepath, raw_patterns in _iter_glob_expanded_file_patterns(raw_patterns_by_file):\n        compiled_patterns = v1")
exp(N, "break", "the `[` check of v2 added to v1",
    V1HEAD, "    for filepath, raw_patterns in _iter_glob_expanded_file_patterns(raw_patterns_by_file):\n        for raw_pattern in raw_patterns:\n            if raw_pattern.startswith(\"[\"):\n                raise ValueError(raw_pattern)\n        compiled_patterns = v1patterns.compile_patterns(version_pattern, raw_patterns)\n        yield filepath, compiled_patterns")
exp(N, "break", "every item yielded twice",
    V1HEAD, V1HEAD + "\n        yield filepath, compiled_patterns")
exp(N, "harmless", "locals renamed",
    V1HEAD, "    for path, raws in _iter_glob_expanded_file_patterns(raw_patterns_by_file):\n        compiled = v1patterns.compile_patterns(version_pattern, raws)\n        yield path, compiled")
exp(N, "harmless", "no local for the compiled patterns",
    V1HEAD, "    for filepath, raw_patterns in _iter_glob_expanded_file_patterns(raw_patterns_by_file):\n        yield filepath, v1patterns.compile_patterns(version_pattern, raw_patterns)")
exp(N, "harmless", "a local for the generator",
    V1HEAD, "    expanded = _iter_glob_expanded_file_patterns(raw_patterns_by_file)\n    for filepath, raw_patterns in expanded:\n        compiled_patterns = v1patterns.compile_patterns(version_pattern, raw_patterns)\n        yield filepath, compiled_patterns")

# ---- _compile_file_patterns ---------------------------------------------------------------------------
N = "compileFilePatterns"
exp(N, "break", "`if is_new_pattern:` -> `if not is_new_pattern:`",
    "    if is_new_pattern:\n        _file_pattern_items = _compile_v2_file_patterns(raw_cfg)", "    if not is_new_pattern:\n        _file_pattern_items = _compile_v2_file_patterns(raw_cfg)")
exp(N, "break", "`if path in file_patterns:` -> `if path not in file_patterns:`",
    "        if path in file_patterns:\n            file_patterns[path].extend(patterns)", "        if path not in file_patterns:\n            file_patterns[path].extend(patterns)")
exp(N, "break", "a repeated path OVERWRITES instead of extending (entries no longer merged)",
    "            file_patterns[path].extend(patterns)", "            file_patterns[path] = patterns")
exp(N, "break", "`return dict(_file_pattern_items)` (what the NOTE in the source warns about)",
    "    file_patterns: PatternsByFile = {}\n    for path, patterns in _file_pattern_items:\n        if path in file_patterns:\n            file_patterns[path].extend(patterns)\n        else:\n            file_patterns[path] = patterns\n    return file_patterns",
    "    return dict(_file_pattern_items)")
exp(N, "break", "the first entry of a path is lost (the `else` branch dropped)",
    "        if path in file_patterns:\n            file_patterns[path].extend(patterns)\n        else:\n            file_patterns[path] = patterns",
    "        if path in file_patterns:\n            file_patterns[path].extend(patterns)")
exp(N, "break", "a repeated path is extended TWICE",
    "            file_patterns[path].extend(patterns)\n", "            file_patterns[path].extend(patterns)\n            file_patterns[path].extend(patterns)\n")
exp(N, "break", "a repeated path is ignored (first entry wins)",
    "            file_patterns[path].extend(patterns)", "            pass")
exp(N, "break", "v1 and v2 compilers exchanged",
    "        _file_pattern_items = _compile_v2_file_patterns(raw_cfg)\n    else:\n        _file_pattern_items = _compile_v1_file_patterns(raw_cfg)",
    "        _file_pattern_items = _compile_v1_file_patterns(raw_cfg)\n    else:\n        _file_pattern_items = _compile_v2_file_patterns(raw_cfg)")
exp(N, "break", "later entries are put IN FRONT of the earlier ones",
    "            file_patterns[path].extend(patterns)", "            file_patterns[path] = patterns + file_patterns[path]")
exp(N, "harmless", "locals renamed",
    "    for path, patterns in _file_pattern_items:\n        if path in file_patterns:\n            file_patterns[path].extend(patterns)\n        else:\n            file_patterns[path] = patterns",
    "    for fpath, pats in _file_pattern_items:\n        if fpath in file_patterns:\n            file_patterns[fpath].extend(pats)\n        else:\n            file_patterns[fpath] = pats")
exp(N, "harmless", "negated test, branches exchanged",
    "        if path in file_patterns:\n            file_patterns[path].extend(patterns)\n        else:\n            file_patterns[path] = patterns",
    "        if path not in file_patterns:\n            file_patterns[path] = patterns\n        else:\n            file_patterns[path].extend(patterns)")
exp(N, "harmless", "`extend` written as an assignment of the concatenation",
    "            file_patterns[path].extend(patterns)", "            file_patterns[path] = file_patterns[path] + patterns")
exp(N, "harmless", "v1 first, negated test",
    "    if is_new_pattern:\n        _file_pattern_items = _compile_v2_file_patterns(raw_cfg)\n    else:\n        _file_pattern_items = _compile_v1_file_patterns(raw_cfg)",
    "    if not is_new_pattern:\n        _file_pattern_items = _compile_v1_file_patterns(raw_cfg)\n    else:\n        _file_pattern_items = _compile_v2_file_patterns(raw_cfg)")
exp(N, "harmless", "loop target not unpacked in the header",
    "    for path, patterns in _file_pattern_items:\n", "    for item in _file_pattern_items:\n        path, patterns = item\n")

# ---- _validate_version_with_pattern --------------------------------------------------------------------
N = "validateVersionWithPattern"
exp(N, "break", "the parsers exchanged (`if is_new_pattern` -> `if not is_new_pattern` inside the try)",
    "        if is_new_pattern:\n            v2version.parse_version_info", "        if not is_new_pattern:\n            v2version.parse_version_info")
exp(N, "break", "`except version.PatternError` -> `except ValueError` (PatternError passes through)",
    "    except version.PatternError:", "    except ValueError:")
exp(N, "break", "ValueError -> TypeError (then not caught by config.parse … it is, but another class)",
    "            f\"version_pattern='{version_pattern}'\"\n        )\n        raise ValueError(errmsg)", "            f\"version_pattern='{version_pattern}'\"\n        )\n        raise TypeError(errmsg)")
exp(N, "break", "the white space check dropped",
    "        invalid_chars = re.search(r\"([\\s]+)\", version_pattern)\n        if invalid_chars:\n            errmsg = (\n                f\"Invalid character(s) '{invalid_chars.group(1)}'\"\n                f' in version_pattern = \"{version_pattern}\"'\n            )\n            raise ValueError(errmsg)\n",
    "")
exp(N, "break", "week pattern test inverted",
    "        if not v2version.is_valid_week_pattern(version_pattern):", "        if v2version.is_valid_week_pattern(version_pattern):")
exp(N, "break", "the new-style checks run for legacy patterns instead",
    "    if is_new_pattern:\n        invalid_chars", "    if not is_new_pattern:\n        invalid_chars")
exp(N, "break", "only blanks are rejected, not all white space",
    "re.search(r\"([\\s]+)\", version_pattern)", "re.search(r\"([ ]+)\", version_pattern)")
exp(N, "break", "arguments of the parser exchanged",
    "            v2version.parse_version_info(current_version, version_pattern)", "            v2version.parse_version_info(version_pattern, current_version)")
exp(N, "break", "the handler swallows PatternError",
    "            f\"version_pattern='{version_pattern}'\"\n        )\n        raise ValueError(errmsg)", "            f\"version_pattern='{version_pattern}'\"\n        )\n        logger.warning(errmsg)")
exp(N, "break", "the white space check on the version instead of the pattern",
    "re.search(r\"([\\s]+)\", version_pattern)", "re.search(r\"([\\s]+)\", current_version)")
exp(N, "harmless", "local renamed",
    "        invalid_chars = re.search(r\"([\\s]+)\", version_pattern)\n        if invalid_chars:\n            errmsg = (\n                f\"Invalid character(s) '{invalid_chars.group(1)}'\"",
    "        ws = re.search(r\"([\\s]+)\", version_pattern)\n        if ws:\n            errmsg = (\n                f\"Invalid character(s) '{ws.group(1)}'\"")
exp(N, "harmless", "`if invalid_chars:` -> `if invalid_chars is not None:`",
    "        if invalid_chars:", "        if invalid_chars is not None:")
exp(N, "harmless", "legacy branch first, negated test",
    "        if is_new_pattern:\n            v2version.parse_version_info(current_version, version_pattern)\n        else:\n            v1version.parse_version_info(current_version, version_pattern)",
    "        if not is_new_pattern:\n            v1version.parse_version_info(current_version, version_pattern)\n        else:\n            v2version.parse_version_info(current_version, version_pattern)")
exp(N, "harmless", "messages reworded, raised directly",
    "            errmsg = f\"Invalid week number pattern: {version_pattern}\"\n            raise ValueError(errmsg)", "            raise ValueError(f\"Bad week pattern {version_pattern}\")")
exp(N, "harmless", "early return for legacy patterns",
    "    if is_new_pattern:\n        invalid_chars = re.search(r\"([\\s]+)\", version_pattern)\n        if invalid_chars:\n            errmsg = (\n                f\"Invalid character(s) '{invalid_chars.group(1)}'\"\n                f' in version_pattern = \"{version_pattern}\"'\n            )\n            raise ValueError(errmsg)\n        if not v2version.is_valid_week_pattern(version_pattern):\n            errmsg = f\"Invalid week number pattern: {version_pattern}\"\n            raise ValueError(errmsg)",
    "    if not is_new_pattern:\n        return\n    invalid_chars = re.search(r\"([\\s]+)\", version_pattern)\n    if invalid_chars:\n        raise ValueError(\"Invalid character(s)\")\n    if not v2version.is_valid_week_pattern(version_pattern):\n        raise ValueError(\"Invalid week number pattern\")")

# ---- _parse_raw_config ---------------------------------------------------------------------------------------
N = "parseRawConfig"
exp(N, "break", "own entry added when the file IS listed (`not in` -> `in`)",
    "    if ctx.config_rel_path not in raw_cfg['file_patterns']:", "    if ctx.config_rel_path in raw_cfg['file_patterns']:")
exp(N, "break", "own entry skipped by BASENAME (a seeded bug)",
    "    if ctx.config_rel_path not in raw_cfg['file_patterns']:", "    if ctx.config_filepath.name not in raw_cfg['file_patterns']:")
exp(N, "break", "own entry without its pattern",
    "        raw_cfg['file_patterns'][ctx.config_rel_path] = [raw_version_pattern]", "        raw_cfg['file_patterns'][ctx.config_rel_path] = []")
exp(N, "break", "readers exchanged ('toml' <-> 'cfg')",
    "        if ctx.config_format == 'toml':\n            raw_cfg = _parse_toml(fobj)\n        elif ctx.config_format == 'cfg':\n            raw_cfg = _parse_cfg(fobj)",
    "        if ctx.config_format == 'cfg':\n            raw_cfg = _parse_toml(fobj)\n        elif ctx.config_format == 'toml':\n            raw_cfg = _parse_cfg(fobj)")
exp(N, "break", "RuntimeError -> ValueError (then swallowed by config.parse)",
    "            raise RuntimeError(err_msg)", "            raise ValueError(err_msg)")
exp(N, "break", "own entry computed but not stored",
    "        raw_cfg['file_patterns'][ctx.config_rel_path] = [raw_version_pattern]\n", "        pass\n")
exp(N, "break", "own entry stored under the basename",
    "        raw_cfg['file_patterns'][ctx.config_rel_path] = [raw_version_pattern]", "        raw_cfg['file_patterns'][ctx.config_filepath.name] = [raw_version_pattern]")
exp(N, "break", "own entry REPLACES the configured files",
    "        raw_cfg['file_patterns'][ctx.config_rel_path] = [raw_version_pattern]", "        raw_cfg['file_patterns'] = {ctx.config_rel_path: [raw_version_pattern]}")
exp(N, "break", "own entry holds the pattern twice",
    "        raw_cfg['file_patterns'][ctx.config_rel_path] = [raw_version_pattern]", "        raw_cfg['file_patterns'][ctx.config_rel_path] = [raw_version_pattern, raw_version_pattern]")
exp(N, "harmless", "local renamed",
    "            raw_cfg_text = fobj.read()\n\n        # NOTE (mb 2020-09-19): By default we always add\n        #   a pattern for the config section itself.\n        raw_version_pattern = _parse_current_version_default_pattern(raw_cfg, raw_cfg_text)",
    "            text = fobj.read()\n\n        raw_version_pattern = _parse_current_version_default_pattern(raw_cfg, text)")
exp(N, "harmless", "`x not in d` -> `not (x in d)`",
    "    if ctx.config_rel_path not in raw_cfg['file_patterns']:", "    if not (ctx.config_rel_path in raw_cfg['file_patterns']):")
exp(N, "harmless", "elif -> else: if",
    "        elif ctx.config_format == 'cfg':\n            raw_cfg = _parse_cfg(fobj)\n        else:\n            err_msg = (\n                f\"Invalid config_format='{ctx.config_format}'.\"\n                \"Supported formats are 'setup.cfg' and 'pyproject.toml'\"\n            )\n            raise RuntimeError(err_msg)",
    "        else:\n            if ctx.config_format == 'cfg':\n                raw_cfg = _parse_cfg(fobj)\n            else:\n                raise RuntimeError(\"Invalid config_format\")")
exp(N, "harmless", "a local for the sub dict",
    "        raw_cfg['file_patterns'][ctx.config_rel_path] = [raw_version_pattern]",
    "        patterns = [raw_version_pattern]\n        raw_cfg['file_patterns'][ctx.config_rel_path] = patterns")
exp(N, "harmless", "early return when the file is listed",
    "    if ctx.config_rel_path not in raw_cfg['file_patterns']:\n        with ctx.config_filepath.open(mode=\"rt\", encoding=\"utf-8\") as fobj:\n            raw_cfg_text = fobj.read()\n\n        # NOTE (mb 2020-09-19): By default we always add\n        #   a pattern for the config section itself.\n        raw_version_pattern = _parse_current_version_default_pattern(raw_cfg, raw_cfg_text)\n        raw_cfg['file_patterns'][ctx.config_rel_path] = [raw_version_pattern]\n\n    return raw_cfg",
    "    if ctx.config_rel_path in raw_cfg['file_patterns']:\n        return raw_cfg\n    with ctx.config_filepath.open(mode=\"rt\", encoding=\"utf-8\") as fobj:\n        raw_cfg_text = fobj.read()\n    raw_version_pattern = _parse_current_version_default_pattern(raw_cfg, raw_cfg_text)\n    raw_cfg['file_patterns'][ctx.config_rel_path] = [raw_version_pattern]\n    return raw_cfg")


def run(cmd, **kw):
    return subprocess.run(cmd, stdout=subprocess.PIPE, stderr=subprocess.STDOUT, text=True, **kw)


def write_gen(files):
    changed = []
    for fname, content in files.items():
        path = os.path.join(GEN, fname)
        old = open(path, encoding="utf-8").read() if os.path.exists(path) else None
        if old != content:
            open(path, "w", encoding="utf-8").write(content)
            changed.append(fname)
    return changed


def main():
    only = set(sys.argv[1:])
    import translate_filepatterns
    results = []
    for e in E:
        if only and e["name"] not in only:
            continue
        if os.path.exists(SCRATCH):
            shutil.rmtree(SCRATCH)
        shutil.copytree("/repo/src", os.path.join(SCRATCH, "src"))
        path = os.path.join(SCRATCH, "src", "bumpver", e["file"])
        src = open(path, encoding="utf-8").read()
        for old, new in [(e["old"], e["new"])] + e["also"]:
            if src.count(old) != 1:
                print("!! edit text occurs %d times: %r" % (src.count(old), old))
                src = None
                break
            src = src.replace(old, new)
        if src is None:
            results.append((e, "bad experiment", "** NOT as intended **"))
            continue
        open(path, "w", encoding="utf-8").write(src)
        try:
            compile(src, path, "exec")
        except SyntaxError as ex:
            print("!! the edited source does not parse: %s" % ex)
            results.append((e, "bad experiment", "** NOT as intended **"))
            continue
        os.environ["VERIF_REPO"] = SCRATCH
        rep = []
        files = translate_filepatterns.generate(rep)
        del os.environ["VERIF_REPO"]
        errs = [x for x in rep if x[2] is not None]
        changed = write_gen(files)
        t = run(["timeout", "1200", "lake", "build", "BumpverVerif.Proofs.%s" % e["tie"]], cwd=LEAN)
        ok = t.returncode == 0
        if ok:
            outcome = "%s builds" % e["tie"]
        else:
            first = [ln for ln in t.stdout.splitlines() if "error" in ln][:1]
            outcome = "%s FAILS: %s" % (e["tie"], (first[0] if first else "rc=%d" % t.returncode)[:110])
        if errs:
            reason = errs[0][2].reason if hasattr(errs[0][2], "reason") else str(errs[0][2])
            outcome = "UNTRANSLATABLE (%s: %s); tie fails" % (errs[0][0], reason[:90]) if not ok else \
                "UNTRANSLATABLE (%s) BUT the tie builds" % errs[0][0]
        if not changed and not errs:
            outcome = "generated files unchanged; " + outcome
        verdict = "as intended" if ok == (e["kind"] == "harmless") else "** NOT as intended **"
        results.append((e, outcome, verdict))
        print("%-30s %-9s %-80s -> %s [%s]" % (e["name"], e["kind"], e["label"], outcome, verdict), flush=True)
    # restore
    shutil.rmtree(SCRATCH, ignore_errors=True)
    changed = write_gen(translate_filepatterns.generate())
    print("restored from /repo: %d file(s) rewritten" % len(changed))
    mods = sorted({"BumpverVerif.Proofs.%s" % e["tie"] for e, _, _ in results})
    if mods:
        b = run(["timeout", "1800", "lake", "build"] + mods, cwd=LEAN)
        print("restore build:", "ok" if b.returncode == 0 else b.stdout[-2000:])
    bad = [r for r in results if "NOT" in r[2]]
    print("%d experiment(s), %d not as intended" % (len(results), len(bad)))
    return 0


if __name__ == "__main__":
    sys.exit(main())
