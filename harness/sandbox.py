"""Temp projects, fake git/hg executables, in-process CLI runs.

Nothing here writes under /repo or /verif; every project lives in a fresh
directory under $VERIF_SCRATCH (default: a mkdtemp) that is removed afterwards."""
import os, sys, shutil, tempfile, subprocess, stat, io, contextlib, json

import impl_adapter  # noqa: F401  (sets sys.path)

FAKE_VCS_SH = r"""#!/bin/sh
# fake git / hg: logs "<n>\0arg1\0...argn\0" records to $FAKEVCS_DIR/log, answers
# probes from files in $FAKEVCS_DIR, fails the k-th invocation if $FAKEVCS_DIR/fail_at = k.
D="$FAKEVCS_DIR"
name=$(basename "$0")
{ printf '%s\0' "$(( $# + 1 ))"; printf '%s\0' "$name"; for a in "$@"; do printf '%s\0' "$a"; done; } >> "$D/log"
w="-"
if [ -f "$D/probe_file" ] && grep -qF -- "$(cat "$D/probe_text")" "$(cat "$D/probe_file")" 2>/dev/null; then w="W"; fi
printf '%s' "$w" >> "$D/wlog"
n=0
[ -f "$D/count" ] && n=$(cat "$D/count")
n=$((n + 1))
echo "$n" > "$D/count"
if [ -f "$D/fail_at" ] && [ "$(cat "$D/fail_at")" = "$n" ]; then
  echo "fake $name: injected failure at command $n" >&2
  exit 3
fi
if [ -f "$D/fail_cmd" ]; then
  fc=$(cat "$D/fail_cmd")
  case " $* " in
    *" $fc "*) echo "fake $name: injected failure for $fc" >&2; exit 3;;
  esac
fi
case "$name $*" in
  "git rev-parse --git-dir") echo ".git";;
  "hg root") pwd;;
  "git branch -vv") [ -f "$D/branches" ] && cat "$D/branches";;
  "git config --get remote.origin.url") if [ -f "$D/remote_url" ]; then cat "$D/remote_url"; else exit 1; fi;;
  "hg paths") [ -f "$D/remote_url" ] && cat "$D/remote_url";;
  "git fetch"|"hg pull") : > "$D/fetched";;
  "git tag --list"|"hg tags")
    # tags the remote has but the clone has not become visible only after a fetch
    if [ -f "$D/fetched" ] && [ -f "$D/tags_after_fetch" ]; then cat "$D/tags_after_fetch"; else [ -f "$D/tags" ] && cat "$D/tags"; fi;;
  "git tag --list --merged") [ -f "$D/tags_branch" ] && cat "$D/tags_branch";;
  "hg log --branch . --rev=tag() --template={tags}\n") [ -f "$D/tags_branch" ] && cat "$D/tags_branch";;
  "git status --porcelain"*) [ -f "$D/status" ] && cat "$D/status";;
  "hg status -umard") [ -f "$D/status" ] && cat "$D/status";;
esac
exit 0
"""

HOOK_SH = r"""#!/bin/sh
# generated hook: logs a marker with the two environment variables into the fake-vcs log
D="$FAKEVCS_DIR"
{ printf '%s\0' "4"; printf '%s\0' "HOOK"; printf '%s\0' "$(basename "$0")"; printf '%s\0' "$BUMPVER_OLD_VERSION"; printf '%s\0' "$BUMPVER_NEW_VERSION"; } >> "$D/log"
w="-"
if [ -f "$D/probe_file" ] && grep -qF -- "$(cat "$D/probe_text")" "$(cat "$D/probe_file")" 2>/dev/null; then w="W"; fi
printf '%s' "$w" >> "$D/wlog"
if [ -f "$D/$(basename "$0").fail" ]; then
  case "$(cat "$D/$(basename "$0").fail")" in
    term) kill -TERM $$; sleep 5 ;;
    kill) kill -KILL $$; sleep 5 ;;
    segv) kill -SEGV $$; sleep 5 ;;
    exit1) exit 1 ;;
    exit255) exit 255 ;;
    exit126) exit 126 ;;
    *) exit 7 ;;
  esac
fi
exit 0
"""


def scratch_root():
    r = os.environ.get("VERIF_SCRATCH")
    if r:
        os.makedirs(r, exist_ok=True)
        return r
    return tempfile.gettempdir()


class Project:
    """A throw-away project directory."""

    def __init__(self, prefix="bvp"):
        self.dir = tempfile.mkdtemp(prefix=prefix + "-", dir=scratch_root())
        self.fake = None

    def path(self, rel):
        return os.path.join(self.dir, rel)

    def write_bytes(self, rel, data):
        p = self.path(rel)
        os.makedirs(os.path.dirname(p), exist_ok=True)
        with open(p, "wb") as f:
            f.write(data)

    def write_text(self, rel, text):
        self.write_bytes(rel, text.encode("utf-8"))

    def read_bytes(self, rel):
        with open(self.path(rel), "rb") as f:
            return f.read()

    def snapshot(self):
        """all regular files (relative path -> bytes), excluding VCS and fake dirs"""
        out = {}
        for root, dirs, files in os.walk(self.dir):
            dirs[:] = [d for d in dirs if d not in (".git", ".hg", ".fakevcs")]
            for f in files:
                p = os.path.join(root, f)
                out[os.path.relpath(p, self.dir)] = open(p, "rb").read()
        return out

    # -- fake vcs ---------------------------------------------------------
    def add_fake_vcs(self, kind="git"):
        d = self.path(".fakevcs")
        os.makedirs(os.path.join(d, "bin"), exist_ok=True)
        sh = os.path.join(d, "bin", "fakevcs.sh")
        with open(sh, "w") as f:
            f.write(FAKE_VCS_SH)
        os.chmod(sh, 0o755)
        for n in ("git", "hg"):
            link = os.path.join(d, "bin", n)
            if not os.path.exists(link):
                os.symlink(sh, link)
        # a git checkout's `.git` is a DIRECTORY in a plain clone but a FILE ("gitdir: …") in a linked worktree, a submodule or a
        # --separate-git-dir clone: every third fake git project is of the second kind
        Project._fake_count = getattr(Project, "_fake_count", 0) + 1
        marker = self.path("." + kind)
        if kind == "git" and Project._fake_count % 3 == 0 and not os.path.exists(marker):
            with open(marker, "w") as f:
                f.write("gitdir: /nonexistent/worktrees/x\n")
        else:
            os.makedirs(marker, exist_ok=True)
        self.fake = d
        return d

    def drop_vcs_marker(self, kind):
        """make the project look like it is not under version control"""
        marker = self.path("." + kind)
        if os.path.isdir(marker):
            os.rmdir(marker)
        elif os.path.exists(marker):
            os.unlink(marker)

    def fake_set(self, name, text):
        with open(os.path.join(self.fake, name), "w") as f:
            f.write(text)

    def add_hook(self, name, fail=False, mode="exit7"):
        """`mode`: how a failing hook ends — exit7/exit1/exit255/exit126, or killed by a signal (term/kill/segv: negative returncode)"""
        p = self.path(name)
        with open(p, "w") as f:
            f.write(HOOK_SH)
        os.chmod(p, 0o755)
        if fail:
            self.fake_set(name + ".fail", mode)
        return name

    def fake_log(self):
        """list of argv lists (hooks appear as ['HOOK', name, old, new])"""
        p = os.path.join(self.fake, "log")
        if not os.path.exists(p):
            return []
        data = open(p, "rb").read().split(b"\0")
        out, i = [], 0
        while i < len(data) - 1:
            n = int(data[i])
            out.append([x.decode("utf-8", "surrogateescape") for x in data[i + 1:i + 1 + n]])
            i += 1 + n
        return out

    def fake_wlog(self):
        p = os.path.join(self.fake, "wlog")
        return open(p).read() if os.path.exists(p) else ""

    def fake_probe(self, rel_file, text):
        """every later fake-vcs/hook invocation records whether `rel_file` contains `text` at that moment"""
        self.fake_set("probe_file", self.path(rel_file))
        self.fake_set("probe_text", text)

    def fake_reset_log(self):
        for n in ("log", "count", "wlog"):
            p = os.path.join(self.fake, n)
            if os.path.exists(p):
                os.unlink(p)

    def env(self):
        e = dict(os.environ)
        if self.fake:
            e["PATH"] = os.path.join(self.fake, "bin") + os.pathsep + e.get("PATH", "")
            e["FAKEVCS_DIR"] = self.fake
        return e

    # -- real git ---------------------------------------------------------
    def git(self, *args, check=True):
        e = dict(os.environ, GIT_AUTHOR_NAME="t", GIT_AUTHOR_EMAIL="t@e", GIT_COMMITTER_NAME="t",
                 GIT_COMMITTER_EMAIL="t@e", GIT_CONFIG_GLOBAL="/dev/null", GIT_CONFIG_SYSTEM="/dev/null",
                 GIT_AUTHOR_DATE="2020-01-01T00:00:00", GIT_COMMITTER_DATE="2020-01-01T00:00:00")
        p = subprocess.run(["git"] + list(args), cwd=self.dir, capture_output=True, env=e)
        if check and p.returncode != 0:
            raise RuntimeError("git %s failed: %s" % (args, p.stderr.decode("utf-8", "replace")))
        return p.stdout.decode("utf-8", "replace")

    def git_init(self, separate=None):
        """`separate`: keep the repository outside the work tree (`.git` is then a FILE, as in linked worktrees and submodules);
        default: every third real repository"""
        Project._git_count = getattr(Project, "_git_count", 0) + 1
        if separate is None:
            separate = Project._git_count % 3 == 0
        if separate:
            self.gitdir = self.dir.rstrip("/") + ".gitdir"
            self.git("init", "-q", "-b", "main", "--separate-git-dir", self.gitdir)
        else:
            self.git("init", "-q", "-b", "main")
        self.git("config", "user.name", "t")
        self.git("config", "user.email", "t@e")
        self.git("config", "commit.gpgsign", "false")
        self.git("config", "tag.gpgsign", "false")

    def cleanup(self):
        shutil.rmtree(self.dir, ignore_errors=True)
        if getattr(self, "gitdir", None):
            shutil.rmtree(self.gitdir, ignore_errors=True)

    def __enter__(self):
        return self

    def __exit__(self, *a):
        self.cleanup()


_GIT_ENV = dict(GIT_AUTHOR_NAME="t", GIT_AUTHOR_EMAIL="t@e", GIT_COMMITTER_NAME="t",
                GIT_COMMITTER_EMAIL="t@e", GIT_CONFIG_GLOBAL="/dev/null", GIT_CONFIG_SYSTEM="/dev/null")


LAST_STDERR = ""          # what the last in-process run logged (bumpver logs `Old Version:` / `New Version:` there)


def announced_version():
    """the `New Version:` the last in-process run announced (None if it announced none)"""
    import re as _re
    m = _re.findall(r"New Version: (.*)", LAST_STDERR or "")
    return m[-1].rstrip("\r") if m else None


def run_cli(args, cwd, env=None, today=None):
    """Run `bumpver <args>` in-process through click's CliRunner.
    Returns (exit_code, stdout, exception-name-or-None)."""
    from click.testing import CliRunner
    from bumpver import cli as bcli, version as bversion
    import datetime as dt
    old_cwd = os.getcwd()
    old_env = dict(os.environ)
    old_today = bversion.TODAY
    try:
        os.chdir(cwd)
        os.environ.update(_GIT_ENV)
        if env:
            os.environ.update({k: v for k, v in env.items() if k in ("PATH", "FAKEVCS_DIR", "LC_ALL", "LANG", "BUMPVER_OLD_VERSION", "BUMPVER_NEW_VERSION")})
        if today is not None:
            bversion.TODAY = today
        try:
            runner = CliRunner(mix_stderr=False)
        except TypeError:
            runner = CliRunner()
        # bumpver calls logging.basicConfig on every command, which only takes effect while the root logger has no handler: drop the
        # handler of the previous in-process run (bound to that run's captured stderr) so that this run's log lines can be read
        import logging
        for h in list(logging.root.handlers):
            logging.root.removeHandler(h)
        res = runner.invoke(bcli.cli, list(args), catch_exceptions=True)
        global LAST_STDERR
        try:
            LAST_STDERR = res.stderr
        except Exception:                       # click without separate stderr capture
            LAST_STDERR = ""
        exc = None
        if res.exception is not None and not isinstance(res.exception, SystemExit):
            exc = impl_adapter.exc_name(res.exception)
        return res.exit_code, res.stdout, exc
    finally:
        os.chdir(old_cwd)
        os.environ.clear()
        os.environ.update(old_env)
        bversion.TODAY = old_today


def run_cli_subprocess(args, cwd, env=None, timeout=120):
    e = dict(os.environ)
    e.update(_GIT_ENV)
    if env:
        e.update(env)
    e["PYTHONPATH"] = os.path.join(impl_adapter.REPO, "src") + os.pathsep + e.get("PYTHONPATH", "")
    p = subprocess.run(["/venv/bin/python", "-m", "bumpver"] + list(args), cwd=cwd, env=e,
                       capture_output=True, timeout=timeout)
    return p.returncode, p.stdout, p.stderr
