#!/venv/bin/python
"""Translator: regenerates lean/BumpverVerif/Gen/*.lean from /repo's working tree.
Files are rewritten only when their content changes (so `lake build` stays a no-op
on an unchanged tree)."""
import os, sys, json, hashlib

HERE = os.path.dirname(os.path.abspath(__file__))
sys.path.insert(0, HERE)
VERIF = os.path.dirname(HERE)
GEN = os.path.join(VERIF, "lean", "BumpverVerif", "Gen")


def write_if_changed(path, content):
    old = None
    if os.path.exists(path):
        old = open(path, encoding="utf-8").read()
    if old != content:
        with open(path, "w", encoding="utf-8") as f:
            f.write(content)
        return True
    return False


def main():
    os.makedirs(GEN, exist_ok=True)
    import gen_tables
    import translate_funcs
    changed = []
    for name, content in gen_tables.generate().items():
        if write_if_changed(os.path.join(GEN, name), content):
            changed.append(name)
    # function translator (Python AST -> Lean definitions, Gen/F_<name>.lean)
    report = []
    for name, content in translate_funcs.generate(report).items():
        if write_if_changed(os.path.join(GEN, name), content):
            changed.append(name)
    for func, fname, err in report:
        if err is not None:
            print("translator: UNTRANSLATABLE %s -> %s: %s" % (func, fname, err))
    # further function-translator modules (one per group of functions): harness/translate_<group>.py with generate(report)
    import glob, importlib, traceback
    for path in sorted(glob.glob(os.path.join(HERE, "translate_*.py"))):
        modname = os.path.basename(path)[:-3]
        if modname == "translate_funcs":
            continue
        rep = []
        try:
            out = importlib.import_module(modname).generate(rep)
        except Exception:                                   # a crashing translator module = its functions are untranslatable
            print("translator: module %s failed:\n%s" % (modname, traceback.format_exc()[-1500:]))
            continue
        if isinstance(out, dict):
            for name, content in out.items():
                if write_if_changed(os.path.join(GEN, name), content):
                    changed.append(name)
        for item in rep:
            if len(item) >= 3 and item[2] is not None:
                print("translator: UNTRANSLATABLE %s -> %s: %s" % (item[0], item[1], item[2]))
    print("translator: %d file(s) changed: %s" % (len(changed), ", ".join(changed)))
    return 0


if __name__ == "__main__":
    sys.exit(main())
