#!/venv/bin/python
"""Python -> Lean FUNCTION translator, group `format`: the RENDER side of the new-style version engine
(v2version._format_segment, _format_segment_tree, _parse_segtree, _format_part_values, format_version,
_iter_flat_segtree, _parse_pattern_fields, and version.is_zero_val).

It extends harness/translate_funcs.py (imported, never edited): `FormatTranslator` subclasses
`FuncTranslator` and adds the Python constructs these functions need (tuple-unpacking loop targets,
`enumerate`, dict tables and dict locals, `isinstance` narrowing over a nested list, self-recursion over a
nested list, generators, exceptions as `Except PyExc`, indexing / slicing, mutable list OBJECTS with aliasing
(a small heap), `sorted`/`list.sort` with a key, list comprehensions ...).  Everything in a function BODY is
translated from the AST; what is hard-coded is the signature table `FUNCS`, the table of module-level
constants `GLOBALS` (-> the GENERATED tables of Gen/V2Tables.lean), and the prelude of trusted primitives
(Gen/F_formatPrelude.lean, namespace BV.GenF.FP, a constant text).  See harness/TRANSLATE_FORMAT.md.

Contract = that of translate_funcs: `generate(report=None)` returns {file name: content} for
lean/BumpverVerif/Gen/; an UNTRANSLATABLE function yields a file with only a comment.
Standalone:  /venv/bin/python harness/translate_format.py [--write] [--show]
"""
import ast
import copy
import os
import sys

HERE = os.path.dirname(os.path.abspath(__file__))
sys.path.insert(0, HERE)

import translate_funcs as TF                                        # noqa: E402
from translate_funcs import (Untranslatable, BOOL, INT, NAT, LIT, STR, NONE, OPT, LIST, TUP, REC,   # noqa: E402
                             Var, lean_ident, lean_str, indent, is_intlike, _nl, _arm, sha256)

# ----------------------------------------------------------------------------------
# additional static types
# ----------------------------------------------------------------------------------
CHAR = ("char",)          # a str of length exactly 1 (element of a str, `s[i]`); Lean `Char`
SEG = ("seg",)            # an item of a SegmentTree: `str | list` (model: inductive `Seg`)
FMT = ("fmt",)            # a formatter function of v2patterns.PART_FORMATS (table data `Gen.FmtKind`)
FVT = ("fv",)             # a field value `Union[str, int, None]` (model: inductive `FV`)
REF = ("ref",)            # a reference to a mutable list OBJECT of the heap (SegmentTree under construction)
HEAP = ("heap",)          # the heap itself (threaded implicitly)


def DICT(k, v):
    return ("dict", k, v)


# the record built by `FormatedSeg(...)` (model structure FSeg); registered in the shared tables under
# names nobody else uses
TF.RECORDS.setdefault("FSeg", dict(
    lean="FSeg", source=("v2version.py", "FormatedSeg"), exact=True,
    fields=[("is_literal", "isLiteral", BOOL), ("is_zero", "isZero", BOOL), ("result", "result", STR)]))
TF.CONSTRUCTORS.setdefault("FormatedSeg", ("rec", "FSeg"))

# module-level constants: (file, dotted name as written in that file) -> (Lean term, static type).
# The Lean terms are the GENERATED tables (harness/gen_tables.py -> Gen/V2Tables.lean).
GLOBALS = {
    ("version.py", "PART_ZERO_VALUES"): ("Gen.partZeroValues", DICT(STR, STR), ("version.py", "PART_ZERO_VALUES")),
    ("v2version.py", "version.PART_ZERO_VALUES"): ("Gen.partZeroValues", DICT(STR, STR), ("version.py", "PART_ZERO_VALUES")),
    ("v2version.py", "v2patterns.PATTERN_PART_FIELDS"): ("Gen.partFields", DICT(STR, STR), ("v2patterns.py", "PATTERN_PART_FIELDS")),
    ("v2version.py", "v2patterns.PART_FORMATS"): ("Gen.partFormats", DICT(STR, FMT), ("v2patterns.py", "PART_FORMATS")),
}

# python type annotations that matter for the translation of a local variable
ANN_REF = {"SegmentTree"}                     # `x: SegmentTree = []` allocates a heap object
ANN_REF_LIST = {"typ.List[SegmentTree]"}      # a plain list (value) of references

PRELUDE_MODULE = "BumpverVerif.Gen.F_formatPrelude"

# ----------------------------------------------------------------------------------
# the signature table
# ----------------------------------------------------------------------------------
PVS = LIST(TUP(STR, STR))
FUNCS = [
    dict(name="isZeroVal", file="version.py", func="is_zero_val",
         params=[("part", STR), ("part_value", STR)], ret=BOOL),
    dict(name="formatSegment", file="v2version.py", func="_format_segment",
         params=[("seg", STR), ("part_values", PVS)], ret=REC("FSeg")),
    dict(name="formatSegmentTree", file="v2version.py", func="_format_segment_tree",
         params=[("segtree", LIST(SEG)), ("part_values", PVS), ("is_root", BOOL)], ret=REC("FSeg")),
    dict(name="parseSegtree", file="v2version.py", func="_parse_segtree",
         params=[("raw_pattern", STR)], ret=LIST(SEG)),
    dict(name="formatPartValues", file="v2version.py", func="_format_part_values",
         params=[("vinfo", REC("VInfo"))], ret=PVS),
    dict(name="formatVersion", file="v2version.py", func="format_version",
         params=[("vinfo", REC("VInfo")), ("raw_pattern", STR)], ret=STR),
    dict(name="iterFlatSegtree", file="v2version.py", func="_iter_flat_segtree",
         params=[("segtree", LIST(SEG))], ret=LIST(STR)),
    dict(name="parsePatternFields", file="v2version.py", func="_parse_pattern_fields",
         params=[("raw_pattern", STR)], ret=LIST(STR)),
]
for _s in FUNCS:
    _s.setdefault("imports", ["BumpverVerif.Model.V2Version", PRELUDE_MODULE])

# calls of other TRANSLATED functions: (file of the caller, dotted name) -> Lean name in FUNCS
CALLEES = {
    ("v2version.py", "version.is_zero_val"): "isZeroVal",
    ("version.py", "is_zero_val"): "isZeroVal",
    ("v2version.py", "_format_segment"): "formatSegment",
    ("v2version.py", "_format_segment_tree"): "formatSegmentTree",
    ("v2version.py", "_parse_segtree"): "parseSegtree",
    ("v2version.py", "_format_part_values"): "formatPartValues",
    ("v2version.py", "_iter_flat_segtree"): "iterFlatSegtree",
}
SPEC_BY_NAME = {s["name"]: s for s in FUNCS}

# exceptions -> constructors of `PyExc` (prelude)
EXCEPTIONS = {"ValueError": "valueError", "IndexError": "indexError", "KeyError": "keyError",
              "TypeError": "typeError", "NotImplementedError": "notImplemented"}


# ----------------------------------------------------------------------------------
# the prelude: trusted primitives for Python built-ins (constant text)
# ----------------------------------------------------------------------------------
PRELUDE = r'''/- GENERATED by harness/translate_format.py (a CONSTANT text: the trusted primitives the generated
   definitions of the `format` group call for Python built-ins). Do not edit. -/
import BumpverVerif.Model.V2Version
namespace BV.GenF.FP

/-- the Python exceptions the translated functions can raise -/
inductive PyExc
  | valueError | indexError | keyError | typeError | notImplemented
  deriving DecidableEq, Repr

/-- `s.replace(pat, rep)` for ANY `pat`: Python inserts `rep` before every character and at the end when
    `pat` is empty; otherwise the model primitive `replaceAll` -/
def pyReplace (pat rep s : Str) : Str :=
  if pat.isEmpty then rep ++ s.flatMap (fun c => c :: rep) else replaceAll pat rep s

/-- sequencing of computations that can raise (`e` is evaluated first; its exception propagates) -/
def bindE {α β : Type} (x : Except PyExc α) (f : α → Except PyExc β) : Except PyExc β :=
  match x with
  | .error e => .error e
  | .ok a => f a

/-- an accumulation loop whose body can raise: stops at the first exception -/
def foldlE {σ α : Type} (f : σ → α → Except PyExc σ) : σ → List α → Except PyExc σ
  | s, [] => .ok s
  | s, x :: xs =>
    match f s x with
    | .error e => .error e
    | .ok s' => foldlE f s' xs

/-- `xs[i]` (negative `i` counts from the end; IndexError outside the range) -/
def pyIndex {α : Type} (xs : List α) (i : Int) : Except PyExc α :=
  let j : Int := if i < 0 then i + Int.ofNat xs.length else i
  if j < 0 then .error .indexError
  else match xs[j.toNat]? with
    | some x => .ok x
    | none => .error .indexError

/-- `xs.pop()`: the list without its last element, and that element (IndexError when empty) -/
def pyPop {α : Type} (xs : List α) : Except PyExc (List α × α) :=
  match xs.getLast? with
  | some x => .ok (xs.dropLast, x)
  | none => .error .indexError

/-- the clamped bound of a slice -/
def pySliceBound (n : Nat) (i : Int) : Nat :=
  let j : Int := if i < 0 then i + Int.ofNat n else i
  if j < 0 then 0 else if j > Int.ofNat n then n else j.toNat

/-- `xs[a:b]` -/
def pySlice {α : Type} (xs : List α) (a b : Int) : List α :=
  let lo := pySliceBound xs.length a
  let hi := pySliceBound xs.length b
  (xs.take hi).drop lo

/-- `d[k]` on an association list (KeyError when absent) -/
def dictGet {κ ν : Type} [BEq κ] (d : List (κ × ν)) (k : κ) : Except PyExc ν :=
  match d.find? (fun kv => kv.1 == k) with
  | some kv => .ok kv.2
  | none => .error .keyError

/-- `k in d` -/
def dictHas {κ ν : Type} [BEq κ] (d : List (κ × ν)) (k : κ) : Bool := d.any (fun kv => kv.1 == k)

/-- `d[k] = v`: an existing key keeps its position (Python dicts keep insertion order), a new key goes last -/
def dictSet {κ ν : Type} [BEq κ] : List (κ × ν) → κ → ν → List (κ × ν)
  | [], k, v => [(k, v)]
  | (k', v') :: rest, k, v => if k' == k then (k', v) :: rest else (k', v') :: dictSet rest k v

/-- insertion of `x` AFTER every element whose key is `≤` its own: the step of a stable sort -/
def insertByKey {α : Type} (key : α → Int) (x : α) : List α → List α
  | [] => [x]
  | y :: ys => if key x < key y then x :: y :: ys else y :: insertByKey key x ys

/-- `sorted(xs, key=key)` (stable) -/
def pySortedBy {α : Type} (key : α → Int) (xs : List α) : List α :=
  xs.foldl (fun acc x => insertByKey key x acc) []

/-- `sorted(xs, key=key, reverse=True)` / `xs.sort(key=key, reverse=True)`: descending, and STABLE
    (equal keys keep their original order) -/
def insertByKeyDesc {α : Type} (key : α → Int) (x : α) : List α → List α
  | [] => [x]
  | y :: ys => if key x > key y then x :: y :: ys else y :: insertByKeyDesc key x ys

def pySortedByDesc {α : Type} (key : α → Int) (xs : List α) : List α :=
  xs.foldl (fun acc x => insertByKeyDesc key x acc) []

/-- lexicographic `<` on the `(int, int)` keys of `sorted(d.items())` -/
def pairLt (a b : Int × Int) : Bool := decide (a.1 < b.1) || (a.1 == b.1 && decide (a.2 < b.2))

/-- `sorted(d.items())` for a dict with `(int, int)` keys.  The keys of a dict are distinct, so the
    comparison never reaches the values; items with equal keys (impossible) keep their order. -/
def insertByPairKey {ν : Type} (x : (Int × Int) × ν) : List ((Int × Int) × ν) → List ((Int × Int) × ν)
  | [] => [x]
  | y :: ys => if pairLt x.1 y.1 then x :: y :: ys else y :: insertByPairKey x ys

def pySortedItems {ν : Type} (xs : List ((Int × Int) × ν)) : List ((Int × Int) × ν) :=
  xs.foldl (fun acc x => insertByPairKey x acc) []

/-- `s.find(sub, 0)`: -1 when absent -/
def pyFind (s sub : Str) : Int :=
  match findIdx sub s with
  | some i => Int.ofNat i
  | none => -1

/-- `vinfo._asdict()[field]` for the modelled fields; `githash` / `hexhash` (outside the documented
    language, not part of the model's `VInfo`) read as the empty string, any other name is a KeyError.
    The field NAMES are those of `Gen.versionFields` (generated from the class definition). -/
def vinfoGet (v : VInfo) (f : Str) : Except PyExc FV :=
  if Gen.versionFields.elem f then .ok (v.get f) else .error .keyError

/-! ### mutable list objects (the SegmentTree under construction)

`x: SegmentTree = []` allocates an object; `r.append(v)` mutates the object `r` refers to — visible through
every alias; `return r` hands the object graph to the caller, which from then on only reads it: the
translation of `return` REIFIES it into the immutable nested list `Seg`. -/

inductive HItem
  | str (s : Str)
  | ref (r : Nat)
  deriving DecidableEq, Repr

/-- object number `r` is `heap[r]` -/
abbrev Heap := List (List HItem)

def Heap.alloc (h : Heap) : Heap × Nat := (h ++ [[]], h.length)

def Heap.append (h : Heap) (r : Nat) (x : HItem) : Heap :=
  h.zipIdx.map (fun oi => if oi.2 == r then oi.1 ++ [x] else oi.1)

/-- `obj[i]` for a heap object -/
def Heap.index (h : Heap) (r : Nat) (i : Int) : Except PyExc HItem :=
  pyIndex (h.getD r []) i

mutual
  /-- the immutable tree an item denotes; `fuel` bounds the nesting depth (a cyclic graph is cut off) -/
  def Heap.reifyItem (h : Heap) : Nat → HItem → Seg
    | _, .str s => .lit s
    | 0, .ref _ => .grp []
    | fuel + 1, .ref r => .grp (Heap.reifyItems h fuel (h.getD r []))
  def Heap.reifyItems (h : Heap) : Nat → List HItem → List Seg
    | _, [] => []
    | fuel, x :: xs => Heap.reifyItem h fuel x :: Heap.reifyItems h fuel xs
end

/-- the nested list an object denotes -/
def Heap.reify (h : Heap) (r : Nat) : List Seg := Heap.reifyItems h h.length (h.getD r [])

/-- a returned item that must be a list (`return internal_root[0]` with result type SegmentTree);
    a plain `str` there is outside the declared type -/
def Heap.reifyList (h : Heap) : HItem → Except PyExc (List Seg)
  | .ref r => .ok (Heap.reify h r)
  | .str _ => .error .typeError

end BV.GenF.FP
'''


# ----------------------------------------------------------------------------------
# AST preprocessing
# ----------------------------------------------------------------------------------
def _is_yield_stmt(st):
    return isinstance(st, ast.Expr) and isinstance(st.value, ast.Yield)


class _YieldToAppend(ast.NodeTransformer):
    """generator -> list builder: `yield e` becomes `_out.append(e)`"""

    def visit_Expr(self, node):
        if isinstance(node.value, ast.Yield):
            if node.value.value is None:
                raise Untranslatable("?", node, "bare `yield`")
            call = ast.Call(func=ast.Attribute(value=ast.Name(id="_out", ctx=ast.Load()), attr="append", ctx=ast.Load()),
                            args=[node.value.value], keywords=[])
            return ast.copy_location(ast.Expr(value=call), node)
        return self.generic_visit(node)

    def visit_FunctionDef(self, node):
        return self.generic_visit(node)


def desugar_generator(fn, node):
    """A generator function is read as the function returning the LIST of the yielded values (its
    consumers here only iterate over it once; laziness is not observable for these pure functions)."""
    ys = [n for n in ast.walk(node) if isinstance(n, (ast.Yield, ast.YieldFrom))]
    if not ys:
        return node, False
    for n in ast.walk(node):
        if isinstance(n, ast.YieldFrom):
            raise Untranslatable(fn, n, "`yield from`")
        if isinstance(n, ast.Return):
            raise Untranslatable(fn, n, "`return` inside a generator")
        if isinstance(n, ast.Yield):
            pass
    if any(isinstance(n, ast.Name) and n.id == "_out" for n in ast.walk(node)):
        raise Untranslatable(fn, node, "a variable named `_out` in a generator")
    # every yield must be a statement of its own
    stmts_with_yield = [n for n in ast.walk(node) if _is_yield_stmt(n)]
    if len(stmts_with_yield) != len(ys):
        raise Untranslatable(fn, node, "`yield` used as an expression")
    node = copy.deepcopy(node)
    node = _YieldToAppend().visit(node)
    doc = []
    body = list(node.body)
    if body and isinstance(body[0], ast.Expr) and isinstance(body[0].value, ast.Constant):
        doc, body = body[:1], body[1:]
    init = ast.Assign(targets=[ast.Name(id="_out", ctx=ast.Store())], value=ast.List(elts=[], ctx=ast.Load()))
    fin = ast.Return(value=ast.Name(id="_out", ctx=ast.Load()))
    node.body = doc + [init] + body + [fin]
    ast.fix_missing_locations(node)
    for n in ast.walk(node):
        if not hasattr(n, "lineno") and isinstance(n, (ast.stmt, ast.expr)):
            n.lineno = node.lineno
    return node, True


def names_in(node):
    return {n.id for n in ast.walk(node) if isinstance(n, ast.Name)}


# ----------------------------------------------------------------------------------
# the translator
# ----------------------------------------------------------------------------------
class FormatTranslator(TF.FuncTranslator):
    def __init__(self, spec, sources, status=None):
        TF.FuncTranslator.__init__(self, spec, sources)
        self.file = spec["file"]
        self.status = status if status is not None else {}   # name -> dict(raises=bool) of translated callees
        self.raise_events = 0          # raise statements / raising expressions met so far
        self.use_bif = False           # inside a structurally recursive helper: `bif` instead of `if`
        self.rec = None                # recursion split: dict(...)
        self.extra_imports = []
        self.heap = False              # does the function use heap objects

    # -- types ------------------------------------------------------------------------------
    def lean_type(self, t):
        k = t[0]
        if k == "char":
            return "Char"
        if k == "seg":
            return "Seg"
        if k == "fmt":
            return "Gen.FmtKind"
        if k == "fv":
            return "FV"
        if k == "ref":
            return "Nat"
        if k == "heap":
            return "Heap"
        if k == "dict":
            return "List (%s × %s)" % (self.lean_type(t[1]), self.lean_type(t[2]))
        if k == "tuple":
            return "(" + " × ".join(self.lean_type(x) for x in t[1]) + ")"
        if k == "opt":
            return "Option " + self.paren_type(t[1])
        if k == "list":
            return "List _" if t[1] is None else "List " + self.paren_type(t[1])
        return TF.FuncTranslator.lean_type(self, t)

    def unify(self, a, b):
        if a == b:
            return a
        if (a, b) in ((CHAR, STR), (STR, CHAR)):
            return STR
        if a[0] == "dict" and b[0] == "dict":
            k = a[1] if b[1] is None else (b[1] if a[1] is None else self.unify(a[1], b[1]))
            v = a[2] if b[2] is None else (b[2] if a[2] is None else self.unify(a[2], b[2]))
            return DICT(k, v) if k and v else None
        return TF.FuncTranslator.unify(self, a, b)

    def coerce(self, lean, frm, to, node=None):
        if frm == to:
            return lean
        if frm == CHAR and to == STR:
            return "[%s]" % lean
        if frm[0] == "dict" and to[0] == "dict" and (frm[1] is None or frm[1:] == to[1:]):
            return lean
        if frm == LIT and to == INT:
            return "(%s : Int)" % lean if lean.isdigit() else lean
        return TF.FuncTranslator.coerce(self, lean, frm, to, node)

    # -- raising expressions: hoisted in evaluation order in front of the statement ----------------
    def hoist(self, lean_except_expr, base="v"):
        """bind the value of an `Except PyExc T` expression; returns the bound name"""
        if self.hoists is None:
            self.bad(None, "a raising expression in a position where evaluation order cannot be kept")
        self.raise_events += 1
        v = self.fresh(base)
        self.hoists.append((v, lean_except_expr))
        return v

    def wrap_hoists(self, hs, body):
        for name, e in reversed(hs):
            body = "(bindE %s fun %s =>%s)" % (e, name, _arm(body) if "\n" in body else " " + body)
        return body

    def with_hoists(self, compute, cont):
        saved = self.hoists
        self.hoists = []
        try:
            val = compute()
            hs = self.hoists
        finally:
            self.hoists = saved
        return self.wrap_hoists(hs, cont(val))

    def scoped(self, thunk):
        """translate a sub-expression that is evaluated CONDITIONALLY: its raising parts must not be
        hoisted past the condition.  -> (lean, type, raised); when raised the text has type Except"""
        saved = self.hoists
        self.hoists = []
        try:
            v, t = thunk()
            hs = self.hoists
        finally:
            self.hoists = saved
        if not hs:
            return v, t, False
        return self.wrap_hoists(hs, "(Except.ok %s)" % v), t, True

    def ok(self, v):
        return "(Except.ok %s)" % v if self.raises else v

    def ret(self, node, env, at):
        rt = self.spec["ret"]

        def compute():
            if node is None:
                return "none", NONE
            v, t = self.expr(node, env)
            return self.returned(v, t, at), rt

        def cont(vt):
            return self.ok(vt[0])
        return self.with_hoists(compute, cont)

    def returned(self, v, t, at):
        """the value handed to the caller: heap objects are reified (the caller only reads them)"""
        rt = self.spec["ret"]
        if t == REF and rt == LIST(SEG):
            return "(Heap.reify heap %s)" % v
        if t == ("hitem",) and rt == LIST(SEG):
            return self.hoist("(Heap.reifyList heap %s)" % v, "r")
        return self.coerce(v, t, rt, at)

    def assign(self, name, compute, env, kr, at):
        def compute2():
            v, t = compute()
            if t == LIT:
                return "(%s : Int)" % v, INT
            return v, t

        def kr2(e):
            return kr(self.purge(e, [name]))
        return TF.FuncTranslator.assign(self, name, compute2, env, kr2, at)

    def purge(self, env, names):
        """forget remembered `d[k]` bindings that depend on a reassigned name"""
        dead = [k for k, v in env.items() if k.startswith("@sub:") and (set(names) & v.deps)]
        if not dead:
            return env
        env = dict(env)
        for k in dead:
            del env[k]
        return env

    # -- globals / callees ----------------------------------------------------------------------
    def global_of(self, node):
        if not isinstance(node, (ast.Name, ast.Attribute)):
            return None
        key = (self.file, ast.unparse(node))
        g = GLOBALS.get(key)
        if g is None:
            return None
        lean, t, (gfile, gname) = g
        _, tree = self.src.module(gfile)
        found = False
        for st in tree.body:
            tg = None
            if isinstance(st, ast.Assign) and len(st.targets) == 1:
                tg = st.targets[0]
            elif isinstance(st, ast.AnnAssign):
                tg = st.target
            if isinstance(tg, ast.Name) and tg.id == gname:
                found = True
        if not found:
            self.bad(node, "module-level constant %s not found in %s" % (gname, gfile))
        return lean, t

    def callee_info(self, name):
        spec = SPEC_BY_NAME[name]
        _, node = self.src.find(spec["file"], ast.FunctionDef, spec["func"])
        if node is None:
            self.bad(None, "callee %s not found" % spec["func"])
        a = node.args
        pynames = [x.arg for x in a.args] + [x.arg for x in a.kwonlyargs]
        defaults = {}
        for x, d in zip(reversed(a.args), reversed(a.defaults)):
            defaults[x.arg] = d
        for x, d in zip(a.kwonlyargs, a.kw_defaults):
            if d is not None:
                defaults[x.arg] = d
        return spec, pynames, defaults, [x.arg for x in a.kwonlyargs]

    def callee_raises(self, name):
        if name == self.spec["name"]:
            return self.raises
        st = self.status.get(name)
        if st is None:
            self.bad(None, "callee %s has not been translated (order of the signature table)" % name)
        if st.get("error"):
            self.bad(None, "callee %s is UNTRANSLATABLE" % name)
        return st["raises"]

    def call_translated(self, node, env, name):
        spec, pynames, defaults, kwonly = self.callee_info(name)
        if [p for p, _ in spec["params"]] != pynames:
            self.bad(node, "parameters of %s are %s, the signature table expects %s"
                     % (spec["func"], pynames, [p for p, _ in spec["params"]]))
        npos = len(pynames) - len(kwonly)
        if len(node.args) > npos:
            self.bad(node, "too many positional arguments")
        given = {}
        for p, a in zip(pynames, node.args):
            given[p] = a
        for kw in node.keywords:
            if kw.arg is None or kw.arg not in pynames or kw.arg in given:
                self.bad(node, "bad keyword argument `%s`" % kw.arg)
            given[kw.arg] = kw.value
        vals = []
        for p, t in spec["params"]:
            a = given.get(p, defaults.get(p))
            if a is None:
                self.bad(node, "missing argument `%s`" % p)
            v, vt = self.expr(a, env)
            vals.append(self.coerce(v, vt, t, a))
        if name == self.spec["name"]:
            if self.rec is None:
                self.bad(node, "a recursive call outside the supported recursion scheme")
            return self.rec["call"](vals, node), spec["ret"]
        text = "(GenF.%s %s)" % (name, " ".join(vals))
        imp = "BumpverVerif.Gen.F_%s" % name
        if imp not in self.extra_imports:
            self.extra_imports.append(imp)
        if self.callee_raises(name):
            return self.hoist(text, "r"), spec["ret"]
        return text, spec["ret"]

    # -- expressions -----------------------------------------------------------------------------
    def attempt(self, fn):
        """run a translation attempt that may decline (None): its side effects are then undone"""
        saved_h = None if self.hoists is None else list(self.hoists)
        saved = (self.counter, self.raise_events, list(self.extra_imports))
        r = fn()
        if r is None:
            if saved_h is not None and self.hoists is not None:
                self.hoists[:] = saved_h
            self.counter, self.raise_events = saved[0], saved[1]
            self.extra_imports[:] = saved[2]
        return r

    def expr(self, node, env):
        if isinstance(node, (ast.Name, ast.Attribute)) and not (isinstance(node, ast.Name) and node.id in env):
            g = self.global_of(node)
            if g is not None:
                return g
        if isinstance(node, ast.Subscript):
            return self.subscript(node, env)
        if isinstance(node, ast.BoolOp):
            return self.boolop_value(node, env)
        if isinstance(node, ast.Call):
            r = self.attempt(lambda: self.call_new(node, env))
            if r is not None:
                return r
        if isinstance(node, ast.Compare):
            r = self.attempt(lambda: self.compare_new(node, env))
            if r is not None:
                return r, BOOL
        if isinstance(node, ast.ListComp):
            return self.listcomp(node, env)
        if isinstance(node, ast.List) and not node.elts:
            return "[]", LIST(None)
        return TF.FuncTranslator.expr(self, node, env)

    def binop(self, node, env):
        # CHAR operands behave as str
        if isinstance(node.op, ast.Add):
            a, ta = self.expr(node.left, env)
            b, tb = self.expr(node.right, env)
            if {ta, tb} <= {STR, CHAR} and CHAR in (ta, tb):
                return "(%s ++ %s)" % (self.coerce(a, ta, STR), self.coerce(b, tb, STR)), STR
        return TF.FuncTranslator.binop(self, node, env)

    def boolop_value(self, node, env):
        """`a and b` / `a or b` as a VALUE: all operands must be bool valued; evaluated lazily (an operand
        that can raise, or that relies on the narrowing by an earlier one, stays behind its guard)"""
        def is_boolish(n, e):
            if isinstance(n, ast.BoolOp):
                return True
            if isinstance(n, ast.UnaryOp) and isinstance(n.op, ast.Not):
                return True
            if isinstance(n, ast.Compare):
                return True
            if isinstance(n, ast.Call) and ast.unparse(n.func) == "isinstance":
                return True
            return False

        lazy = self.needs_split(node, env) or any(self.may_raise(v) for v in node.values[1:])
        if not lazy:
            parts = [self.expr(v, env) for v in node.values]
            if any(t != BOOL for _, t in parts):
                self.bad(node, "`and`/`or` used as a VALUE needs bool operands (in a test position any type is fine)")
            op = " && " if isinstance(node.op, ast.And) else " || "
            return "(" + op.join(p for p, _ in parts) + ")", BOOL
        # lazy form: a decision tree whose leaves are `true` / `false`
        for v in node.values:
            if not is_boolish(v, env):
                _, t = self.scoped(lambda v=v: self.expr(v, env))[:2]
                if t != BOOL:
                    self.bad(node, "`and`/`or` used as a VALUE needs bool operands")
        return self.lazy_truth(node, env), BOOL

    def lazy_truth(self, node, env):
        """the truth value of a test, evaluated lazily (operands that can raise stay behind their guards);
        a raising test is bound in front of the statement"""
        raised = []

        def leaf(val):
            def k(e):
                return "@LEAF:%s@" % val
            return k
        saved = self.hoists
        self.hoists = None
        try:
            text = self.cond(node, env, leaf("true"), leaf("false"), top=False, lazy_scopes=raised)
        finally:
            self.hoists = saved
        if raised:
            text = text.replace("@LEAF:true@", "(Except.ok true)").replace("@LEAF:false@", "(Except.ok false)")
            return self.hoist(text, "b")
        return text.replace("@LEAF:true@", "true").replace("@LEAF:false@", "false")

    def may_raise(self, node):
        """syntactic over-approximation: could evaluating `node` raise (as far as the subset goes)"""
        for n in ast.walk(node):
            if isinstance(n, ast.Subscript) and not isinstance(n.slice, ast.Slice):
                return True
            if isinstance(n, ast.Call):
                key = (self.file, ast.unparse(n.func))
                if key in CALLEES:
                    nm = CALLEES[key]
                    if nm == self.spec["name"]:
                        if self.raises:
                            return True
                    elif self.status.get(nm, {}).get("raises", True):
                        return True
                if isinstance(n.func, ast.Attribute) and n.func.attr == "pop":
                    return True
            if isinstance(n, ast.Raise):
                return True
        return False

    def subscript(self, node, env):
        key = "@sub:" + ast.unparse(node)
        if key in env:
            return env[key].lean, env[key].type
        val, t = self.expr(node.value, env)
        sl = node.slice
        if isinstance(sl, ast.Slice):
            if sl.step is not None:
                self.bad(node, "slice with a step")
            if t != STR and t[0] != "list":
                self.bad(node, "slice of a value of type %r" % (t,))
            lo = "0"
            if sl.lower is not None:
                a, ta = self.expr(sl.lower, env)
                if not is_intlike(ta):
                    self.bad(node, "slice bound of type %r" % (ta,))
                lo = self.coerce(a, ta, INT, node)
            if sl.upper is not None:
                b, tb = self.expr(sl.upper, env)
                if not is_intlike(tb):
                    self.bad(node, "slice bound of type %r" % (tb,))
                hi = self.coerce(b, tb, INT, node)
            else:
                hi = "(Int.ofNat %s.length)" % val
            return "(pySlice %s %s %s)" % (val, lo, hi), t
        if t[0] == "tuple":
            return TF.FuncTranslator.expr(self, node, env)
        idx, ti = self.expr(sl, env)
        if t == STR or t[0] == "list":
            if not is_intlike(ti):
                self.bad(node, "index of type %r" % (ti,))
            et = CHAR if t == STR else t[1]
            if et is None:
                self.bad(node, "index into a list of unknown element type")
            return self.hoist("(pyIndex %s %s)" % (val, self.coerce(idx, ti, INT, node)), "x"), et
        if t == REF:
            if not is_intlike(ti):
                self.bad(node, "index of type %r" % (ti,))
            return self.hoist("(Heap.index heap %s %s)" % (val, self.coerce(idx, ti, INT, node)), "x"), ("hitem",)
        if t[0] == "dict":
            kt, vt = t[1], t[2]
            if kt is None:
                self.bad(node, "lookup in a dict of unknown key type")
            return self.hoist("(dictGet %s %s)" % (val, self.coerce(idx, ti, kt, node)), "x"), vt
        if t == ("asdict",):
            if ti != STR:
                self.bad(node, "field name of type %r" % (ti,))
            return self.hoist("(vinfoGet %s %s)" % (val, idx), "x"), FVT
        self.bad(node, "subscript on a value of type %r" % (t,))

    def compare_new(self, node, env):
        """comparisons the base class does not know: CHAR operands, `in` on dicts/str with CHAR"""
        if len(node.ops) != 1:
            return None
        op, ln, rn = node.ops[0], node.left, node.comparators[0]
        if isinstance(op, (ast.In, ast.NotIn)):
            neg = "!" if isinstance(op, ast.NotIn) else ""
            a, ta = self.expr(ln, env)
            b, tb = self.expr(rn, env)
            if ta == CHAR and tb == STR:
                # a one-character string is a substring iff the character occurs
                return "(%sList.elem %s %s)" % (neg, a, b)
            if tb[0] == "dict":
                if tb[1] is None:
                    return "true" if neg else "false"
                return "(%sdictHas %s %s)" % (neg, b, self.coerce(a, ta, tb[1], node))
            return None
        if isinstance(op, (ast.Eq, ast.NotEq)):
            a, ta = self.expr(ln, env)
            b, tb = self.expr(rn, env)
            sym = "!=" if isinstance(op, ast.NotEq) else "=="
            if CHAR in (ta, tb) and {ta, tb} <= {CHAR, STR}:
                # compare as strings; a one-character literal is compared as a character
                def as_char(n, v, t):
                    if t == CHAR:
                        return v
                    if isinstance(n, ast.Constant) and isinstance(n.value, str) and len(n.value) == 1:
                        return _char_lit(n.value)
                    return None
                ca, cb = as_char(ln, a, ta), as_char(rn, b, tb)
                if ca is not None and cb is not None:
                    return "(%s %s %s)" % (ca, sym, cb)
                return "(%s %s %s)" % (self.coerce(a, ta, STR), sym, self.coerce(b, tb, STR))
            if ta == ("hitem",) or tb == ("hitem",):
                self.bad(node, "comparison of heap items")
        if isinstance(op, (ast.Is, ast.IsNot)) and isinstance(rn, ast.Constant) and rn.value is None:
            a, ta = self.expr(ln, env)
            if ta == FVT:
                # a field value may be None (model: FV.none)
                return "(%s %s FV.none)" % (a, "!=" if isinstance(op, ast.IsNot) else "==")
        return None

    def listcomp(self, node, env):
        if len(node.generators) != 1 or node.generators[0].is_async:
            self.bad(node, "only list comprehensions with one generator")
        gen = node.generators[0]
        xs, et, binds = self.iteration(gen.iter, gen.target, env, node)
        x = self.fresh("it")
        env2 = self.purge(dict(env), list(binds))
        for nm, (proj, t) in binds.items():
            env2[nm] = Var(proj % x, t)
        saved, self.hoists = self.hoists, None
        try:
            conds = [self.truthy(c, env2) for c in gen.ifs]
            v, vt = self.expr(node.elt, env2)
        finally:
            self.hoists = saved
        if vt == LIT:
            vt = INT
        src = xs
        if conds:
            src = "(List.filter (fun %s => %s) %s)" % (x, " && ".join(conds), xs)
        return "(List.map (fun %s => %s) %s)" % (x, v, src), LIST(vt)

    def lambda_key(self, node, env, et):
        """`key=` argument of sorted / sort -> Lean function `elem -> Int`"""
        if isinstance(node, ast.Name) and node.id == "len" and "len" not in env:
            if et != STR and et[0] != "list":
                self.bad(node, "key=len on elements of type %r" % (et,))
            return "(fun x_ => Int.ofNat x_.length)"
        if isinstance(node, ast.Lambda):
            a = node.args
            if len(a.args) != 1 or a.vararg or a.kwarg or a.kwonlyargs or a.defaults:
                self.bad(node, "only one-parameter lambdas")
            x = lean_ident(a.args[0].arg)
            env2 = dict(env)
            env2[a.args[0].arg] = Var(x, et)
            saved, self.hoists = self.hoists, None
            try:
                v, vt = self.expr(node.body, env2)
            finally:
                self.hoists = saved
            if not is_intlike(vt):
                self.bad(node, "sort key of type %r" % (vt,))
            return "(fun %s => %s)" % (x, self.coerce(v, vt, INT, node))
        self.bad(node, "sort key must be `len` or a lambda")

    def call_new(self, node, env):
        """calls the base class does not know; None = let the base class try"""
        f = node.func
        fname = ast.unparse(f)
        key = (self.file, fname)
        if key in CALLEES and not (isinstance(f, ast.Name) and f.id in env):
            return self.call_translated(node, env, CALLEES[key])
        if isinstance(f, ast.Name) and f.id in env and env[f.id].type == FMT:
            # a formatter function taken from PART_FORMATS: table data, applied by the model's `fmtValue`
            if len(node.args) != 1 or node.keywords:
                self.bad(node, "a formatter takes one argument")
            a, ta = self.expr(node.args[0], env)
            if ta != FVT:
                self.bad(node, "formatter applied to a value of type %r" % (ta,))
            return "(fmtValue %s %s)" % (env[f.id].lean, a), STR
        if isinstance(f, ast.Subscript) and len(node.args) == 1 and not node.keywords:
            # `PART_FORMATS[part](value)`: the formatter is looked up and applied in one expression
            fn, tf = self.expr(f, env)
            if tf == FMT:
                a, ta = self.expr(node.args[0], env)
                if ta != FVT:
                    self.bad(node, "formatter applied to a value of type %r" % (ta,))
                return "(fmtValue %s %s)" % (fn, a), STR
            self.bad(node, "call of a value of type %r" % (tf,))
        if fname == "isinstance" and len(node.args) == 2:
            self.bad(node, "`isinstance` is only supported as a test on a variable holding a tree item")
        if fname == "list" and len(node.args) == 1 and not node.keywords:
            a, ta = self.expr(node.args[0], env)
            if ta[0] == "list":
                return a, ta
            self.bad(node, "list() of a value of type %r" % (ta,))
        if fname == "len" and len(node.args) == 1:
            a, ta = self.expr(node.args[0], env)
            if ta[0] == "dict":
                return "%s.length" % a, NAT
            return None
        if fname == "sorted" and len(node.args) == 1:
            return self.sorted_call(node, env, node.args[0], node.keywords)
        if isinstance(f, ast.Attribute):
            m = f.attr
            if m in ("items", "keys", "values") and not node.args and not node.keywords:
                d, td = self.expr(f.value, env)
                if td[0] == "dict":
                    if td[1] is None:
                        self.bad(node, "dict of unknown type")
                    if m == "items":
                        return d, LIST(TUP(td[1], td[2]))
                    if m == "keys":
                        return "(List.map (fun kv_ => kv_.1) %s)" % d, LIST(td[1])
                    return "(List.map (fun kv_ => kv_.2) %s)" % d, LIST(td[2])
            if m == "_asdict" and not node.args and not node.keywords:
                r, tr = self.expr(f.value, env)
                if tr == REC("VInfo"):
                    return r, ("asdict",)
            if m == "replace" and len(node.args) == 2 and not node.keywords:
                recv, tr = self.expr(f.value, env)
                if tr == STR and not (isinstance(node.args[0], ast.Constant) and node.args[0].value != ""):
                    a, ta = self.expr(node.args[0], env)
                    b, tb = self.expr(node.args[1], env)
                    if ta not in (STR, CHAR) or tb not in (STR, CHAR):
                        self.bad(node, "str.replace with non-str arguments")
                    return "(pyReplace %s %s %s)" % (self.coerce(a, ta, STR), self.coerce(b, tb, STR), recv), STR
            if m == "join" and len(node.args) == 1 and not node.keywords:
                recv, tr = self.expr(f.value, env)
                a, ta = self.expr(node.args[0], env)
                if tr == STR and ta in (LIST(STR), LIST(None)):
                    return "(join %s %s)" % (recv, a), STR
                self.bad(node, "str.join on %r / %r" % (tr, ta))
            if m == "find" and len(node.args) in (1, 2) and not node.keywords:
                recv, tr = self.expr(f.value, env)
                a, ta = self.expr(node.args[0], env)
                if len(node.args) == 2 and not (isinstance(node.args[1], ast.Constant) and node.args[1].value == 0):
                    self.bad(node, "str.find with a start other than 0")
                if tr == STR and ta in (STR, CHAR):
                    return "(pyFind %s %s)" % (recv, self.coerce(a, ta, STR)), INT
                self.bad(node, "str.find on %r / %r" % (tr, ta))
        return None

    def sorted_call(self, node, env, arg, keywords):
        xs, t = self.expr(arg, env)
        if t[0] != "list" or t[1] is None:
            self.bad(node, "sorted() of a value of type %r" % (t,))
        kw = {k.arg: k.value for k in keywords}
        if set(kw) - {"key", "reverse"}:
            self.bad(node, "sorted() keywords other than key / reverse")
        rev = False
        if "reverse" in kw:
            r = kw["reverse"]
            if not (isinstance(r, ast.Constant) and isinstance(r.value, bool)):
                self.bad(node, "reverse= must be a literal")
            rev = r.value
        if "key" in kw:
            fn = self.lambda_key(kw["key"], env, t[1])
            return "(%s %s %s)" % ("pySortedByDesc" if rev else "pySortedBy", fn, xs), t
        et = t[1]
        if not rev and et[0] == "tuple" and len(et[1]) == 2 and et[1][0] == TUP(INT, INT):
            return "(pySortedItems %s)" % xs, t
        self.bad(node, "sorted() without key on elements of type %r" % (et,))

    # -- conditions with narrowing (base atoms + isinstance + dict membership) -------------------------
    def narrowing_atom(self, node, env, top=False):
        if (isinstance(node, ast.Call) and ast.unparse(node.func) == "isinstance" and len(node.args) == 2
                and isinstance(node.args[0], ast.Name) and node.args[0].id in env
                and env[node.args[0].id].type == SEG and isinstance(node.args[1], ast.Name)
                and node.args[1].id in ("list", "str")):
            return "isinstance"
        if (isinstance(node, ast.Compare) and len(node.ops) == 1 and isinstance(node.ops[0], (ast.In, ast.NotIn))):
            g = self.global_of(node.comparators[0]) if not (
                isinstance(node.comparators[0], ast.Name) and node.comparators[0].id in env) else None
            if g is not None and g[1][0] == "dict" and g[1][1] == STR:
                return "indict"
        return TF.FuncTranslator.narrowing_atom(self, node, env, top)

    def ite(self, c, a, b):
        if self.use_bif:
            return "(bif %s then %s else %s)" % (c, _nl(a), _nl(b))
        return "(if %s then %s else %s)" % (c, _nl(a), _nl(b))

    def cond(self, test, env, tk, ek, as_bool=False, top=True, lazy_scopes=None):
        """as the base class, plus the atoms `isinstance(x, list|str)` (x a tree item) and `k in TABLE`;
        `lazy_scopes` (a list) switches on the scoped translation of plain operands (for `and`/`or` values
        with operands that can raise): a raising operand appends to the list and yields an Except decision tree"""
        if isinstance(test, ast.UnaryOp) and isinstance(test.op, ast.Not):
            if as_bool and not self.needs_split(test, env) and lazy_scopes is None:
                return self.truthy(test, env)
            return self.cond(test.operand, env, ek, tk, top=top, lazy_scopes=lazy_scopes)
        if isinstance(test, ast.BoolOp) and (self.needs_split(test, env) or lazy_scopes is not None):
            first, rest = test.values[0], test.values[1:]
            more = rest[0] if len(rest) == 1 else ast.copy_location(ast.BoolOp(op=test.op, values=rest), test)
            if isinstance(test.op, ast.And):
                return self.cond(first, env, lambda e: self.cond(more, e, tk, ek, top=False, lazy_scopes=lazy_scopes),
                                 ek, top=False, lazy_scopes=lazy_scopes)
            return self.cond(first, env, tk, lambda e: self.cond(more, e, tk, ek, top=False, lazy_scopes=lazy_scopes),
                             top=False, lazy_scopes=lazy_scopes)
        atom = self.narrowing_atom(test, env, top=top and not as_bool)
        if atom == "isinstance":
            name = test.args[0].id
            var = env[name]
            is_list = test.args[1].id == "list"
            lv, sv = self.fresh(name), self.fresh(name)
            env_l, env_s = dict(env), dict(env)
            env_l[name] = Var(lv, LIST(SEG), narrowed_from=var)
            env_s[name] = Var(sv, STR, narrowed_from=var)
            lk, sk = (tk, ek) if is_list else (ek, tk)
            return "(match %s with\n  | Seg.grp %s => %s\n  | Seg.lit %s => %s)" % (
                var.lean, lv, _arm(lk(env_l)), sv, _arm(sk(env_s)))
        if atom == "indict":
            neg = isinstance(test.ops[0], ast.NotIn)
            d, td = self.global_of(test.comparators[0])
            kexpr = test.left
            k, tkey = self.expr(kexpr, env)
            if tkey not in (STR, CHAR):
                self.bad(test, "key of type %r in a str-keyed table" % (tkey,))
            bound = self.fresh("d")
            sub = ast.Subscript(value=test.comparators[0], slice=kexpr, ctx=ast.Load())
            env2 = dict(env)
            v = Var(bound, td[2])
            v.deps = names_in(kexpr)
            env2["@sub:" + ast.unparse(sub)] = v
            in_k, out_k = (ek, tk) if neg else (tk, ek)
            return "(match lookup %s %s with\n  | none => %s\n  | some %s => %s)" % (
                self.coerce(k, tkey, STR), d, _arm(out_k(env)), bound, _arm(in_k(env2)))
        if atom is not None:
            name = test.id if atom == "truthy" else test.left.id
            var = env[name]
            nv = self.fresh(name)
            env2 = dict(env)
            env2[name] = Var(nv, var.type[1], narrowed_from=var)
            if atom == "truthy":
                inner = self.ite(self.truthy_of(nv, var.type[1], test), tk(env2), ek(env))
                return "(match %s with\n  | none => %s\n  | some %s => %s)" % (
                    var.lean, _arm(ek(env)), nv, _arm(inner))
            none_k, some_k = (tk, ek) if atom == "is" else (ek, tk)
            return "(match %s with\n  | none => %s\n  | some %s => %s)" % (
                var.lean, _arm(none_k(env)), nv, _arm(some_k(env2)))
        if lazy_scopes is not None:
            b, _, raised = self.scoped(lambda: (self.truthy(test, env), BOOL))
            if raised:
                lazy_scopes.append(True)
                c = self.fresh("c")
                inner = self.ite(c, tk(env), ek(env))
                return "(bindE %s fun %s =>%s)" % (b, c, _arm(inner) if "\n" in inner else " " + inner)
            return self.ite(b, tk(env), ek(env))
        b = self.truthy(test, env)
        if as_bool:
            return b
        return self.ite(b, tk(env), ek(env))

    # -- statements ------------------------------------------------------------------------------------
    def contains_exit(self, stmts, allow_continue=False):
        if TF.FuncTranslator.contains_exit(self, stmts, allow_continue):
            return True
        return any(self.may_raise(st) or self.touches_heap(st) for st in stmts)

    def touches_heap(self, st):
        return False

    def if_stmt(self, st, rest, env, k):
        if self.may_raise(st.test) and not self.needs_split(st.test, env):
            # a test that can raise: evaluate it (lazily, in order) first, then branch on the value
            tmp = self.fresh("_t")
            st2 = ast.copy_location(ast.If(test=ast.Name(id=tmp, ctx=ast.Load()), body=st.body, orelse=st.orelse), st)
            ast.fix_missing_locations(st2)

            def compute():
                return self.lazy_truth(st.test, env), BOOL
            return self.assign(tmp, compute, env, lambda e: TF.FuncTranslator.if_stmt(self, st2, rest, e, k), st)
        return TF.FuncTranslator.if_stmt(self, st, rest, env, k)

    def block(self, stmts, env, k):
        if not stmts:
            return k(env)
        st, rest = stmts[0], stmts[1:]

        def kr(e):
            return self.block(rest, e, k)
        if isinstance(st, ast.Raise):
            exc = st.exc
            name = ast.unparse(exc.func) if isinstance(exc, ast.Call) else (ast.unparse(exc) if exc is not None else "")
            if name not in EXCEPTIONS:
                self.bad(st, "only %s can be raised" % ", ".join(sorted(EXCEPTIONS)))
            self.raise_events += 1
            return "(Except.error PyExc.%s)" % EXCEPTIONS[name]
        r = self.stmt_new(st, env, kr)
        if r is not None:
            return r
        return TF.FuncTranslator.block(self, stmts, env, k)

    def stmt_new(self, st, env, kr):
        """statement forms the base class does not know; None = not one of them"""
        # d[k] = v on a dict variable
        if (isinstance(st, ast.Assign) and len(st.targets) == 1 and isinstance(st.targets[0], ast.Subscript)
                and isinstance(st.targets[0].value, ast.Name) and st.targets[0].value.id in env
                and env[st.targets[0].value.id].type[0] == "dict"):
            name = st.targets[0].value.id
            d = env[name]

            def compute():
                # Python evaluates the assigned value first, then the subscript
                vx, vt = self.expr(st.value, env)
                kx, kt0 = self.expr(st.targets[0].slice, env)
                kt = INT if kt0 == LIT else self.norm_key(kt0)
                if vt == LIT:
                    vx, vt = "(%s : Int)" % vx, INT
                dk = kt if d.type[1] is None else self.unify(d.type[1], kt)
                dv = vt if d.type[2] is None else self.unify(d.type[2], vt)
                if dk is None or dv is None or (d.type[1] is not None and (dk, dv) != (d.type[1], d.type[2])):
                    self.bad(st, "dict of %r assigned a %r key / %r value" % (d.type, kt, vt))
                return "(dictSet %s %s %s)" % (d.lean, self.coerce(kx, kt0, dk, st), self.coerce(vx, vt, dv, st)), DICT(dk, dv)
            return self.assign(name, compute, env, kr, st)
        # x: Dict[...] = {}  /  x = {}
        val = st.value if isinstance(st, (ast.Assign, ast.AnnAssign)) else None
        if isinstance(val, ast.Dict) and not val.keys:
            tgt = st.targets[0] if isinstance(st, ast.Assign) else st.target
            if isinstance(tgt, ast.Name):
                return self.assign(tgt.id, lambda: ("[]", DICT(None, None)), env, kr, st)
        # x: SegmentTree = []   -> a new heap object
        if (isinstance(st, ast.AnnAssign) and isinstance(st.target, ast.Name) and isinstance(st.value, ast.List)
                and not st.value.elts and ast.unparse(st.annotation) in ANN_REF):
            if "heap" not in env or env["heap"].type != HEAP:
                self.bad(st, "internal: no heap")
            p = self.fresh("p")
            env2 = dict(env)
            env2["heap"] = Var("heap", HEAP)
            env2[st.target.id] = Var(lean_ident(st.target.id), REF)
            env2 = self.purge(env2, [st.target.id])
            return "let %s := Heap.alloc %s;\nlet heap := %s.1;\nlet %s := %s.2;\n%s" % (
                p, env["heap"].lean, p, lean_ident(st.target.id), p, kr(env2))
        # assignments that only build the MESSAGE of an exception (messages are not modelled)
        if (isinstance(st, ast.Assign) and len(st.targets) == 1 and isinstance(st.targets[0], ast.Name)
                and st.targets[0].id in self.message_only):
            return kr(env)
        if isinstance(st, ast.Expr) and isinstance(st.value, ast.Call) and isinstance(st.value.func, ast.Attribute):
            call = st.value
            recv = call.func.value
            m = call.func.attr
            # E.append(v) on a heap object (E any expression denoting one, e.g. `branch_stack[-1]`)
            if m == "append" and len(call.args) == 1 and not call.keywords:
                is_list_var = isinstance(recv, ast.Name) and recv.id in env and env[recv.id].type[0] == "list"
                if not is_list_var:
                    def compute():
                        r, tr = self.expr(recv, env)
                        if tr != REF:
                            self.bad(st, "`.append` on a value of type %r" % (tr,))
                        v, tv = self.expr(call.args[0], env)
                        if tv in (STR, CHAR):
                            item = "(HItem.str %s)" % self.coerce(v, tv, STR)
                        elif tv == REF:
                            item = "(HItem.ref %s)" % v
                        else:
                            self.bad(st, "a tree holds str items and lists, not %r" % (tv,))
                        return "(Heap.append %s %s %s)" % (env["heap"].lean, r, item), HEAP
                    return self.assign("heap", compute, env, kr, st)
            # xs.pop() as a statement
            if (m == "pop" and not call.args and not call.keywords and isinstance(recv, ast.Name)
                    and recv.id in env and env[recv.id].type[0] == "list"):
                def compute():
                    p = self.hoist("(pyPop %s)" % env[recv.id].lean, "p")
                    return "%s.1" % p, env[recv.id].type
                return self.assign(recv.id, compute, env, kr, st)
        # xs.sort(key=..., reverse=...)
        if (isinstance(st, ast.Expr) and isinstance(st.value, ast.Call) and isinstance(st.value.func, ast.Attribute)
                and st.value.func.attr == "sort" and isinstance(st.value.func.value, ast.Name)
                and st.value.func.value.id in env and not st.value.args):
            name = st.value.func.value.id
            call = st.value

            def compute():
                return self.sorted_call(call, env, call.func.value, call.keywords)
            return self.assign(name, compute, env, kr, st)
        return None

    def norm_key(self, t):
        if t[0] == "tuple":
            return TUP(*[INT if is_intlike(x) else x for x in t[1]])
        return t

    # -- loops ---------------------------------------------------------------------------------------
    def iteration(self, iter_node, target, env, at):
        """-> (lean list, lean element type text, {python name: (projection format on the element, type)})"""
        enum = False
        it = iter_node
        if (isinstance(it, ast.Call) and ast.unparse(it.func) == "enumerate" and len(it.args) == 1
                and not it.keywords and "enumerate" not in env):
            enum = True
            it = it.args[0]
        if ast.unparse(it) in TF.FIELD_TUPLES:
            self.bad(at, "loops over `_fields` are not supported in this group")
        xs, t = self.expr(it, env)
        if t == STR:
            et = CHAR
        elif t[0] == "list" and t[1] is not None:
            et = t[1]
        else:
            self.bad(at, "loop over a value of type %r" % (t,))
        binds = {}

        def bind(tg, proj, ty):
            if isinstance(tg, ast.Name):
                binds[tg.id] = (proj, ty)
            elif isinstance(tg, ast.Tuple):
                if ty[0] != "tuple" or len(ty[1]) != len(tg.elts):
                    self.bad(at, "cannot unpack a value of type %r into %d names" % (ty, len(tg.elts)))
                n = len(ty[1])
                for i, (sub, st_) in enumerate(zip(tg.elts, ty[1])):
                    path = ".2" * i + (".1" if i < n - 1 else "")
                    bind(sub, proj + path, st_)
            else:
                self.bad(at, "loop target must be a name or a tuple of names")
        if enum:
            if not (isinstance(target, ast.Tuple) and len(target.elts) == 2):
                self.bad(at, "`enumerate` needs a two-name target")
            bind(target.elts[0], "%s.2", NAT)          # List.zipIdx yields (element, index)
            bind(target.elts[1], "%s.1", et)
            return "(List.zipIdx %s)" % xs, TUP(et, NAT), binds
        bind(target, "%s", et)
        return xs, et, binds

    def for_stmt(self, st, rest, env, k):
        if st.orelse:
            self.bad(st, "`for ... else`")
        if self.rec is not None and self.rec.get("loop") is st:
            return self.rec["emit_loop"](st, rest, env, k)
        xs, et, binds = self.iteration(st.iter, st.target, env, st)
        x = self.fresh("it") if not isinstance(st.target, ast.Name) else lean_ident(st.target.id)
        env_in = self.purge(dict(env), list(binds))
        for nm, (proj, t) in binds.items():
            env_in[nm] = Var(proj % x, t)
        body = [s for s in st.body if not self.is_dropped(s)]
        names, st_types, step, raised = self.loop_step(st, body, env, env_in, list(binds))
        if not names:
            if raised:
                self.bad(st, "a loop that can raise but carries no state")
            return self.block(rest, env, k)
        tys = [self.lean_type(st_types[n]) for n in names]
        sty = tys[0] if len(tys) == 1 else " × ".join(tys)
        pat = lean_ident(names[0]) if len(names) == 1 else "(" + ", ".join(lean_ident(n) for n in names) + ")"
        vals = [self.coerce(env[n].lean, env[n].type, st_types[n], st) for n in names]
        init = vals[0] if len(vals) == 1 else "(" + ", ".join(vals) + ")"
        fn = "(fun (st : %s) (%s : %s) =>\n    (match st with\n      | %s =>\n%s))" % (
            sty, x, self.lean_type(et), pat, indent(step, 8))
        env2 = self.purge(dict(env), names)
        for n in names:
            env2[n] = Var(lean_ident(n), st_types[n])
        after = self.block(rest, env2, k)
        if raised:
            return "(bindE (foldlE %s\n  %s\n  %s) fun st_ =>\n  (match st_ with\n  | %s => %s))" % (
                fn, init, xs, pat, _arm(after))
        fold = "(List.foldl %s\n  %s\n  %s)" % (fn, init, xs)
        if len(names) == 1:
            return "let %s := %s;\n%s" % (pat, fold, after)
        return "(match %s with\n  | %s => %s)" % (fold, pat, _arm(after))

    def loop_step(self, st, body, env, env_in, targets):
        """translate one iteration: -> (state names, state types, step text, raised)"""
        if self.contains_hard_exit(body):
            self.bad(st, "a loop body with return/break")

        def run_body(e, kk):
            self.loop_k.append(kk)
            try:
                return self.block(body, e, kk)
            finally:
                self.loop_k.pop()
        saved = self.counter
        probes = []
        run_body(env_in, lambda e: (probes.append(e), "?")[1])
        self.counter = saved
        names = [n for n in self.changed_vars(env_in, probes) if n in env and not n.startswith("@")]
        for n in names:
            if n in targets:
                self.bad(st, "the loop target `%s` is also a variable of the enclosing scope" % n)
        if not names:
            return [], {}, "", False
        st_types = {}
        for n in names:
            t = env[n].type
            for pe in probes:
                t = self.unify(t, pe[n].type) if t is not None else None
            if t is None or (t[0] == "list" and t[1] is None) or (t[0] == "dict" and t[1] is None):
                self.bad(st, "cannot type the loop-carried variable `%s`" % n)
            if t == LIT:
                t = INT
            st_types[n] = t
        env_body = dict(env_in)
        for n in names:
            env_body[n] = Var(lean_ident(n), st_types[n])
        env_body = self.purge(env_body, names)
        probes2 = []
        saved = self.counter
        run_body(env_body, lambda e: (probes2.append(e), "?")[1])
        self.counter = saved
        for pe in probes2:
            for n in names:
                if self.unify(pe[n].type, st_types[n]) != st_types[n]:
                    self.bad(st, "the type of `%s` changes from iteration to iteration" % n)

        def tup(wrap):
            def k(e):
                vals = [self.coerce(e[n].lean, e[n].type, st_types[n], st) for n in names]
                v = vals[0] if len(vals) == 1 else "(" + ", ".join(vals) + ")"
                return "(Except.ok %s)" % v if wrap else v
            return k
        # does the body raise?  (decides between List.foldl and foldlE)
        saved = self.counter
        before = self.raise_events
        run_body(env_body, tup(False))
        raised = self.raise_events > before
        self.counter = saved
        step = run_body(env_body, tup(raised))
        return names, st_types, step, raised

    def contains_hard_exit(self, stmts):
        for s in stmts:
            for n in ast.walk(s):
                if isinstance(n, (ast.Return, ast.Break)):
                    return True
        return False

    # -- the whole function ------------------------------------------------------------------------------
    def translate(self):
        spec = self.spec
        src, node = self.src.find(spec["file"], ast.FunctionDef, spec["func"])
        if node is None:
            raise Untranslatable(self.fn, None, "function not found in %s" % spec["file"])
        self.source_text = ast.get_source_segment(src, node)
        a = node.args
        if a.vararg or a.kwarg or a.posonlyargs:
            self.bad(node, "*args / **kwargs / positional-only parameters")
        pynames = [x.arg for x in a.args] + [x.arg for x in a.kwonlyargs]
        if pynames != [p for p, _ in spec["params"]]:
            self.bad(node, "parameters are %s, the signature table expects %s" % (pynames, [p for p, _ in spec["params"]]))
        for d in list(a.defaults) + [d for d in a.kw_defaults if d is not None]:
            if not isinstance(d, ast.Constant):
                self.bad(node, "only constant parameter defaults")
        node, self.is_generator = desugar_generator(self.fn, node)
        self.node = node
        recursive = any(isinstance(n, ast.Call) and CALLEES.get((self.file, ast.unparse(n.func))) == spec["name"]
                        for n in ast.walk(node))
        # first pass: find out whether the function can raise
        self.raises = False
        self.raise_events = 0
        self.counter = 0
        try:
            self.translate_body(node, recursive)
        except Untranslatable:
            if self.raise_events == 0:
                raise
        if self.raise_events > 0:
            self.raises = True
            self.raise_events = 0
        self.counter = 0
        self.extra_imports = []
        text = self.translate_body(node, recursive)
        return [], text

    def lean_params(self, only=None):
        out = []
        for p, t in self.spec["params"]:
            if only is not None and p not in only:
                continue
            out.append("(%s : %s)" % (lean_ident(p), self.lean_type(t)))
        return " ".join(out)

    def result_type(self):
        rt = self.lean_type(self.spec["ret"])
        if self.raises:
            return "Except PyExc " + (("(%s)" % rt) if " " in rt and not rt.startswith("(") else rt)
        return rt

    def initial_env(self):
        env = {}
        for p, t in self.spec["params"]:
            if t[0] == "rec":
                self.record(t[1])
            env[p] = Var(lean_ident(p), t)
        return env

    def find_message_only(self, node):
        """names assigned from f-strings / str constants whose every use is inside a `raise`"""
        cands = set()
        for n in ast.walk(node):
            if (isinstance(n, ast.Assign) and len(n.targets) == 1 and isinstance(n.targets[0], ast.Name)
                    and isinstance(n.value, (ast.JoinedStr, ast.Constant))):
                cands.add(n.targets[0].id)
        in_raise = set()
        for n in ast.walk(node):
            if isinstance(n, ast.Raise):
                for m in ast.walk(n):
                    in_raise.add(id(m))
        for n in ast.walk(node):
            if isinstance(n, ast.Name) and n.id in cands:
                if isinstance(n.ctx, ast.Load) and id(n) not in in_raise:
                    cands.discard(n.id)
                if isinstance(n.ctx, ast.Store):
                    pass
        # every assignment of a candidate must be such a message
        for n in ast.walk(node):
            if isinstance(n, (ast.Assign, ast.AnnAssign, ast.AugAssign)):
                tgts = n.targets if isinstance(n, ast.Assign) else [n.target]
                for t in tgts:
                    if isinstance(t, ast.Name) and t.id in cands and not (
                            isinstance(n, ast.Assign) and isinstance(n.value, (ast.JoinedStr, ast.Constant))):
                        cands.discard(t.id)
        return cands

    def translate_body(self, node, recursive):
        spec = self.spec
        env = self.initial_env()
        self.message_only = self.find_message_only(node)
        uses_heap = any(isinstance(n, ast.AnnAssign) and ast.unparse(n.annotation) in ANN_REF
                        and isinstance(n.value, ast.List) for n in ast.walk(node))
        if uses_heap:
            if any(isinstance(n, ast.Name) and n.id == "heap" for n in ast.walk(node)):
                self.bad(node, "a variable named `heap`")
            env["heap"] = Var("heap", HEAP)

        def fall_off(e):
            return self.ret(None, e, node)
        if recursive:
            return self.translate_recursive(node, env)
        body = self.block(list(node.body), env, fall_off)
        if uses_heap:
            body = "let heap : Heap := [];\n" + body
        head = "def %s %s : %s :=" % (spec["name"], self.lean_params(), self.result_type())
        return "/-- `%s.%s` -/\n" % (spec["file"][:-3], spec["func"]) + head + "\n" + indent(body, 2) + "\n"

    # -- self-recursion over a nested list ------------------------------------------------------------------
    def translate_recursive(self, node, env0):
        """Scheme:  PRE (plain assignments);  `for x in <list parameter p>:` BODY;  POST — recursive calls only
        inside BODY.  Generated:  f.pre (the state PRE builds), f.post (POST as a function of the state),
        f.loop (structural recursion over the list; a recursive call `f(a…)` inside BODY is
        `f.post a… (f.loop a… (f.pre a…) a_p)`), and `f p… = f.post p… (f.loop p… (f.pre p…) p)`."""
        spec = self.spec
        if self.raises:
            self.bad(node, "a recursive function that can raise")
        name = spec["name"]
        stmts = [s for s in node.body if not self.is_dropped(s)]
        loops = [i for i, s in enumerate(stmts) if isinstance(s, ast.For)]
        if len(loops) != 1:
            self.bad(node, "a recursive function needs exactly one top-level loop")
        li = loops[0]
        pre, loop, post = stmts[:li], stmts[li], stmts[li + 1:]
        if not (isinstance(loop.iter, ast.Name) and loop.iter.id in [p for p, _ in spec["params"]]):
            self.bad(loop, "the loop of a recursive function must run over a parameter")
        if not isinstance(loop.target, ast.Name):
            self.bad(loop, "the loop of a recursive function needs a plain name target")
        if loop.orelse:
            self.bad(loop, "`for ... else`")
        pname = loop.iter.id
        ptype = dict(spec["params"])[pname]
        if ptype != LIST(SEG):
            self.bad(loop, "the recursion must run over a nested list")

        def is_rec_call(n):
            return isinstance(n, ast.Call) and CALLEES.get((self.file, ast.unparse(n.func))) == name
        for s in pre + post:
            if any(is_rec_call(n) for n in ast.walk(s)):
                self.bad(s, "recursive call outside the loop")
        for s in pre:
            if not isinstance(s, (ast.Assign, ast.AnnAssign)):
                self.bad(s, "only plain assignments may precede the loop of a recursive function")
            for n in ast.walk(s):
                if isinstance(n, ast.Name) and n.id == pname:
                    self.bad(s, "the statements before the loop must not use the list")
        params = spec["params"]
        others = [(p, t) for p, t in params if p != pname]
        for s in stmts:
            for n in ast.walk(s):
                if isinstance(n, ast.Name) and isinstance(n.ctx, ast.Store) and n.id in dict(params):
                    self.bad(s, "assignment to a parameter of a recursive function")

        # the state: the variables PRE defines
        captured = {}
        saved = self.counter
        self.block(pre, env0, lambda e: (captured.update(e), "?")[1])
        self.counter = saved
        names = [n for n in captured if n not in env0 and not n.startswith("@")]
        if not names:
            self.bad(node, "a recursive function without loop state")
        x = lean_ident(loop.target.id)
        body = [s for s in loop.body if not self.is_dropped(s)]
        self.rec = dict(loop=None, call=lambda vals, n: "?")
        env_pre = dict(env0)
        for n in names:
            env_pre[n] = captured[n]
        env_in = dict(env_pre)
        env_in[loop.target.id] = Var(x, SEG)
        # type the state after one iteration
        if self.contains_hard_exit(body):
            self.bad(loop, "a loop body with return/break")

        def run_body(e, kk):
            self.loop_k.append(kk)
            try:
                return self.block(body, e, kk)
            finally:
                self.loop_k.pop()
        probes = []
        saved = self.counter
        run_body(env_in, lambda e: (probes.append(e), "?")[1])
        self.counter = saved
        st_types = {}
        for n in names:
            t = captured[n].type
            for pe in probes:
                t = self.unify(t, pe[n].type) if t is not None else None
            if t is None or (t[0] == "list" and t[1] is None):
                self.bad(loop, "cannot type the loop-carried variable `%s`" % n)
            if t == LIT:
                t = INT
            st_types[n] = t
        for n in self.changed_vars(env_in, probes):
            if n in env0:
                self.bad(loop, "the loop assigns the parameter `%s`" % n)
        tys = [self.lean_type(st_types[n]) for n in names]
        sty = tys[0] if len(tys) == 1 else " × ".join(tys)
        psty = sty if len(tys) == 1 else "(%s)" % sty
        pat = lean_ident(names[0]) if len(names) == 1 else "(" + ", ".join(lean_ident(n) for n in names) + ")"

        def tup(e):
            vals = [self.coerce(e[n].lean, e[n].type, st_types[n], loop) for n in names]
            return vals[0] if len(vals) == 1 else "(" + ", ".join(vals) + ")"
        all_params = " ".join("(%s : %s)" % (lean_ident(p), self.lean_type(t)) for p, t in params)
        other_params = " ".join("(%s : %s)" % (lean_ident(p), self.lean_type(t)) for p, t in others)
        other_args = " ".join(lean_ident(p) for p, _ in others)
        all_args = " ".join(lean_ident(p) for p, _ in params)
        # f.pre
        pre_text = self.block(pre, env0, tup)
        out = []
        out.append("/-- `%s.%s`: the state before the loop -/\ndef %s.pre %s : %s :=\n%s\n" % (
            spec["file"][:-3], spec["func"], name, all_params, sty, indent(pre_text, 2)))
        # f.post
        env_post = dict(env0)
        for n in names:
            env_post[n] = Var(lean_ident(n), st_types[n])
        post_text = self.block(post, env_post, lambda e: self.ret(None, e, node))
        out.append("/-- `%s.%s`: the statements after the loop -/\ndef %s.post %s (st : %s) : %s :=\n  (match st with\n    | %s =>\n%s)\n" % (
            spec["file"][:-3], spec["func"], name, all_params, sty, self.result_type(), pat, indent(post_text, 6)))
        # f.loop
        pidx = [p for p, _ in params].index(pname)

        def rec_call(vals, n):
            o = [v for i, v in enumerate(vals) if i != pidx]
            return "(%s.post %s (%s.loop %s (%s.pre %s) %s))" % (
                name, " ".join(vals), name, " ".join(o), name, " ".join(vals), vals[pidx])
        self.rec = dict(loop=None, call=rec_call)
        env_body = dict(env0)
        for n in names:
            env_body[n] = Var(lean_ident(n), st_types[n])
        env_body[loop.target.id] = Var(x, SEG)
        del env_body[pname]           # the list itself is not available inside the loop (only its items)
        self.use_bif = True
        try:
            step = run_body(env_body, tup)
        finally:
            self.use_bif = False
        self.rec = None
        out.append(
            "/-- `%s.%s`: the loop, by structural recursion over the nested list -/\n"
            "def %s.loop %s : %s → List Seg → %s\n"
            "  | st, [] => st\n"
            "  | st, %s :: rest_ =>\n"
            "    %s.loop %s\n"
            "      (match st with\n"
            "        | %s =>\n%s)\n"
            "      rest_\n" % (spec["file"][:-3], spec["func"], name, other_params, psty, psty, x, name, other_args,
                             pat, indent(step, 10)))
        out.append("/-- `%s.%s` -/\ndef %s %s : %s :=\n  %s.post %s (%s.loop %s (%s.pre %s) %s)\n" % (
            spec["file"][:-3], spec["func"], name, all_params, self.result_type(), name, all_args, name, other_args,
            name, all_args, lean_ident(pname)))
        return "\n".join(out)


def _char_lit(ch):
    o = ord(ch)
    if ch == "\\":
        return "'\\\\'"
    if ch == "'":
        return "'\\''"
    if ch == "\n":
        return "'\\n'"
    if ch == "\t":
        return "'\\t'"
    if ch == "\r":
        return "'\\r'"
    if 32 <= o < 127:
        return "'%s'" % ch
    return "'\\u{%x}'" % o


# ----------------------------------------------------------------------------------
# file generation
# ----------------------------------------------------------------------------------
GEN_BY = "harness/translate_format.py"


def render(spec, sources, status):
    fname = "F_%s.lean" % spec["name"]
    tr = FormatTranslator(spec, sources, status)
    where = "src/bumpver/%s" % spec["file"]
    try:
        _, body = tr.translate()
    except Untranslatable as ex:
        text = getattr(tr, "source_text", None)
        lines = [
            "/- GENERATED by %s. Do not edit." % GEN_BY,
            "   source   : %s" % where,
            "   function : %s" % spec["func"],
            "   sha256   : %s" % (sha256(text) if text else "(function not found)"),
            "",
            "   UNTRANSLATABLE: %s" % str(ex).replace("-/", "- /"),
            "   (no definition is generated; BV.tie_%s cannot compile until this is resolved) -/" % spec["name"],
            "",
        ]
        status[spec["name"]] = dict(error=True, raises=True)
        return fname, "\n".join(lines), ex
    except Exception as ex:  # unreadable / unparsable source, or an internal error: never a silent success
        lines = [
            "/- GENERATED by %s. Do not edit." % GEN_BY,
            "   source   : %s" % where,
            "   function : %s" % spec["func"],
            "",
            "   UNTRANSLATABLE: the source could not be read/parsed/translated: %s: %s -/"
            % (type(ex).__name__, str(ex).replace("-/", "- /")),
            "",
        ]
        status[spec["name"]] = dict(error=True, raises=True)
        return fname, "\n".join(lines), ex
    status[spec["name"]] = dict(error=False, raises=tr.raises)
    lines = [
        "/- GENERATED by %s from the Python AST. Do not edit." % GEN_BY,
        "   source   : %s" % where,
        "   function : %s" % spec["func"],
        "   sha256   : %s  (of the function's source text) -/" % sha256(tr.source_text),
    ]
    for imp in spec["imports"] + tr.extra_imports:
        lines.append("import %s" % imp)
    lines.append("set_option linter.unusedVariables false")
    lines.append("namespace BV.GenF")
    lines.append("open FP")
    lines.append("")
    lines.append(body)
    lines.append("end BV.GenF")
    lines.append("")
    return fname, "\n".join(lines), None


def generate(report=None):
    """{filename: content} for lean/BumpverVerif/Gen/ (same contract as translate_funcs.generate)"""
    sources = TF.Sources()
    out = {"F_formatPrelude.lean": PRELUDE}
    status = {}
    for spec in FUNCS:            # callees come before their callers in the signature table
        fname, content, err = render(spec, sources, status)
        out[fname] = content
        if report is not None:
            report.append((spec["func"], fname, err))
    return out


def main():
    rep = []
    only = [a for a in sys.argv[1:] if not a.startswith("--")] or None
    files = generate(rep)
    gen = os.path.join(os.path.dirname(HERE), "lean", "BumpverVerif", "Gen")
    if "--write" in sys.argv:
        for name, content in files.items():
            path = os.path.join(gen, name)
            old = open(path, encoding="utf-8").read() if os.path.exists(path) else None
            if old != content:
                with open(path, "w", encoding="utf-8") as f:
                    f.write(content)
                print("wrote", name)
    for func, fname, err in rep:
        print("%-28s %-28s %s" % (func, fname, "ok" if err is None else "UNTRANSLATABLE: %s" % err))
    if "--show" in sys.argv:
        for name, content in files.items():
            if name == "F_formatPrelude.lean" or (only and name[2:-5] not in only):
                continue
            print("=" * 20, name)
            print(content)
    return 0


if __name__ == "__main__":
    sys.exit(main())
