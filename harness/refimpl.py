"""An independent reference reading of the README rules (pattern tokenisation, rendering with
optional-group omission, the bump rules).  Used ONLY by the property oracles that judge the
implementation; it shares no code with bumpver and none with the Lean model."""
import datetime as dt

PART_FIELD = {
    "YYYY": "year_y", "YY": "year_y", "0Y": "year_y", "GGGG": "year_g", "GG": "year_g", "0G": "year_g",
    "Q": "quarter", "MM": "month", "0M": "month", "DD": "dom", "0D": "dom", "JJJ": "doy", "00J": "doy",
    "MAJOR": "major", "MINOR": "minor", "PATCH": "patch", "BUILD": "bid", "BLD": "bid", "TAG": "tag", "PYTAG": "pytag",
    "NUM": "num", "INC0": "inc0", "INC1": "inc1", "WW": "week_w", "0W": "week_w", "UU": "week_u", "0U": "week_u",
    "VV": "week_v", "0V": "week_v",
}
PAD = {"0Y": 2, "0G": 2, "0M": 2, "0D": 2, "00J": 3, "0W": 2, "0U": 2, "0V": 2}
CAL_ORDER = ["year_y", "year_g", "quarter", "month", "dom", "doy", "week_w", "week_u", "week_v"]
PYTAG = {"alpha": "a", "beta": "b", "rc": "rc", "dev": "dev", "post": "post", "final": "", "preview": "rc"}
RESETTABLE = {"major": 0, "minor": 0, "patch": 0, "num": 0, "inc0": 0, "inc1": 1}
NAMES = sorted(PART_FIELD, key=len, reverse=True)


def tokenize(pat):
    """pattern -> tree: list of ('lit', text) | ('part', name) | ('grp', [items]); escapes \\[ \\]"""
    pos = 0

    def items(depth):
        nonlocal pos
        out, lit = [], ""
        while pos < len(pat):
            c = pat[pos]
            if c == "\\" and pos + 1 < len(pat) and pat[pos + 1] in "[]":
                lit += pat[pos + 1]
                pos += 2
                continue
            if c == "[":
                if lit:
                    out.append(("lit", lit)); lit = ""
                pos += 1
                out.append(("grp", items(depth + 1)))
                continue
            if c == "]":
                if depth == 0:
                    raise ValueError("unbalanced")
                pos += 1
                if lit:
                    out.append(("lit", lit))
                return out
            for n in NAMES:
                if pat.startswith(n, pos):
                    if lit:
                        out.append(("lit", lit)); lit = ""
                    out.append(("part", n))
                    pos += len(n)
                    break
            else:
                lit += c
                pos += 1
        if depth:
            raise ValueError("unclosed")
        if lit:
            out.append(("lit", lit))
        return out
    return items(0)


def parts_of(tree):
    out = []
    for kind, x in tree:
        if kind == "part":
            out.append(x)
        elif kind == "grp":
            out += parts_of(x)
    return out


def cal_of(date):
    iso = date.isocalendar()
    return {"year_y": date.year, "year_g": iso[0], "quarter": (date.month - 1) // 3 + 1, "month": date.month, "dom": date.day,
            "doy": date.timetuple().tm_yday, "week_w": int(date.strftime("%W")), "week_u": int(date.strftime("%U")), "week_v": iso[1]}


def render_part(name, st):
    f = PART_FIELD[name]
    if f == "pytag":
        return PYTAG[st["tag"]]
    v = st[f]
    if f == "tag":
        return st["tag"]
    if name == "BUILD":
        return st["bid"]
    if name == "BLD":
        return str(int(st["bid"]))
    if name in ("YY", "GG"):
        return str(v % 100)
    if name in ("0Y", "0G"):
        return "%02d" % (v % 100)
    if name in PAD:
        return str(v).zfill(PAD[name])
    return str(v)


def is_zero_part(name, st):
    f = PART_FIELD[name]
    if name in ("MAJOR", "MINOR", "PATCH", "NUM", "INC0"):
        return st[f] == 0
    if name in ("TAG", "PYTAG"):
        return st["tag"] == "final"
    return False


def render(tree, st, top=True):
    """README: an optional group is omitted exactly when all its parts are zero"""
    out = ""
    for kind, x in tree:
        if kind == "lit":
            out += x
        elif kind == "part":
            out += render_part(x, st)
        else:
            ps = parts_of(x)
            if ps and all(is_zero_part(p, st) for p in ps):
                continue
            if not ps:
                continue            # a group without any part renders empty (it is "all zero" vacuously)
            out += render(x, st, False)
    return out


def render_respelled(tree, st, rng):
    """a NON-canonical spelling of the same version that the pattern still accepts: one of the numeric parts whose recogniser is
    `[0-9]+` (MAJOR MINOR PATCH NUM INC0) written with a leading zero.  None when the pattern shows no such part."""
    shown = []

    def walk(t):
        for kind, x in t:
            if kind == "part" and x in ("MAJOR", "MINOR", "PATCH", "NUM", "INC0"):
                shown.append(x)
            elif kind == "grp":
                ps = parts_of(x)
                if ps and not all(is_zero_part(p, st) for p in ps):
                    walk(x)
    walk(tree)
    if not shown:
        return None
    target = rng.choice(shown)

    def go(t):
        out = ""
        for kind, x in t:
            if kind == "lit":
                out += x
            elif kind == "part":
                out += ("0" if x == target else "") + render_part(x, st)
            else:
                ps = parts_of(x)
                if not ps or all(is_zero_part(p, st) for p in ps):
                    continue
                out += go(x)
        return out
    return go(tree)


def observable_fields(tree):
    """fields shown by the pattern, left to right"""
    return [PART_FIELD[p] for p in parts_of(tree)]


def bump(tree, st, flags, date):
    """the documented bump rules; returns the new state (dict) — st has every field"""
    new = dict(st)
    fields = observable_fields(tree)
    calf = [f for f in fields if f in CAL_ORDER]
    # calendar parts: from the date unless pinned; never backwards
    if not flags["pin_date"] and calf:
        datec = cal_of(date)
        full = ("year_y" in calf and "doy" in calf) or all(f in calf for f in ("year_y", "month", "dom"))
        cmpf = CAL_ORDER if full else [f for f in CAL_ORDER if f in calf]
        oldk = [st[f] for f in cmpf]
        newk = [datec[f] for f in cmpf]
        if not oldk > newk:
            for f in CAL_ORDER:
                new[f] = datec[f]
    if flags["major"]:
        new["major"] += 1
    if flags["minor"]:
        new["minor"] += 1
    if flags["patch"]:
        new["patch"] += 1
    if flags["tag_num"]:
        new["num"] += 1
    if flags["tag"]:
        if flags["tag"] != st["tag"]:
            new["num"] = 0
        new["tag"] = flags["tag"]
    if new["tag"] == "final":
        new["num"] = 0
    if not flags["pin_increments"]:
        new["inc0"] += 1
        new["inc1"] += 1
    new["bid"] = None  # BUILD: only "strictly greater" is prescribed; filled in by the caller
    # reset everything resettable to the right of any changed part
    changed = False
    for f in fields:
        if f in ("tag", "pytag"):
            if new["tag"] != st["tag"]:
                changed = True
            continue
        if changed and f in RESETTABLE:
            new[f] = RESETTABLE[f]
        elif f == "bid":
            changed = True       # BUILD always increases
        elif new[f] != st[f]:
            changed = True
    return new


def next_bid(b):
    """documented lexid scheme with bumpver's padding below 1000; None = maximum reached"""
    if int(b) < 1000:
        b = str(int(b) + 1000)
    if set(b) == {"9"}:
        return None
    m = int(b) + 1
    s = str(m).zfill(len(b))
    if len(s) == len(b) and s[0] == b[0]:
        return s
    return str(m * 11)


def default_state():
    return {"year_y": None, "year_g": None, "quarter": None, "month": None, "dom": None, "doy": None, "week_w": None,
            "week_u": None, "week_v": None, "major": 0, "minor": 0, "patch": 0, "bid": "1000", "tag": "final",
            "num": 0, "inc0": 0, "inc1": 1}


def gen_state(rng, tree, date, gen):
    """a version state as it would be read from a version string of this pattern: fields the
    pattern does not show keep their defaults"""
    st = default_state()
    fields = observable_fields(tree)
    if any(f in CAL_ORDER for f in fields):
        st.update(cal_of(date))
    for f in fields:
        if f in ("major", "minor", "patch", "num", "inc0"):
            st[f] = gen.gen_nat(rng)
        elif f == "inc1":
            st[f] = max(1, gen.gen_nat(rng))
        elif f == "bid":
            st[f] = gen.gen_bid(rng)
            if "BLD" in parts_of(tree):
                st[f] = str(int(st[f]) or 1)
        elif f in ("tag", "pytag"):
            st["tag"] = rng.choice(gen.TAGS)
            # `preview` is a tag the TAG recogniser accepts (a hand-written current version) although --tag does not offer it;
            # it has no PEP 440 spelling of its own (it maps to rc), so it only makes sense where the long tag is shown
            if "TAG" in parts_of(tree) and rng.random() < 0.1:
                st["tag"] = "preview"
    if st["tag"] == "final":
        st["num"] = 0           # a final release has no release number
    return st


# the recognisers of the README part table, written out independently
PART_RE = {
    "YYYY": r"[1-9][0-9]{3}", "YY": r"[1-9][0-9]?", "0Y": r"[0-9]{2}", "GGGG": r"[1-9][0-9]{3}", "GG": r"[1-9][0-9]?", "0G": r"[0-9]{2}",
    "Q": r"[1-4]", "MM": r"(?:1[0-2]|[1-9])", "0M": r"(?:1[0-2]|0[1-9])", "DD": r"(?:3[01]|[12][0-9]|[1-9])", "0D": r"(?:3[01]|[12][0-9]|0[1-9])",
    "JJJ": r"(?:36[0-6]|3[0-5][0-9]|[12][0-9][0-9]|[1-9][0-9]|[1-9])", "00J": r"(?:36[0-6]|3[0-5][0-9]|[12][0-9][0-9]|0[1-9][0-9]|00[1-9])",
    "WW": r"(?:5[0-2]|[1-4][0-9]|[0-9])", "0W": r"(?:5[0-2]|[0-4][0-9])", "UU": r"(?:5[0-2]|[1-4][0-9]|[0-9])", "0U": r"(?:5[0-2]|[0-4][0-9])",
    "VV": r"(?:5[0-3]|[1-4][0-9]|[1-9])", "0V": r"(?:5[0-3]|[1-4][0-9]|0[1-9])",
    "MAJOR": r"[0-9]+", "MINOR": r"[0-9]+", "PATCH": r"[0-9]+", "BUILD": r"[0-9]+", "BLD": r"[1-9][0-9]*",
    "TAG": r"(?:preview|final|dev|alpha|beta|post|rc)", "PYTAG": r"(?:dev|post|rc|a|b)", "NUM": r"[0-9]+", "INC0": r"[0-9]+", "INC1": r"[1-9][0-9]*",
}


def ref_regex(tree):
    import re
    out = ""
    for kind, x in tree:
        if kind == "lit":
            out += re.escape(x)
        elif kind == "part":
            out += "(?:" + PART_RE[x] + ")"
        else:
            out += "(?:" + ref_regex(x) + ")?"
    return out
